//! C28 — declared output orderings, equivalences, constants and partitionings hold on the data.
//!
//! Every node of every engine-built physical plan is wrapped in a `planmon::MonitorExec`; after the
//! query ran, each node's declared `EquivalenceProperties` / `Partitioning` are evaluated on the
//! batches that node actually emitted (per partition, across batch boundaries).

use dfv::cases::Case;
use dfv::planmon::*;
use dfv::qgen::GenCfg;
use vcommon::{json, Args, Report, Rng};

const REQUIRED_NODE_KINDS: &[&str] = &[
    "DataSourceExec", "ProjectionExec", "FilterExec", "SortExec", "SortPreservingMergeExec", "AggregateExec", "HashJoinExec", "SortMergeJoinExec",
    "NestedLoopJoinExec", "CrossJoinExec", "RepartitionExec", "CoalescePartitionsExec", "UnionExec", "BoundedWindowAggExec", "WindowAggExec", "GlobalLimitExec",
];

fn analyse(run: &MonRun, tally: &mut Tally, corrupt: Corrupt) -> Vec<Finding> {
    let mut per_node = vec![];
    let mut corrupted = false;
    for node in &run.wrapped.nodes {
        let obs = observe(node);
        // self-test: corrupt the observation of the first node that has rows and something declared
        let c = if corrupt.on && !corrupted && obs.total_rows() >= 2 {
            use datafusion::physical_plan::ExecutionPlanProperties;
            let eq = node.inner.equivalence_properties();
            let declared = !eq.oeq_class().is_empty() || !eq.constants().is_empty();
            corrupted |= declared;
            Corrupt { on: declared }
        } else {
            Corrupt::default()
        };
        let mut f = check_properties(node, &obs, tally, c);
        classify(node, &mut f);
        per_node.push(f);
    }
    report_origins(&run.wrapped.nodes, per_node, tally)
}

/// Root causes that can be keyed precisely get their own signature, so that other violations of the
/// same node kind still surface.
fn classify(node: &MonNode, findings: &mut [Finding]) {
    use datafusion::physical_plan::sorts::sort_preserving_merge::SortPreservingMergeExec;
    let name = node.inner.name().to_string();
    let display = datafusion::physical_plan::displayable(node.inner.as_ref()).one_line().to_string();
    for f in findings.iter_mut() {
        let kind = f.sig.split('/').next().unwrap_or("").to_string();
        let value_kind = kind == "constant-violated" || kind == "equivalence-violated";
        // (1) a file scan declares the equalities of its predicate although the predicate only prunes
        //     (row groups / pages); rows that do not satisfy it are still emitted
        if name == "DataSourceExec" && value_kind {
            if let Some(p) = scan_predicate(node) {
                f.sig = format!("{}[unenforced-scan-predicate]", f.sig);
                if let Some(o) = f.detail.as_object_mut() {
                    o.insert("scan_predicate".into(), json!(p));
                }
            }
        }
        // (2) an outer join keeps a constant / literal equivalence of its NULL-padded input
        if name.ends_with("JoinExec") && value_kind && ["join_type=Left,", "join_type=Right,", "join_type=Full,"].iter().any(|t| display.contains(t)) {
            let has_null = f.detail.get("values").and_then(|v| v.as_array()).map(|v| v.iter().any(|x| x.is_null())).unwrap_or(false)
                || f.detail.get("observed").map(|o| o.to_string().contains("null")).unwrap_or(false);
            if has_null {
                f.sig = format!("{}[outer-join-null-padding]", f.sig);
            }
        }
        // (3) a sort-preserving merge keeps per-partition orderings of its input that its merge key does not imply
        if kind == "ordering-violated" {
            if let Some(spm) = node.inner.downcast_ref::<SortPreservingMergeExec>() {
                let merged_on = spm.expr().to_string();
                let violated = f.detail.get("ordering").and_then(|o| o.as_str()).unwrap_or("").to_string();
                if violated != merged_on && node.inner.children().first().map(|c| datafusion::physical_plan::ExecutionPlanProperties::output_partitioning(*c).partition_count() > 1).unwrap_or(false) {
                    f.sig = format!("{}[input-ordering-kept-after-merge]", f.sig);
                    if let Some(o) = f.detail.as_object_mut() {
                        o.insert("merged_on".into(), json!(merged_on));
                    }
                }
            }
            // (5) a join declares <probe-side ordering> extended lexicographically by <build-side ordering>; that only
            //     holds when the probe-side ordering has no ties
            if name.ends_with("JoinExec") && f.detail.get("deciding_position").and_then(|p| p.as_u64()).unwrap_or(0) >= 1 && !f.detail.get("null_placement").and_then(|b| b.as_bool()).unwrap_or(false) {
                f.sig = format!("{}[lexicographic-extension-across-join-sides]", f.sig);
            }
            // (4) the result column of a set-monotonic window aggregate is declared NULLS LAST although the
            //     NULLs of empty / all-NULL frames come first (or the reverse for reversed frames)
            if (name == "WindowAggExec" || name == "BoundedWindowAggExec") && f.detail.get("null_placement").and_then(|b| b.as_bool()).unwrap_or(false) {
                let ncols_in = node.inner.children().first().map(|c| c.schema().fields().len()).unwrap_or(usize::MAX);
                let expr = f.detail.get("deciding_expr").and_then(|e| e.as_str()).unwrap_or("").to_string();
                // "<name>@<index> ..." with index >= number of input columns: a window result column
                let idx = expr.rsplit('@').next().and_then(|t| t.split_whitespace().next()).and_then(|n| n.parse::<usize>().ok());
                if idx.map(|i| i >= ncols_in).unwrap_or(false) {
                    f.sig = format!("{}[window-result-nulls-placement]", f.sig);
                }
            }
        }
    }
}

fn nontrivial(run: &MonRun) -> bool {
    // something was declared somewhere and rows flowed
    use datafusion::physical_plan::ExecutionPlanProperties;
    run.batches.iter().any(|b| b.num_rows() > 0)
        && run.wrapped.nodes.iter().any(|n| {
            let eq = n.inner.equivalence_properties();
            !eq.oeq_class().is_empty() || !eq.constants().is_empty() || matches!(n.inner.output_partitioning(), datafusion::physical_plan::Partitioning::Hash(_, _))
        })
}

fn gen_case(rep: &Report, rng: &mut Rng, cfg: &GenCfg, cfg_idx: u64, reg: Reg, reg_seed: u64, corrupt: Corrupt) {
    let case = Case::generate(rng, cfg);
    match prepare_generated(&case, cfg_idx, reg, reg_seed) {
        Ok(p) => {
            drive(rep, p, nontrivial, |run, tally| analyse(run, tally, corrupt));
        }
        Err(_) => rep.skip("harness-registration-failed"),
    }
}

fn fixture_case(rep: &Report, fx: &Fixture, seed: u64, idx: u64, cfg_idx: u64, corrupt: Corrupt) {
    let mut rng = Rng::derive(seed, &[28, 7, idx]);
    let sql = fixture_query(&mut rng, idx);
    let reg_seed = rng.next_u64() % 1000;
    let rt = dfv::engine::current_thread_rt();
    match rt.block_on(prepare_fixture(fx, sql, cfg_idx, reg_seed, &[])) {
        Ok(p) => {
            drop(rt);
            drive(rep, p, nontrivial, |run, tally| analyse(run, tally, corrupt));
        }
        Err(e) => {
            rep.skip("harness-fixture-registration-failed");
            if rep.get_count("fixture_reg_errors") < 2 {
                rep.count("fixture_reg_errors", 1);
                rep.extra("fixture_registration_error", json!(e.to_string()));
            }
        }
    }
}

fn run(args: &Args) -> i32 {
    let rep = Report::new("C28", "exploration", args);
    rep.set_rule("case = (generated tables + generated SELECT of the C01 fragment, or a template query over sources with declared orderings) x session configuration (target_partitions 1/3/4, batch_size 2/3/8192, hash vs merge joins, repartition_* toggles) x registration (random layout | MemTable::with_sort_order over sorted data | Parquet/CSV WITH ORDER); every node of the optimized physical plan is wrapped by MonitorExec and its declared orderings / equivalence classes / constants / hash partitioning are evaluated on the batches it emitted; distinct = hash(SQL + tables + configuration + registration); non-trivial = rows flowed and some node declared an ordering, constant or hash partitioning");
    rep.assume("the wrapper is transparent: it hands out the inner node's own Arc<PlanProperties> and delegates downcasts; each monitored run is paired with an unwrapped run and dropped as inconclusive when the results differ");
    rep.assume("orderings are compared with an independent comparator (IEEE total order for floats, byte order for strings, SortOptions honoured); equivalences/constants with engine value equality (NULL = NULL, +-0.0 merged, NaN = NaN); hash-partitioning keys bit-exactly");
    rep.assume("expressions of declared properties are evaluated with the engine's own PhysicalExpr::evaluate on the emitted batches");
    let corrupt = Corrupt { on: args.opt_u64("selftest", 0) == 1 };
    if let Some(p) = &args.replay {
        return replay(p);
    }
    let cfg = GenCfg::default();
    let n_sys = args.bound("systematic", 2400, 8000);
    let n_fix = args.bound("fixture", 1160, 5800);
    let n_rand = args.bound("random", 2500, 80_000);
    let fx = match Fixture::new(28, 48) {
        Ok(f) => f,
        Err(e) => {
            rep.inconclusive(&format!("cannot create the fixture files: {e}"));
            return rep.finish();
        }
    };
    // systematic part (seed independent): generated cases over plain and sorted registrations, all configurations
    vcommon::par::run(args.workers, 0..n_sys, |i| {
        let mut rng = Rng::derive(0xC28, &[0, i / 2]);
        let mut c = cfg.clone();
        c.max_depth = 1 + ((i / 2) % 3) as usize;
        let reg = if i % 2 == 0 { Reg::Sorted(i / 2) } else { Reg::Layout };
        gen_case(&rep, &mut rng, &c, i / 2 + i % 2 * 3, reg, i, corrupt);
    });
    // every template under every configuration
    vcommon::par::run(args.workers, 0..n_fix, |i| {
        fixture_case(&rep, &fx, 0xC28, i, i / N_FIXTURE_TEMPLATES, corrupt);
    });
    for k in REQUIRED_NODE_KINDS {
        rep.obligation(&format!("node-kind:{k}"), rep.has_seen("node_kinds", k), "operator must be monitored at least once in the systematic part");
    }
    let sum = |prefix: &str| -> u64 { COUNTED_KINDS.iter().map(|k| rep.get_count(&format!("{prefix}/{k}"))).sum() };
    rep.obligation("orderings-checked", sum("orderings_checked_nontrivial") >= 500, "declared orderings compared on >= 2 rows");
    rep.obligation("constants-checked", sum("constants_checked_nontrivial") >= 100, "declared constants evaluated on rows");
    rep.obligation("equivalences-checked", sum("equivalences_checked_nontrivial") >= 50, "equivalence classes evaluated on rows");
    rep.obligation("hash-partitionings-checked", sum("hash_partitionings_checked_nontrivial") >= 100, "hash partitionings with rows in >= 2 partitions");
    rep.obligation("sort-elided", rep.get_count("plans_sort_elided") >= 100, "plans in which an ordering requirement is met without a sort");
    rep.obligation("repartition-elided", rep.get_count("plans_repartition_elided") >= 20, "plans in which a key-distribution requirement is met without a hash repartition");
    // seeded random tail
    vcommon::par::run(args.workers, 0..n_rand, |i| {
        if rep.violation_count() > 4000 || !rep.within_budget(args.tier.pick(75.0, 900.0)) {
            return;
        }
        if i % 5 == 4 {
            fixture_case(&rep, &fx, args.seed, 1_000_000 + i, i, corrupt);
            return;
        }
        let mut rng = Rng::derive(args.seed, &[1, i]);
        let mut c = cfg.clone();
        c.max_depth = 1 + (i % 4) as usize;
        if i % 7 == 0 {
            c.max_rows = 30;
        }
        let reg = if i % 3 == 0 { Reg::Layout } else { Reg::Sorted(rng.below(5)) };
        let cfg_idx = rng.below(10);
        gen_case(&rep, &mut rng, &c, cfg_idx, reg, i, corrupt);
    });
    let executed = rep.get_count("executed_generated") + rep.get_count("executed_generated-sorted") + rep.get_count("executed_fixture");
    let guard = rep.get_count("guard_mismatch");
    rep.obligation("guard", guard * 100 <= executed.max(1), "wrapped and unwrapped runs must agree in >= 99% of the executed cases");
    rep.obligation("executed-share", executed * 100 >= (n_sys + n_fix) * 60, "at least 60% of the systematic cases must execute");
    rep.finish()
}

/// node kinds whose counters are summed for the obligations (anything else still shows in the counters)
const COUNTED_KINDS: &[&str] = &[
    "DataSourceExec", "ProjectionExec", "FilterExec", "SortExec", "SortPreservingMergeExec", "AggregateExec", "HashJoinExec", "SortMergeJoinExec", "NestedLoopJoinExec", "CrossJoinExec",
    "RepartitionExec", "CoalescePartitionsExec", "CoalesceBatchesExec", "UnionExec", "InterleaveExec", "BoundedWindowAggExec", "WindowAggExec", "GlobalLimitExec", "LocalLimitExec",
    "PlaceholderRowExec", "EmptyExec", "RecursiveQueryExec", "WorkTableExec", "ScalarSubqueryExec", "LazyMemoryExec", "PartialSortExec", "UnnestExec", "CooperativeExec", "SymmetricHashJoinExec",
];

fn replay(p: &std::path::Path) -> i32 {
    let Ok(text) = std::fs::read_to_string(p) else { return 2 };
    let Ok(v) = serde_json::from_str::<vcommon::Json>(&text) else { return 2 };
    let w = v.get("witness").cloned().unwrap_or(v);
    let Some((_fx, prepared)) = prepared_from_witness(&w) else {
        println!("cannot rebuild the witness");
        return 2;
    };
    println!("{}", prepared.sql);
    let rt = dfv::engine::current_thread_rt();
    match rt.block_on(run_monitored(&prepared.ctx, &prepared.sql)) {
        Outcome::Ok(run) => {
            println!("{}", run.plan_text);
            let mut tally = Tally::default();
            let f = analyse(&run, &mut tally, Corrupt::default());
            for x in &f {
                println!("FINDING {} {}", x.sig, x.detail);
            }
            if f.is_empty() {
                println!("REPLAY: no declared property is violated any more");
                0
            } else {
                println!("VIOLATION property=C28 replay={} (replayed: still violated)", p.display());
                1
            }
        }
        Outcome::PlanError(e) | Outcome::ExecError(e) => {
            println!("engine error: {e}");
            2
        }
        Outcome::GuardMismatch(w) => {
            println!("guard mismatch: {w}");
            2
        }
    }
}

fn main() {
    let args = Args::parse();
    vcommon::par::quiet_panics();
    std::process::exit(run(&args));
}
