//! C27 — partition-value pruning of listing tables never drops matching files.
//!
//! The harness builds hive-partitioned directory trees itself (its own parquet / csv writers, its
//! own path spelling), keeps the record (file → partition values, rows), evaluates every filter with
//! its own three-valued evaluator and compares with the `ListingTable` query result, the files in
//! the physical plan, `pruned_partition_list`, `evaluate_partition_prefix` and
//! `parse_partitions_for_path`.

use arrow::datatypes::{DataType, Field, Schema, SchemaRef};
use datafusion::common::DFSchema;
use datafusion::datasource::file_format::csv::CsvFormat;
use datafusion::datasource::file_format::parquet::ParquetFormat;
use datafusion::datasource::listing::helpers::{evaluate_partition_prefix, expr_applicable_for_cols, parse_partitions_for_path, pruned_partition_list};
use datafusion::datasource::listing::{ListingOptions, ListingTable, ListingTableConfig, ListingTableUrl};
use datafusion::execution::runtime_env::RuntimeEnvBuilder;
use datafusion::logical_expr::simplify::SimplifyContext;
use datafusion::optimizer::simplify_expressions::ExprSimplifier;
use datafusion::prelude::*;
use dfv::engine::{batches_to_rows, current_thread_rt};
use dfv::filetab::{batch_of, date_str, plan_file_groups, schema_of, sql_lit, sql_str, CT};
use dfv::refint::like_match;
use dfv::value::{Row, Value};
use futures::TryStreamExt;
use std::cmp::Ordering;
use std::collections::{BTreeMap, BTreeSet};
use std::sync::Arc;
use vcommon::{fp_bytes, fp_mix, json, Args, Json, Report, Rng};

// ------------------------------------------------------------------------------------------
// filter language + evaluator (three-valued)

#[derive(Clone, Copy, Debug, PartialEq)]
enum Op {
    Eq,
    Ne,
    Lt,
    Le,
    Gt,
    Ge,
}

#[derive(Clone, Debug)]
enum Ex {
    Col(usize),
    Lit(Value, CT),
    /// a date written as a plain string literal `'YYYY-MM-DD'` (coerced by the engine)
    DateStr(i64),
    Cmp(Box<Ex>, Op, Box<Ex>),
    And(Box<Ex>, Box<Ex>),
    Or(Box<Ex>, Box<Ex>),
    Not(Box<Ex>),
    IsNull(Box<Ex>, bool),
    InList(Box<Ex>, Vec<Ex>, bool),
    Between(Box<Ex>, Box<Ex>, Box<Ex>, bool),
    Like(Box<Ex>, String, bool),
    Upper(Box<Ex>),
    Length(Box<Ex>),
    Concat(Box<Ex>, String),
    Substr(Box<Ex>, i64, i64),
    NullIf(Box<Ex>, Box<Ex>),
    Coalesce(Box<Ex>, Box<Ex>),
    Abs(Box<Ex>),
    Add(Box<Ex>, i64),
    Mod(Box<Ex>, i64),
    CastStr(Box<Ex>, CT),
    Year(Box<Ex>),
    AddDays(Box<Ex>, i64),
}

fn b(e: Ex) -> Box<Ex> {
    Box::new(e)
}

struct Names<'a>(&'a [(String, CT)]);

fn render(e: &Ex, n: &Names) -> String {
    let r = |x: &Ex| render(x, n);
    match e {
        Ex::Col(i) => n.0[*i].0.clone(),
        Ex::Lit(v, t) => sql_lit(v, *t),
        Ex::DateStr(d) => sql_str(&date_str(*d)),
        Ex::Cmp(a, op, c) => format!(
            "({} {} {})",
            r(a),
            match op {
                Op::Eq => "=",
                Op::Ne => "<>",
                Op::Lt => "<",
                Op::Le => "<=",
                Op::Gt => ">",
                Op::Ge => ">=",
            },
            r(c)
        ),
        Ex::And(a, c) => format!("({} AND {})", r(a), r(c)),
        Ex::Or(a, c) => format!("({} OR {})", r(a), r(c)),
        Ex::Not(a) => format!("(NOT {})", r(a)),
        Ex::IsNull(a, neg) => format!("({} IS {}NULL)", r(a), if *neg { "NOT " } else { "" }),
        Ex::InList(a, l, neg) => format!("({} {}IN ({}))", r(a), if *neg { "NOT " } else { "" }, l.iter().map(r).collect::<Vec<_>>().join(", ")),
        Ex::Between(a, lo, hi, neg) => format!("({} {}BETWEEN {} AND {})", r(a), if *neg { "NOT " } else { "" }, r(lo), r(hi)),
        Ex::Like(a, p, neg) => format!("({} {}LIKE {})", r(a), if *neg { "NOT " } else { "" }, sql_str(p)),
        Ex::Upper(a) => format!("upper({})", r(a)),
        Ex::Length(a) => format!("character_length({})", r(a)),
        Ex::Concat(a, s) => format!("concat({}, {})", r(a), sql_str(s)),
        Ex::Substr(a, s, l) => format!("substr({}, {s}, {l})", r(a)),
        Ex::NullIf(a, c) => format!("nullif({}, {})", r(a), r(c)),
        Ex::Coalesce(a, c) => format!("coalesce({}, {})", r(a), r(c)),
        Ex::Abs(a) => format!("abs({})", r(a)),
        Ex::Add(a, k) => format!("({} + {k})", r(a)),
        Ex::Mod(a, k) => format!("({} % {k})", r(a)),
        Ex::CastStr(a, _) => format!("CAST({} AS VARCHAR)", r(a)),
        Ex::Year(a) => format!("date_part('year', {})", r(a)),
        Ex::AddDays(a, k) => format!("({} + INTERVAL '{k} days')", r(a)),
    }
}

fn tv(v: &Value) -> Option<bool> {
    match v {
        Value::Bool(b) => Some(*b),
        _ => None,
    }
}

fn from_tv(x: Option<bool>) -> Value {
    x.map(Value::Bool).unwrap_or(Value::Null)
}

fn cmp(a: &Value, c: &Value) -> Option<Ordering> {
    match (a, c) {
        (Value::Int(x), Value::Int(y)) => Some(x.cmp(y)),
        (Value::Str(x), Value::Str(y)) => Some(x.as_bytes().cmp(y.as_bytes())),
        (Value::Bool(x), Value::Bool(y)) => Some(x.cmp(y)),
        _ => None,
    }
}

fn cmp_op(a: &Value, op: Op, c: &Value) -> Option<bool> {
    let o = cmp(a, c)?;
    Some(match op {
        Op::Eq => o == Ordering::Equal,
        Op::Ne => o != Ordering::Equal,
        Op::Lt => o == Ordering::Less,
        Op::Le => o != Ordering::Greater,
        Op::Gt => o == Ordering::Greater,
        Op::Ge => o != Ordering::Less,
    })
}

fn and3(a: Option<bool>, c: Option<bool>) -> Option<bool> {
    match (a, c) {
        (Some(false), _) | (_, Some(false)) => Some(false),
        (Some(true), Some(true)) => Some(true),
        _ => None,
    }
}

fn or3(a: Option<bool>, c: Option<bool>) -> Option<bool> {
    match (a, c) {
        (Some(true), _) | (_, Some(true)) => Some(true),
        (Some(false), Some(false)) => Some(false),
        _ => None,
    }
}

fn eval(e: &Ex, row: &[Value]) -> Value {
    let ev = |x: &Ex| eval(x, row);
    match e {
        Ex::Col(i) => row[*i].clone(),
        Ex::Lit(v, _) => v.clone(),
        Ex::DateStr(d) => Value::Int(*d),
        Ex::Cmp(a, op, c) => from_tv(cmp_op(&ev(a), *op, &ev(c))),
        Ex::And(a, c) => from_tv(and3(tv(&ev(a)), tv(&ev(c)))),
        Ex::Or(a, c) => from_tv(or3(tv(&ev(a)), tv(&ev(c)))),
        Ex::Not(a) => from_tv(tv(&ev(a)).map(|x| !x)),
        Ex::IsNull(a, neg) => Value::Bool(ev(a).is_null() != *neg),
        Ex::InList(a, l, neg) => {
            let v = ev(a);
            let mut acc = Some(false);
            for x in l {
                acc = or3(acc, cmp_op(&v, Op::Eq, &ev(x)));
            }
            from_tv(if *neg { acc.map(|x| !x) } else { acc })
        }
        Ex::Between(a, lo, hi, neg) => {
            let v = ev(a);
            let r = and3(cmp_op(&v, Op::Ge, &ev(lo)), cmp_op(&v, Op::Le, &ev(hi)));
            from_tv(if *neg { r.map(|x| !x) } else { r })
        }
        Ex::Like(a, p, neg) => match ev(a) {
            Value::Str(s) => Value::Bool(like_match(&s, p, false) != *neg),
            _ => Value::Null,
        },
        Ex::Upper(a) => match ev(a) {
            Value::Str(s) => Value::Str(s.to_uppercase()),
            _ => Value::Null,
        },
        Ex::Length(a) => match ev(a) {
            Value::Str(s) => Value::Int(s.chars().count() as i64),
            _ => Value::Null,
        },
        Ex::Concat(a, t) => match ev(a) {
            // concat() treats NULL as the empty string
            Value::Str(s) => Value::Str(format!("{s}{t}")),
            _ => Value::Str(t.clone()),
        },
        Ex::Substr(a, start, len) => match ev(a) {
            Value::Str(s) => Value::Str(s.chars().skip((*start - 1).max(0) as usize).take(*len as usize).collect()),
            _ => Value::Null,
        },
        Ex::NullIf(a, c) => {
            let v = ev(a);
            if cmp_op(&v, Op::Eq, &ev(c)) == Some(true) { Value::Null } else { v }
        }
        Ex::Coalesce(a, c) => {
            let v = ev(a);
            if v.is_null() { ev(c) } else { v }
        }
        Ex::Abs(a) => match ev(a) {
            Value::Int(i) => Value::Int(i.abs()),
            _ => Value::Null,
        },
        Ex::Add(a, k) => match ev(a) {
            Value::Int(i) => Value::Int(i + k),
            _ => Value::Null,
        },
        Ex::Mod(a, k) => match ev(a) {
            Value::Int(i) => Value::Int(i % k),
            _ => Value::Null,
        },
        Ex::CastStr(a, t) => match (ev(a), t) {
            (Value::Int(i), CT::Date) => Value::Str(date_str(i)),
            (Value::Int(i), _) => Value::Str(i.to_string()),
            (Value::Str(s), _) => Value::Str(s),
            _ => Value::Null,
        },
        Ex::Year(a) => match ev(a) {
            Value::Int(d) => Value::Int(date_str(d)[..4].parse().unwrap_or(0)),
            _ => Value::Null,
        },
        Ex::AddDays(a, k) => match ev(a) {
            Value::Int(d) => Value::Int(d + k),
            _ => Value::Null,
        },
    }
}

/// top-level conjuncts (AND, and NOT over OR via De Morgan)
fn conjuncts(e: &Ex, out: &mut Vec<Ex>) {
    match e {
        Ex::And(a, c) => {
            conjuncts(a, out);
            conjuncts(c, out);
        }
        Ex::Not(inner) => match inner.as_ref() {
            Ex::Or(a, c) => {
                conjuncts(&Ex::Not(a.clone()), out);
                conjuncts(&Ex::Not(c.clone()), out);
            }
            Ex::Not(x) => conjuncts(x, out),
            _ => out.push(e.clone()),
        },
        _ => out.push(e.clone()),
    }
}

fn has_nullif(e: &Ex) -> bool {
    match e {
        Ex::NullIf(..) => true,
        Ex::Col(_) | Ex::Lit(..) | Ex::DateStr(_) => false,
        Ex::Cmp(a, _, c) | Ex::And(a, c) | Ex::Or(a, c) | Ex::Coalesce(a, c) => has_nullif(a) || has_nullif(c),
        Ex::InList(a, l, _) => has_nullif(a) || l.iter().any(has_nullif),
        Ex::Between(a, lo, hi, _) => has_nullif(a) || has_nullif(lo) || has_nullif(hi),
        Ex::Not(a) | Ex::IsNull(a, _) | Ex::Like(a, _, _) | Ex::Upper(a) | Ex::Length(a) | Ex::Concat(a, _) | Ex::Substr(a, _, _) | Ex::Abs(a) | Ex::Add(a, _) | Ex::Mod(a, _) | Ex::CastStr(a, _) | Ex::Year(a) | Ex::AddDays(a, _) => has_nullif(a),
    }
}

/// Localisation of the classified deviation `partition-filter-null-treated-as-true`:
/// `filter_partitioned_file` evaluates the conjunction P of the pushed-down partition filters and
/// reads `value(0)` of the boolean result without its validity, so a file whose P is NULL is kept
/// or dropped depending on the value bit the kernels happened to compute. A conjunct counts as a
/// partition filter when it only uses partition columns, or — because the optimizer simplifies e.g.
/// `(A AND (A OR x)) OR N` to `A OR N` — when it is a function of the partition values on the
/// table's rows and contains a NULL-producing `nullif` over a partition column.
/// True iff every extra row has P IS NULL and passes all remaining conjuncts.
fn null_partition_filter_explains(e: &Ex, members: &[&DataFile], extra: &[i64]) -> bool {
    let mut cs = vec![];
    conjuncts(e, &mut cs);
    let partition_function: Vec<bool> = cs
        .iter()
        .map(|c| {
            let mut used = BTreeSet::new();
            cols_used(c, &mut used);
            if !used.is_empty() && used.iter().all(|i| *i >= 3) {
                return true;
            }
            has_nullif(c)
                && members.iter().all(|df| df.rows.iter().all(|r| eval(c, r) == eval(c, &df.rows[0])))
                && members.iter().all(|a| members.iter().all(|b| a.pvals != b.pvals || eval(c, &a.rows[0]) == eval(c, &b.rows[0])))
        })
        .collect();
    !extra.is_empty()
        && extra.iter().all(|id| {
            let Some(r) = members.iter().flat_map(|df| df.rows.iter()).find(|r| r[0] == Value::Int(*id)) else { return false };
            let mut p = Some(true);
            let mut rest_true = true;
            for (c, pf) in cs.iter().zip(partition_function.iter()) {
                let v = eval(c, r);
                if *pf {
                    p = and3(p, tv(&v));
                } else {
                    rest_true &= v == Value::Bool(true);
                }
            }
            p.is_none() && rest_true
        })
}

fn cols_used(e: &Ex, out: &mut BTreeSet<usize>) {
    match e {
        Ex::Col(i) => {
            out.insert(*i);
        }
        Ex::Lit(..) | Ex::DateStr(_) => {}
        Ex::Cmp(a, _, c) | Ex::And(a, c) | Ex::Or(a, c) | Ex::NullIf(a, c) | Ex::Coalesce(a, c) => {
            cols_used(a, out);
            cols_used(c, out);
        }
        Ex::InList(a, l, _) => {
            cols_used(a, out);
            l.iter().for_each(|x| cols_used(x, out));
        }
        Ex::Between(a, lo, hi, _) => {
            cols_used(a, out);
            cols_used(lo, out);
            cols_used(hi, out);
        }
        Ex::Not(a) | Ex::IsNull(a, _) | Ex::Like(a, _, _) | Ex::Upper(a) | Ex::Length(a) | Ex::Concat(a, _) | Ex::Substr(a, _, _) | Ex::Abs(a) | Ex::Add(a, _) | Ex::Mod(a, _) | Ex::CastStr(a, _) | Ex::Year(a) | Ex::AddDays(a, _) => cols_used(a, out),
    }
}

// ------------------------------------------------------------------------------------------
// layouts

#[derive(Clone, Copy, Debug, PartialEq)]
enum Spelling {
    /// what DataFusion's own writer produces: the value string, percent-encoded by object_store's PathPart
    Canonical,
    /// Hive/Spark `escapePathName`: additionally escapes  " # % ' * / : = ? \ { [ ] ^
    HiveEscaped,
    /// integers zero-padded to 3 digits (`month=007`)
    ZeroPadded,
}

#[derive(Clone, Debug)]
struct DataFile {
    /// path below the table root as stored on disk / in the object store (already escaped)
    rel: String,
    pvals: Vec<Value>,
    rows: Vec<Row>,
    nested: bool,
    /// the file name carries the table's extension (others are members only when no extension filter applies)
    ext_ok: bool,
    /// the directory names are spelled the way DataFusion's own writer spells them
    canonical: bool,
}

#[derive(Clone, Debug)]
struct Layout {
    idx: u64,
    pcols: Vec<(String, CT)>,
    csv: bool,
    spelling: Spelling,
    files: Vec<DataFile>,
    noise: Vec<String>,
    empty_dirs: Vec<String>,
    via_api: bool,
}

const STR_DOMAIN: &[&str] = &["a", "b c", "x/y", "50%", "q=r", "", "é€", "A#1?", "__HIVE_DEFAULT_PARTITION__", "ab", "it's", "1:2", "a+b", "\"q\"", "%41"];
const INT_DOMAIN: &[i64] = &[-3, 0, 7, 10, 2024, 70, 1];
// 2024-01-05, 2023-12-31, 1999-02-28, 1970-01-01, 2024-02-29
const DATE_DOMAIN: &[i64] = &[19727, 19722, 10650, 0, 19782];

fn value_string(v: &Value, ty: CT) -> String {
    match (v, ty) {
        (Value::Int(d), CT::Date) => date_str(*d),
        (Value::Int(i), _) => i.to_string(),
        (Value::Str(s), _) => s.clone(),
        _ => String::new(),
    }
}

fn spell_segment(name: &str, v: &Value, ty: CT, sp: Spelling) -> String {
    let raw = match (sp, v, ty) {
        (Spelling::ZeroPadded, Value::Int(i), CT::I32 | CT::I64) if *i >= 0 => format!("{i:03}"),
        _ => value_string(v, ty),
    };
    let mut out = format!("{name}=");
    for ch in raw.chars() {
        if sp == Spelling::HiveEscaped && "\"#%'*/:=?\\{[]^".contains(ch) {
            out.push_str(&format!("%{:02X}", ch as u32));
        } else {
            out.push_str(object_store::path::PathPart::from(ch.to_string()).as_ref());
        }
    }
    out
}

fn gen_layout(idx: u64, rng: &mut Rng) -> Layout {
    let npc = 1 + (idx % 3) as usize;
    let via_api = idx % 4 == 3;
    let spelling = match idx % 10 {
        7 => Spelling::HiveEscaped,
        9 => Spelling::ZeroPadded,
        _ => Spelling::Canonical,
    };
    let mut pcols = vec![];
    for i in 0..npc {
        let ty = match (spelling, i) {
            (Spelling::HiveEscaped, 0) => CT::Str,
            (Spelling::ZeroPadded, 0) => CT::I32,
            _ => *rng.pick(&[CT::Str, CT::Str, CT::I32, CT::I64, CT::Date]),
        };
        pcols.push((format!("p{i}"), ty));
    }
    // per-column value domain of 2..4 values
    let domains: Vec<Vec<Value>> = pcols
        .iter()
        .map(|(_, ty)| {
            let n = 2 + rng.usize(3);
            let mut d: Vec<Value> = vec![];
            while d.len() < n {
                let v = match ty {
                    CT::Str => Value::Str(rng.pick(STR_DOMAIN).to_string()),
                    CT::Date => Value::Int(*rng.pick(DATE_DOMAIN)),
                    _ => Value::Int(*rng.pick(INT_DOMAIN)),
                };
                if !d.contains(&v) {
                    d.push(v);
                }
            }
            d
        })
        .collect();
    let csv = rng.chance(1, 3);
    let ext = if csv { "csv" } else { "parquet" };
    // leaf directories: a random subset of the cross product
    let mut combos: Vec<Vec<Value>> = vec![vec![]];
    for d in &domains {
        combos = combos.into_iter().flat_map(|c| d.iter().map(move |v| [c.clone(), vec![v.clone()]].concat())).collect();
    }
    rng.shuffle(&mut combos);
    let keep = (2 + rng.usize(7)).min(combos.len());
    combos.truncate(keep);
    let mut files = vec![];
    let mut noise = vec![];
    let mut empty_dirs = vec![];
    let mut id = 0i64;
    let mut mk_rows = |rng: &mut Rng, pv: &[Value]| -> Vec<Row> {
        let n = 1 + rng.usize(4);
        (0..n)
            .map(|_| {
                id += 1;
                let x = if rng.chance(1, 8) { Value::Null } else { Value::Int(*rng.pick(INT_DOMAIN)) };
                let s = if rng.chance(1, 8) { Value::Null } else { Value::Str(rng.pick(&["a", "b c", "zz", "q=r"]).to_string()) };
                [vec![Value::Int(id), x, s], pv.to_vec()].concat()
            })
            .collect()
    };
    for pv in &combos {
        let dir = pv.iter().zip(pcols.iter()).map(|(v, (n, t))| spell_segment(n, v, *t, spelling)).collect::<Vec<_>>().join("/");
        let canonical = dir == pv.iter().zip(pcols.iter()).map(|(v, (n, t))| spell_segment(n, v, *t, Spelling::Canonical)).collect::<Vec<_>>().join("/");
        let nf = 1 + rng.usize(2);
        for k in 0..nf {
            let name = format!("f{k}.{ext}");
            files.push(DataFile { rel: format!("{dir}/{name}"), pvals: pv.clone(), rows: mk_rows(rng, pv), nested: false, ext_ok: true, canonical });
        }
        if rng.chance(1, 4) {
            let name = format!("f5.{ext}");
            files.push(DataFile { rel: format!("{dir}/{}/{name}", rng.pick(&["extra", "sub", "tmp1"])), pvals: pv.clone(), rows: mk_rows(rng, pv), nested: true, ext_ok: true, canonical });
        }
        // files with another extension: `CREATE EXTERNAL TABLE` over a directory applies NO extension
        // filter (ListingTableFactory sets file_extension = "" for collections), so there they are
        // table members and must be readable (csv layouts only); with ListingOptions::with_file_extension
        // and for glob locations they are excluded
        if rng.chance(1, 3) && (csv || via_api) {
            let name = *rng.pick(&["notes.txt", "f0.parquet.bak", "f0.csv.tmp", "_SUCCESS", "part.json", "f0.parquetx"]);
            let mut rows = mk_rows(rng, pv);
            rows.truncate(1);
            files.push(DataFile { rel: format!("{dir}/{name}"), pvals: pv.clone(), rows, nested: false, ext_ok: false, canonical });
        }
        if rng.chance(1, 5) {
            empty_dirs.push(format!("{dir}/emptysub"));
        }
    }
    // a file in the table root is outside every partition (skipped by the listing; CREATE EXTERNAL
    // TABLE rejects such a tree as "mixed partition values", so only the API registration gets one)
    if rng.chance(1, 2) && via_api {
        noise.push(rng.pick(&["README.md", "_SUCCESS", "schema.json"]).to_string());
    }
    // a partition directory without any file, and one below a value that is not otherwise used
    if rng.chance(1, 2) {
        let (n, t) = &pcols[0];
        let v = match t {
            CT::Str => Value::Str("unused".into()),
            CT::Date => Value::Int(12345),
            _ => Value::Int(999),
        };
        empty_dirs.push(spell_segment(n, &v, *t, spelling));
    }
    Layout { idx, pcols, csv, spelling, files, noise, empty_dirs, via_api }
}

fn file_schema() -> SchemaRef {
    Arc::new(Schema::new(vec![Field::new("id", DataType::Int64, true), Field::new("x", DataType::Int32, true), Field::new("s", DataType::Utf8, true)]))
}

fn write_layout(l: &Layout, root: &std::path::Path) -> std::io::Result<()> {
    let cols: Vec<(String, CT)> = vec![("id".into(), CT::I64), ("x".into(), CT::I32), ("s".into(), CT::Str)];
    let schema = schema_of(&cols, &[]);
    for f in &l.files {
        let p = root.join(&f.rel);
        std::fs::create_dir_all(p.parent().unwrap())?;
        if l.csv || !f.ext_ok {
            let mut t = String::from("id,x,s\n");
            for r in &f.rows {
                let x = if let Value::Int(i) = &r[1] { i.to_string() } else { String::new() };
                let s = if let Value::Str(s) = &r[2] { s.clone() } else { String::new() };
                t.push_str(&format!("{},{x},{s}\n", if let Value::Int(i) = &r[0] { *i } else { 0 }));
            }
            std::fs::write(&p, t)?;
        } else {
            let rows: Vec<Row> = f.rows.iter().map(|r| r[..3].to_vec()).collect();
            let refs: Vec<&Row> = rows.iter().collect();
            let batch = batch_of(&schema, &cols, &refs);
            let file = std::fs::File::create(&p)?;
            let mut w = parquet::arrow::ArrowWriter::try_new(file, schema.clone(), None).map_err(std::io::Error::other)?;
            w.write(&batch).map_err(std::io::Error::other)?;
            w.close().map_err(std::io::Error::other)?;
        }
    }
    for n in &l.noise {
        let p = root.join(n);
        std::fs::create_dir_all(p.parent().unwrap())?;
        std::fs::write(&p, b"id,x,s\n999999,1,noise\n")?;
    }
    for d in &l.empty_dirs {
        std::fs::create_dir_all(root.join(d))?;
    }
    Ok(())
}

// ------------------------------------------------------------------------------------------
// filters

fn lit_of(v: &Value, ty: CT) -> Ex {
    Ex::Lit(v.clone(), ty)
}

fn gen_filters(l: &Layout, rng: &mut Rng, n_random: usize) -> Vec<Ex> {
    // row = [id, x, s, p0..]
    let pc = |i: usize| Ex::Col(3 + i);
    let npc = l.pcols.len();
    let dom = |i: usize| -> Vec<Value> {
        let mut d: Vec<Value> = vec![];
        for f in &l.files {
            if !d.contains(&f.pvals[i]) {
                d.push(f.pvals[i].clone());
            }
        }
        d
    };
    let pick_val = |rng: &mut Rng, i: usize| -> Value {
        let d = dom(i);
        if rng.chance(1, 8) {
            match l.pcols[i].1 {
                CT::Str => Value::Str(rng.pick(STR_DOMAIN).to_string()),
                CT::Date => Value::Int(*rng.pick(DATE_DOMAIN)),
                _ => Value::Int(*rng.pick(INT_DOMAIN)),
            }
        } else {
            rng.pick_cloned(&d)
        }
    };
    let eqp = |rng: &mut Rng, i: usize| Ex::Cmp(b(pc(i)), Op::Eq, b(lit_of(&pick_val(rng, i), l.pcols[i].1)));
    let func_atom = |rng: &mut Rng, i: usize| -> Ex {
        let ty = l.pcols[i].1;
        let v = pick_val(rng, i);
        match ty {
            CT::Str => {
                let s = if let Value::Str(s) = &v { s.clone() } else { String::new() };
                match rng.below(8) {
                    0 => Ex::Cmp(b(Ex::Upper(b(pc(i)))), Op::Eq, b(Ex::Lit(Value::Str(s.to_uppercase()), CT::Str))),
                    1 => Ex::Cmp(b(Ex::Length(b(pc(i)))), *rng.pick(&[Op::Gt, Op::Eq, Op::Le]), b(Ex::Lit(Value::Int(s.chars().count() as i64), CT::I64))),
                    2 => Ex::Like(b(pc(i)), format!("{}%", s.chars().take(1).filter(|c| *c != '%' && *c != '_' && *c != '\\').collect::<String>()), rng.chance(1, 4)),
                    3 => Ex::Cmp(b(Ex::Concat(b(pc(i)), "x".into())), Op::Eq, b(Ex::Lit(Value::Str(format!("{s}x")), CT::Str))),
                    4 => Ex::Cmp(b(Ex::Substr(b(pc(i)), 1, 1)), Op::Eq, b(Ex::Lit(Value::Str(s.chars().take(1).collect()), CT::Str))),
                    5 => Ex::Cmp(b(Ex::NullIf(b(pc(i)), b(lit_of(&v, ty)))), Op::Ne, b(Ex::Lit(Value::Str("zz".into()), CT::Str))),
                    6 => Ex::Not(b(Ex::Cmp(b(Ex::NullIf(b(pc(i)), b(lit_of(&v, ty)))), Op::Eq, b(Ex::Lit(Value::Str("a".into()), CT::Str))))),
                    _ => Ex::Cmp(b(Ex::Coalesce(b(Ex::NullIf(b(pc(i)), b(lit_of(&v, ty)))), b(Ex::Lit(Value::Str("zz".into()), CT::Str)))), Op::Eq, b(Ex::Lit(Value::Str("zz".into()), CT::Str))),
                }
            }
            CT::Date => {
                let d = if let Value::Int(d) = &v { *d } else { 0 };
                match rng.below(5) {
                    0 => Ex::Cmp(b(Ex::Year(b(pc(i)))), Op::Eq, b(Ex::Lit(Value::Int(date_str(d)[..4].parse().unwrap_or(0)), CT::I64))),
                    1 => Ex::Cmp(b(Ex::AddDays(b(pc(i)), 1)), Op::Eq, b(Ex::Lit(Value::Int(d + 1), CT::Date))),
                    2 => Ex::Cmp(b(Ex::CastStr(b(pc(i)), CT::Date)), Op::Eq, b(Ex::Lit(Value::Str(date_str(d)), CT::Str))),
                    3 => Ex::Cmp(b(Ex::NullIf(b(pc(i)), b(lit_of(&v, ty)))), Op::Ge, b(Ex::Lit(Value::Int(0), CT::Date))),
                    _ => Ex::Cmp(b(pc(i)), Op::Eq, b(Ex::DateStr(d))),
                }
            }
            _ => {
                let k = if let Value::Int(k) = &v { *k } else { 0 };
                match rng.below(6) {
                    0 => Ex::Cmp(b(Ex::Add(b(pc(i)), 1)), Op::Eq, b(Ex::Lit(Value::Int(k + 1), CT::I64))),
                    1 => Ex::Cmp(b(Ex::Mod(b(pc(i)), 2)), Op::Eq, b(Ex::Lit(Value::Int(0), CT::I64))),
                    2 => Ex::Cmp(b(Ex::Abs(b(pc(i)))), Op::Eq, b(Ex::Lit(Value::Int(k.abs()), CT::I64))),
                    3 => Ex::Cmp(b(Ex::NullIf(b(pc(i)), b(lit_of(&v, ty)))), Op::Gt, b(Ex::Lit(Value::Int(-100), CT::I64))),
                    4 => Ex::Cmp(b(Ex::CastStr(b(pc(i)), ty)), Op::Eq, b(Ex::Lit(Value::Str(k.to_string()), CT::Str))),
                    _ => Ex::Not(b(Ex::Cmp(b(Ex::NullIf(b(pc(i)), b(lit_of(&v, ty)))), Op::Lt, b(Ex::Lit(Value::Int(5), CT::I64))))),
                }
            }
        }
    };
    let data_atom = |rng: &mut Rng| -> Ex {
        match rng.below(4) {
            0 => Ex::Cmp(b(Ex::Col(1)), *rng.pick(&[Op::Gt, Op::Eq, Op::Le]), b(Ex::Lit(Value::Int(*rng.pick(INT_DOMAIN)), CT::I64))),
            1 => Ex::Cmp(b(Ex::Col(2)), Op::Eq, b(Ex::Lit(Value::Str(rng.pick(&["a", "b c", "zz", "q=r"]).to_string()), CT::Str))),
            2 => Ex::IsNull(b(Ex::Col(1)), rng.bool()),
            _ => Ex::Cmp(b(Ex::Col(0)), Op::Le, b(Ex::Lit(Value::Int(rng.range(1, 30)), CT::I64))),
        }
    };
    let last = npc - 1;
    let mut v: Vec<Ex> = vec![];
    // 1 equality on the leading column, 2 literal on the left, 3 full equality conjunction
    v.push(eqp(rng, 0));
    v.push(Ex::Cmp(b(lit_of(&pick_val(rng, 0), l.pcols[0].1)), Op::Eq, b(pc(0))));
    v.push((0..npc).map(|i| eqp(rng, i)).reduce(|a, c| Ex::And(b(a), b(c))).unwrap());
    // 4 only the last column, 5 leading equality + range on the last
    v.push(eqp(rng, last));
    v.push(Ex::And(b(eqp(rng, 0)), b(Ex::Cmp(b(pc(last)), *rng.pick(&[Op::Gt, Op::Le, Op::Ne]), b(lit_of(&pick_val(rng, last), l.pcols[last].1))))));
    // 6 range / between on the leading column
    v.push(Ex::Cmp(b(pc(0)), *rng.pick(&[Op::Ge, Op::Lt, Op::Gt, Op::Le]), b(lit_of(&pick_val(rng, 0), l.pcols[0].1))));
    {
        let (a, c) = (pick_val(rng, 0), pick_val(rng, 0));
        let (lo, hi) = if cmp(&a, &c) == Some(Ordering::Greater) { (c, a) } else { (a, c) };
        v.push(Ex::Between(b(pc(0)), b(lit_of(&lo, l.pcols[0].1)), b(lit_of(&hi, l.pcols[0].1)), rng.chance(1, 4)));
    }
    // 7 IN / NOT IN, 8 OR on one column, 9 OR across columns, 10 partition OR data
    v.push(Ex::InList(b(pc(0)), (0..2).map(|_| lit_of(&pick_val(rng, 0), l.pcols[0].1)).collect(), rng.chance(1, 3)));
    v.push(Ex::Or(b(eqp(rng, 0)), b(eqp(rng, 0))));
    v.push(Ex::Or(b(eqp(rng, 0)), b(eqp(rng, last))));
    v.push(Ex::Or(b(eqp(rng, 0)), b(data_atom(rng))));
    // 11 partition AND data, 12 data only
    v.push(Ex::And(b(eqp(rng, 0)), b(data_atom(rng))));
    v.push(data_atom(rng));
    // 13 functions of partition columns (two), 14 contradiction / repetition on one column
    v.push(func_atom(rng, 0));
    v.push(func_atom(rng, last));
    v.push(Ex::And(b(eqp(rng, 0)), b(eqp(rng, 0))));
    // 15 negations
    v.push(Ex::Not(b(eqp(rng, 0))));
    v.push(Ex::Cmp(b(pc(0)), Op::Ne, b(lit_of(&pick_val(rng, 0), l.pcols[0].1))));
    // 16 leading equality AND (OR on the next column)
    v.push(Ex::And(b(eqp(rng, 0)), b(Ex::Or(b(eqp(rng, last)), b(eqp(rng, last))))));
    // 17 IS [NOT] NULL on a partition column
    v.push(Ex::IsNull(b(pc(0)), rng.bool()));
    // 18 partition column against a data column / another partition column of the same type
    if let Some(i) = (0..npc).find(|&i| matches!(l.pcols[i].1, CT::I32 | CT::I64)) {
        v.push(Ex::Cmp(b(pc(i)), *rng.pick(&[Op::Eq, Op::Lt, Op::Ge]), b(Ex::Col(1))));
    }
    if npc >= 2 && l.pcols[0].1 == l.pcols[1].1 {
        v.push(Ex::Cmp(b(pc(0)), *rng.pick(&[Op::Eq, Op::Lt, Op::Ne]), b(pc(1))));
    }
    // random trees
    for _ in 0..n_random {
        fn tree(rng: &mut Rng, depth: u32, atom: &mut dyn FnMut(&mut Rng) -> Ex) -> Ex {
            if depth == 0 || rng.chance(1, 3) {
                return atom(rng);
            }
            match rng.below(5) {
                0 | 1 => Ex::And(b(tree(rng, depth - 1, atom)), b(tree(rng, depth - 1, atom))),
                2 | 3 => Ex::Or(b(tree(rng, depth - 1, atom)), b(tree(rng, depth - 1, atom))),
                _ => Ex::Not(b(tree(rng, depth - 1, atom))),
            }
        }
        let mut atom = |rng: &mut Rng| -> Ex {
            let i = rng.usize(npc);
            match rng.below(6) {
                0 | 1 | 2 => eqp(rng, i),
                3 => func_atom(rng, i),
                4 => Ex::Cmp(b(pc(i)), *rng.pick(&[Op::Ge, Op::Lt, Op::Ne]), b(lit_of(&pick_val(rng, i), l.pcols[i].1))),
                _ => data_atom(rng),
            }
        };
        v.push(tree(rng, 3, &mut atom));
    }
    v
}

// ------------------------------------------------------------------------------------------
// tiny glob matcher for the patterns used here (`*` and `?` also match `/`, like glob::Pattern::matches)

fn glob_match(p: &[char], s: &[char]) -> bool {
    match p.first() {
        None => s.is_empty(),
        Some('*') => (0..=s.len()).any(|k| glob_match(&p[1..], &s[k..])),
        Some('?') => !s.is_empty() && glob_match(&p[1..], &s[1..]),
        Some('[') => {
            let Some(close) = p.iter().position(|c| *c == ']') else { return false };
            !s.is_empty() && p[1..close].contains(&s[0]) && glob_match(&p[close + 1..], &s[1..])
        }
        Some(c) => !s.is_empty() && s[0] == *c && glob_match(&p[1..], &s[1..]),
    }
}

/// documented membership of a data file in the table
fn in_table(f: &DataFile, ignore_subdirectory: bool, glob: Option<&str>) -> bool {
    let plain: Vec<&str> = f.rel.split('/').filter(|s| !s.contains('=')).collect();
    match glob {
        None => !(ignore_subdirectory && plain.len() > 1),
        Some(g) => {
            let g: Vec<char> = g.chars().collect();
            if ignore_subdirectory {
                plain.first().is_some_and(|s| glob_match(&g, &s.chars().collect::<Vec<_>>()))
            } else {
                glob_match(&g, &plain.join("/").chars().collect::<Vec<_>>())
            }
        }
    }
}

// ------------------------------------------------------------------------------------------

static SEED: std::sync::atomic::AtomicU64 = std::sync::atomic::AtomicU64::new(0);

struct Cfg {
    ignore_subdirectory: bool,
    cache: bool,
    glob: Option<String>,
}

fn make_ctx(c: &Cfg, tp: usize) -> SessionContext {
    let mut sc = SessionConfig::new().with_target_partitions(tp).with_information_schema(false);
    sc.options_mut().execution.listing_table_ignore_subdirectory = c.ignore_subdirectory;
    let rt = RuntimeEnvBuilder::new().with_object_list_cache_limit(if c.cache { 1 << 20 } else { 0 }).build_arc().expect("runtime env");
    SessionContext::new_with_config_rt(sc, rt)
}

fn all_cols(l: &Layout) -> Vec<(String, CT)> {
    [vec![("id".to_string(), CT::I64), ("x".to_string(), CT::I32), ("s".to_string(), CT::Str)], l.pcols.clone()].concat()
}

async fn register(ctx: &SessionContext, l: &Layout, root: &std::path::Path, c: &Cfg) -> Result<(), String> {
    let loc = match &c.glob {
        Some(g) => format!("{}/{g}", root.display()),
        None => format!("{}/", root.display()),
    };
    let e = |e: datafusion::error::DataFusionError| e.to_string();
    if l.via_api {
        let url = ListingTableUrl::parse(&loc).map_err(e)?;
        let pcs: Vec<(String, DataType)> = l
            .pcols
            .iter()
            .map(|(n, t)| (n.clone(), if *t == CT::Str { DataType::Dictionary(Box::new(DataType::UInt16), Box::new(DataType::Utf8)) } else { t.arrow() }))
            .collect();
        let opts = if l.csv {
            ListingOptions::new(Arc::new(CsvFormat::default().with_has_header(true))).with_file_extension(".csv")
        } else {
            ListingOptions::new(Arc::new(ParquetFormat::default())).with_file_extension(".parquet")
        }
        .with_table_partition_cols(pcs);
        let cfg = ListingTableConfig::new(url).with_listing_options(opts).with_schema(file_schema());
        let t = ListingTable::try_new(cfg).map_err(e)?;
        ctx.register_table("t", Arc::new(t)).map_err(e)?;
    } else {
        let cols = all_cols(l).iter().map(|(n, t)| format!("{n} {}", t.sql())).collect::<Vec<_>>().join(", ");
        let sql = format!(
            "CREATE EXTERNAL TABLE t ({cols}) STORED AS {} LOCATION {} PARTITIONED BY ({}){}",
            if l.csv { "CSV" } else { "PARQUET" },
            sql_str(&loc),
            l.pcols.iter().map(|(n, _)| n.clone()).collect::<Vec<_>>().join(", "),
            if l.csv { " OPTIONS ('format.has_header' 'true')" } else { "" }
        );
        ctx.sql(&sql).await.map_err(e)?.collect().await.map_err(e)?;
    }
    Ok(())
}

struct QOut {
    ids: Vec<i64>,
    scanned: BTreeSet<String>,
}

async fn query(ctx: &SessionContext, sql: &str, root_prefix: &str) -> Result<QOut, datafusion::error::DataFusionError> {
    let df = ctx.sql(sql).await?;
    let plan = df.create_physical_plan().await?;
    let mut scanned = BTreeSet::new();
    for scan in plan_file_groups(&plan) {
        for f in scan.iter().flatten() {
            scanned.insert(f.path.strip_prefix(root_prefix).unwrap_or(&f.path).trim_start_matches('/').to_string());
        }
    }
    let batches = datafusion::physical_plan::collect(plan, ctx.task_ctx()).await?;
    let mut ids: Vec<i64> = batches_to_rows(&batches).iter().filter_map(|r| if let Value::Int(i) = r[0] { Some(i) } else { None }).collect();
    ids.sort();
    Ok(QOut { ids, scanned })
}

fn spelling_tag(l: &Layout) -> &'static str {
    match l.spelling {
        Spelling::Canonical => "",
        Spelling::HiveEscaped => "/hive-escaped",
        Spelling::ZeroPadded => "/zero-padded-int",
    }
}

/// forward at most 3 witnesses per signature so that one root cause cannot crowd out the others
fn violation(rep: &Report, sig: &str, w: Json) {
    rep.count(&format!("violations[{sig}]"), 1);
    if rep.get_count(&format!("violations[{sig}]")) <= 3 {
        rep.violation(sig, w);
    }
}

fn layout_json(l: &Layout) -> Json {
    json!({
        "repro": format!("c27 C27 --tier quick --seed {} --opt layout={}", SEED.load(std::sync::atomic::Ordering::Relaxed), l.idx),
        "partition_cols": l.pcols.iter().map(|(n, t)| format!("{n} {}", t.sql())).collect::<Vec<_>>(), "format": if l.csv { "csv (header)" } else { "parquet" }, "spelling": format!("{:?}", l.spelling),
        "registered_via": if l.via_api { "ListingTableConfig (string partition columns dictionary typed)" } else { "CREATE EXTERNAL TABLE" },
        "file_columns": "id BIGINT, x INT, s VARCHAR",
        "files": l.files.iter().map(|f| json!({"path": f.rel, "partition_values": f.pvals.iter().map(|v| v.to_json()).collect::<Vec<_>>(), "rows": f.rows.iter().map(|r| r[..3].iter().map(|v| v.to_json()).collect::<Vec<_>>()).collect::<Vec<_>>()})).collect::<Vec<_>>(),
        "other_files": l.noise, "empty_dirs": l.empty_dirs,
    })
}

fn run_layout(rep: &Report, l: &Layout, seed: u64, n_random: usize, selftest: bool) {
    let dir = tempfile::tempdir().expect("tempdir");
    let root = dir.path().join("tbl");
    if let Err(e) = write_layout(l, &root) {
        rep.skip(&format!("harness-write-error: {}", e.to_string().chars().take(60).collect::<String>()));
        return;
    }
    let mut rng = Rng::derive(seed, &[27, 1, l.idx]);
    let filters = gen_filters(l, &mut rng, n_random);
    let cols = all_cols(l);
    let names = Names(&cols);
    let root_prefix = root.display().to_string().trim_start_matches('/').to_string();
    let ext = if l.csv { "csv" } else { "parquet" };
    let mut cfgs = vec![];
    for ign in [true, false] {
        for cache in [true, false] {
            cfgs.push(Cfg { ignore_subdirectory: ign, cache, glob: None });
        }
    }
    let globs = [format!("*0.{ext}"), format!("f?.{ext}"), format!("f[05].{ext}")];
    cfgs.push(Cfg { ignore_subdirectory: l.idx % 2 == 0, cache: true, glob: Some(globs[(l.idx % 3) as usize].clone()) });
    let fpl = fp_bytes(format!("{:?}", l).as_bytes());
    let rt = current_thread_rt();
    for (ci, c) in cfgs.iter().enumerate() {
        let no_extension_filter = !l.via_api && c.glob.is_none();
        let members: Vec<&DataFile> = l.files.iter().filter(|f| in_table(f, c.ignore_subdirectory, c.glob.as_deref()) && (f.ext_ok || no_extension_filter)).collect();
        let cfg_json = json!({"listing_table_ignore_subdirectory": c.ignore_subdirectory, "list_files_cache": c.cache, "glob": c.glob});
        let res = vcommon::par::guard(|| {
            rt.block_on(async {
                let ctx = make_ctx(c, 1 + (l.idx as usize + ci) % 4);
                if let Err(e) = register(&ctx, l, &root, c).await {
                    rep.skip(&format!("register-error{}: {}", if c.glob.is_some() { "/glob" } else { "" }, e.chars().take(70).collect::<String>()));
                    return;
                }
                // 0: the unfiltered scan covers exactly the member files
                let mut corrupted = !selftest;
                for (qi, f) in std::iter::once(None).chain(filters.iter().map(Some)).enumerate() {
                    let where_ = f.map(|f| format!(" WHERE {}", render(f, &names))).unwrap_or_default();
                    let sql = format!("SELECT id FROM t{where_}");
                    let fp = fp_mix(fpl, fp_mix(ci as u64, qi as u64));
                    let mut expect: Vec<i64> = vec![];
                    let mut matching_files = BTreeSet::new();
                    for df in &members {
                        for r in &df.rows {
                            if f.is_none_or(|f| eval(f, r) == Value::Bool(true)) {
                                if let Value::Int(i) = r[0] {
                                    expect.push(i);
                                }
                                matching_files.insert(df.rel.clone());
                            }
                        }
                    }
                    expect.sort();
                    let out = match query(&ctx, &sql, &root_prefix).await {
                        Ok(o) => o,
                        Err(e) => {
                            rep.case(fp, false);
                            let cls = dfv::engine::classify(&e);
                            rep.skip(&format!("query-error/{cls:?}: {}", e.to_string().chars().take(80).collect::<String>()));
                            continue;
                        }
                    };
                    let mut ids = out.ids.clone();
                    if !corrupted && !ids.is_empty() && f.is_some() {
                        ids.pop();
                        corrupted = true;
                    }
                    let pruned = out.scanned.len() < members.len();
                    rep.case(fp, f.is_some() && pruned && !expect.is_empty());
                    rep.count("queries", 1);
                    rep.count(if c.glob.is_some() { "queries_glob" } else if c.cache { "queries_cache_on" } else { "queries_cache_off" }, 1);
                    rep.count("files_member_total", members.len() as u64);
                    rep.count("files_scanned_total", out.scanned.len() as u64);
                    rep.count("files_matching_total", matching_files.len() as u64);
                    if pruned {
                        rep.count("queries_with_pruned_files", 1);
                    }
                    if out.scanned.is_empty() {
                        rep.count("queries_scanning_no_file", 1);
                    }
                    let w = |note: &str| {
                        json!({
                            "layout": layout_json(l), "config": cfg_json, "sql": sql, "observed_ids": ids, "expected_ids": expect,
                            "files_in_table": members.iter().map(|f| f.rel.clone()).collect::<Vec<_>>(), "files_scanned": out.scanned, "files_with_matching_rows": matching_files, "note": note,
                        })
                    };
                    if ids != expect {
                        let lost = expect.iter().any(|i| ids.binary_search(i).is_err());
                        let missing: Vec<&DataFile> = members.iter().copied().filter(|m| matching_files.contains(&m.rel) && !out.scanned.contains(&m.rel)).collect();
                        let extra: Vec<i64> = ids.iter().copied().filter(|i| expect.binary_search(i).is_err()).collect();
                        // does the modelled deviation (NULL partition conjunct keeps the file) reproduce the observation?
                        let null_model = !lost && f.is_some_and(|f| null_partition_filter_explains(f, &members, &extra));
                        let sig = if f.is_none() {
                            if c.glob.is_some() { "glob-location-covers-wrong-files".to_string() } else { "directory-location-covers-wrong-files".to_string() }
                        } else if lost && !missing.is_empty() && missing.iter().all(|m| !m.canonical) {
                            format!("prefix-listing-misses-alternate-spelling{}", spelling_tag(l))
                        } else if lost && !missing.is_empty() {
                            "matching-file-dropped".to_string()
                        } else if lost {
                            "matching-rows-lost".to_string()
                        } else if !extra.is_empty() && null_model {
                            "partition-filter-null-treated-as-true".to_string()
                        } else {
                            "non-matching-rows-returned".to_string()
                        };
                        violation(rep, &sig, w("query result != harness record filtered by the harness evaluator"));
                    } else if rep.want_sample() && pruned && !expect.is_empty() && l.pcols.len() >= 2 {
                        rep.sample(json!({"sql": sql, "partition_cols": l.pcols.iter().map(|(n, t)| format!("{n} {}", t.sql())).collect::<Vec<_>>(), "files_in_table": members.len(), "files_scanned": out.scanned.len(), "files_with_matching_rows": matching_files.len(), "rows": expect.len()}));
                    }
                }
                // direct API calls (once per layout, on the plain directory configurations)
                if c.glob.is_none() && c.cache {
                    direct_api(rep, l, &ctx, &root, c, &filters, &names, &members, fpl, selftest).await;
                }
            })
        });
        if let Err(p) = res {
            violation(rep, "panic", json!({"layout": layout_json(l), "config": cfg_json, "panic": p}));
        }
    }
}

fn typed_from_string(s: &str, ty: CT) -> Option<Value> {
    match ty {
        CT::Str => Some(Value::Str(s.to_string())),
        CT::Date => chrono::NaiveDate::parse_from_str(s, "%Y-%m-%d").ok().map(|d| Value::Int((d - chrono::NaiveDate::from_ymd_opt(1970, 1, 1).unwrap()).num_days())),
        _ => s.parse::<i64>().ok().map(Value::Int),
    }
}

#[allow(clippy::too_many_arguments)]
async fn direct_api(rep: &Report, l: &Layout, ctx: &SessionContext, root: &std::path::Path, c: &Cfg, filters: &[Ex], names: &Names<'_>, members: &[&DataFile], fpl: u64, selftest: bool) {
    let Ok(url) = ListingTableUrl::parse(format!("{}/", root.display())) else { return };
    let pcs: Vec<(String, DataType)> = l.pcols.iter().map(|(n, t)| (n.clone(), t.arrow())).collect();
    let pnames: Vec<&str> = l.pcols.iter().map(|(n, _)| n.as_str()).collect();
    // parse_partitions_for_path: the values the path was built from
    for f in &l.files {
        let p = object_store::path::Path::parse(format!("{}/{}", url.prefix(), f.rel));
        let Ok(p) = p else {
            rep.skip("harness-path-not-parseable");
            continue;
        };
        rep.count("parse_partitions_calls", 1);
        let got = parse_partitions_for_path(&url, &p, pnames.iter().copied());
        let mut typed: Option<Vec<Value>> = got.as_ref().map(|g| g.iter().zip(l.pcols.iter()).map(|(s, (_, t))| typed_from_string(s, *t).unwrap_or(Value::Null)).collect());
        if selftest && f.rel == l.files[0].rel {
            typed = typed.map(|mut t| {
                t[0] = Value::Null;
                t
            });
        }
        if typed.as_ref() != Some(&f.pvals) {
            violation(
                rep,
                &format!("parse-partitions-for-path-wrong-values{}", spelling_tag(l)),
                json!({"table_url": url.as_str(), "file_path": p.to_string(), "partition_cols": pnames, "observed": got.as_ref().map(|g| g.iter().map(|s| s.to_string()).collect::<Vec<_>>()), "expected": f.pvals.iter().zip(l.pcols.iter()).map(|(v, (_, t))| value_string(v, *t)).collect::<Vec<_>>(), "spelling": format!("{:?}", l.spelling)}),
            );
        }
    }
    let state = ctx.state();
    let Ok(store) = state.runtime_env().object_store(&url) else { return };
    let Ok(df_schema) = DFSchema::try_from(Schema::new(pcs.iter().map(|(n, t)| Field::new(n, t.clone(), true)).collect::<Vec<_>>())) else { return };
    let df_schema = Arc::new(df_schema);
    let ext = if l.csv { ".csv" } else { ".parquet" };
    for (qi, f) in filters.iter().enumerate() {
        let mut used = BTreeSet::new();
        cols_used(f, &mut used);
        if used.iter().any(|i| *i < 3) {
            continue;
        }
        let sql = render(f, names);
        let Ok(expr) = ctx.parse_sql_expr(&sql, &df_schema) else {
            rep.skip("direct-api-expr-parse-error");
            continue;
        };
        let simp = ExprSimplifier::new(SimplifyContext::builder().with_schema(df_schema.clone()).build());
        let Ok(expr) = simp.coerce(expr, &df_schema).and_then(|e| simp.simplify(e)) else {
            rep.skip("direct-api-expr-coerce-error");
            continue;
        };
        if !expr_applicable_for_cols(&pnames, &expr) {
            rep.count("direct_api_not_applicable", 1);
            continue;
        }
        let exprs = vec![expr];
        // the files whose partition values satisfy the filter (partition-only filter: per file)
        let sat: BTreeSet<String> = members.iter().filter(|df| df.ext_ok && eval(f, &df.rows[0]) == Value::Bool(true)).map(|df| df.rel.clone()).collect();
        let fp = fp_mix(fpl, fp_mix(0xD1, qi as u64));
        // evaluate_partition_prefix: every satisfying file lies below the prefix
        let prefix = evaluate_partition_prefix(&pcs, &exprs);
        rep.count("evaluate_partition_prefix_calls", 1);
        if let Some(pre) = &prefix {
            rep.count("evaluate_partition_prefix_some", 1);
            let pre_s = pre.to_string();
            let outside: Vec<&String> = sat.iter().filter(|rel| !(rel.starts_with(&pre_s) && rel[pre_s.len()..].starts_with('/'))).collect();
            if !outside.is_empty() {
                let alt = outside.iter().all(|rel| l.files.iter().any(|f| &&f.rel == rel && !f.canonical));
                violation(
                    rep,
                    &if alt { format!("prefix-listing-misses-alternate-spelling{}", spelling_tag(l)) } else { "partition-prefix-excludes-matching-file".to_string() },
                    json!({"partition_cols": pcs.iter().map(|(n, t)| format!("{n}:{t}")).collect::<Vec<_>>(), "filter": exprs[0].to_string(), "filter_sql": sql, "observed_prefix": pre_s, "matching_files_outside_prefix": outside, "layout": layout_json(l)}),
                );
            }
        }
        // pruned_partition_list: exactly the satisfying files
        match pruned_partition_list(&state, store.as_ref(), &url, &exprs, ext, &pcs).await {
            Err(e) => rep.skip(&format!("pruned-partition-list-error: {}", e.to_string().chars().take(70).collect::<String>())),
            Ok(stream) => match stream.try_collect::<Vec<_>>().await {
                Err(e) => rep.skip(&format!("pruned-partition-list-error: {}", e.to_string().chars().take(70).collect::<String>())),
                Ok(files) => {
                    let root_prefix = url.prefix().to_string();
                    let mut got: BTreeSet<String> = files.iter().map(|f| f.object_meta.location.to_string().strip_prefix(&root_prefix).unwrap_or("").trim_start_matches('/').to_string()).collect();
                    if selftest && qi == 0 {
                        got.pop_first();
                    }
                    rep.case(fp, got.len() < members.iter().filter(|m| m.ext_ok).count() && !sat.is_empty());
                    rep.count("pruned_partition_list_calls", 1);
                    let w = |note: &str| json!({"config": {"listing_table_ignore_subdirectory": c.ignore_subdirectory}, "filter": exprs[0].to_string(), "filter_sql": sql, "observed_files": got, "expected_files": sat, "layout": layout_json(l), "note": note});
                    let dropped: Vec<&String> = sat.iter().filter(|s| !got.contains(*s)).collect();
                    let kept: Vec<&String> = got.iter().filter(|g| !sat.contains(*g)).collect();
                    if !dropped.is_empty() {
                        let alt = dropped.iter().all(|rel| l.files.iter().any(|f| &&f.rel == rel && !f.canonical));
                        let sig = if alt { format!("prefix-listing-misses-alternate-spelling{}", spelling_tag(l)) } else { "pruned-partition-list-drops-matching-file".to_string() };
                        violation(rep, &sig, w("pruned_partition_list: a file whose partition values satisfy the filter is not returned"));
                    } else if !kept.is_empty() && kept.iter().all(|rel| l.files.iter().any(|df| &&df.rel == rel && eval(f, &df.rows[0]).is_null())) {
                        violation(rep, "partition-filter-null-treated-as-true", w("pruned_partition_list returns files for which the filter evaluates to NULL (filter_partitioned_file reads value(0) of the boolean result without looking at its validity); partition filters are pushed down as Exact, so no FilterExec removes the rows"));
                    } else if !kept.is_empty() {
                        violation(rep, "pruned-partition-list-keeps-nonmatching-file", w("partition filters are pushed down as Exact, so a returned file whose values do not satisfy the filter yields wrong rows"));
                    }
                    // partition values attached to the returned files
                    for pf in &files {
                        let rel = pf.object_meta.location.to_string().strip_prefix(&root_prefix).unwrap_or("").trim_start_matches('/').to_string();
                        if let Some(df) = l.files.iter().find(|f| f.rel == rel) {
                            let vals: Vec<Value> = pf.partition_values.iter().map(|sv| sv.to_array().map(|a| dfv::engine::cell(a.as_ref(), 0)).unwrap_or(Value::Null)).collect();
                            if vals != df.pvals {
                                violation(rep, &format!("partitioned-file-wrong-values{}", spelling_tag(l)), json!({"file": rel, "observed": pf.partition_values.iter().map(|v| v.to_string()).collect::<Vec<_>>(), "expected": df.pvals.iter().map(|v| v.to_json()).collect::<Vec<_>>()}));
                            }
                        }
                    }
                }
            },
        }
    }
}

fn run(args: &Args) -> i32 {
    let rep = Report::new("C27", "exploration", args);
    rep.set_rule(
        "case = (generated hive layout on disk, listing configuration [ignore_subdirectory x list-files cache, + one glob location], filter) as `SELECT id FROM t WHERE f`, plus direct pruned_partition_list / evaluate_partition_prefix / parse_partitions_for_path calls; \
         distinct = hash(layout, configuration, filter index); non-trivial = the physical plan scans fewer files than the table has and the expected result is non-empty",
    );
    rep.assume("table membership of a file follows the documented rules: extension match, every non `k=v` directory below the table root excluded iff listing_table_ignore_subdirectory, glob applied to the non `k=v` segments");
    rep.assume("the harness' ~150 line three-valued evaluator defines the meaning of the generated filters (comparisons, IN, BETWEEN, LIKE, upper/length/concat/substr/nullif/coalesce/abs/+/%/cast/date_part)");
    let selftest = args.opt_u64("selftest", 0) == 1;
    SEED.store(args.seed, std::sync::atomic::Ordering::Relaxed);
    let reduce = match args.stage.as_str() {
        "miri" => 100,
        "memcheck" | "tsan" => 10,
        _ => 1,
    };
    let n_sys = (args.bound("layouts_systematic", 120, 300) / reduce).max(2);
    let n_rand = args.bound("layouts_random", 300, 3000) / reduce;
    let n_random_filters = args.bound("random_filters", 4, 10) as usize;
    let spell_counts: std::sync::Mutex<BTreeMap<String, u64>> = Default::default();
    // `--opt layout=N` re-runs one generated layout (same seed)
    let only = args.opts.get("layout").and_then(|v| v.parse::<u64>().ok());
    vcommon::par::run(args.workers, (0..n_sys + n_rand).filter(|i| only.is_none_or(|o| o == *i)), |i| {
        let mut rng = if i < n_sys { Rng::derive(0xC27, &[0, i]) } else { Rng::derive(args.seed, &[27, 0, i]) };
        let l = gen_layout(i, &mut rng);
        *spell_counts.lock().unwrap().entry(format!("{:?}", l.spelling)).or_insert(0) += 1;
        rep.count(&format!("layouts[{} partition cols]", l.pcols.len()), 1);
        rep.count(if l.csv { "layouts_csv" } else { "layouts_parquet" }, 1);
        for (_, t) in &l.pcols {
            rep.seen("partition_col_types", t.sql());
        }
        for f in &l.files {
            for (v, (_, t)) in f.pvals.iter().zip(l.pcols.iter()) {
                if *t == CT::Str {
                    let s = value_string(v, *t);
                    for ch in s.chars().filter(|c| !c.is_ascii_alphanumeric()) {
                        rep.seen("special_chars_in_partition_values", &ch.to_string());
                    }
                    if s.is_empty() {
                        rep.seen("special_chars_in_partition_values", "(empty string)");
                    }
                }
            }
            if f.nested {
                rep.count("nested_extra_directory_files", 1);
            }
        }
        rep.count("non_matching_extension_files", (l.noise.len() + l.files.iter().filter(|f| !f.ext_ok).count()) as u64);
        rep.count("empty_directories", l.empty_dirs.len() as u64);
        run_layout(&rep, &l, args.seed, n_random_filters, selftest);
    });
    if only.is_some() {
        return if rep.finish() == 1 { 1 } else { 0 };
    }
    rep.extra("layout_spellings", json!(*spell_counts.lock().unwrap()));
    rep.extra("null_partitions", json!("`__HIVE_DEFAULT_PARTITION__` is not interpreted by this tree (partition values are never NULL, see try_into_partitioned_file); it is exercised as an ordinary string value, IS [NOT] NULL filters on partition columns are generated"));
    if reduce == 1 {
        rep.obligation("some-queries-pruned", rep.get_count("queries_with_pruned_files") > 0, "partition pruning must be observed in the physical plans");
        rep.obligation("prefix-optimisation-used", rep.get_count("evaluate_partition_prefix_some") > 0, "evaluate_partition_prefix must return a prefix for some filters");
        rep.obligation("glob-locations", rep.get_count("queries_glob") > 0, "glob table locations must be accepted");
    }
    rep.finish()
}

fn main() {
    let args = Args::parse();
    vcommon::par::quiet_panics();
    std::process::exit(run(&args));
}
