//! C50 — Queries accepted over unbounded inputs keep producing results (restated as bounded progress).
//!
//! Endless ordered ChaosTables (declared `Boundedness::Unbounded`, ordering declared) feed a query shape; the
//! harness pulls the root stream and records, at every delivered batch, how many batches each source partition has
//! served. With E(c) = the output rows determined by the source prefix c (computed by the harness from the
//! generator, per shape) and D_i = the rows delivered up to event i:
//!   soundness:  D_i ⊆ E(c_i)                   (every delivered row is correct for the prefix seen)
//!   progress:   E(c_i ⊖ (s+1)) ⊆ D_{i-1}       (a row determined by prefix n is delivered before the query has
//!                                               pulled more than n + s batches; s = per-shape slack)
//! plus: an accepted query that stalls (VTQ) or stays silent is a violation; shapes the sanity checker documents as
//! pipeline breaking must be rejected at planning time.

use arrow::array::{Array, Int64Array};
use arrow::datatypes::DataType;
use arrow::record_batch::RecordBatch;
use datafusion::common::tree_node::TreeNodeRecursion;
use datafusion::error::Result as DfResult;
use datafusion::execution::{SendableRecordBatchStream, TaskContext};
use datafusion::physical_expr::PhysicalExpr;
use datafusion::physical_plan::stream::RecordBatchStreamAdapter;
use datafusion::physical_plan::{DisplayAs, DisplayFormatType, ExecutionPlan, PlanProperties, ReplaceChildrenOptions};
use datafusion::prelude::{SessionConfig, SessionContext};
use dfv::sched::*;
use futures::StreamExt;
use std::collections::HashMap;
use std::sync::Arc;
use std::time::Duration;
use vcommon::{json, Args, Json, Report, Rng};

type R = Vec<Option<i64>>;
/// served batches per source, per partition
type Counts = Vec<Vec<u64>>;

#[derive(Clone, Debug)]
struct Src {
    name: &'static str,
    spec: EndlessSpec,
    /// declared ordering (column names, ascending)
    order: &'static [&'static str],
}

#[derive(Clone, Copy, Debug, PartialEq, Eq)]
enum Kind {
    FilterProject,
    ProjectAll,
    SparseFilter,
    UnionAll,
    WindowPreceding,
    WindowFollowing,
    WindowRowNumberLag,
    WindowPartitioned,
    OrderedAgg,
    Merge,
    SymJoin,
    Limit,
    /// must be rejected at planning
    Reject,
}

#[derive(Clone, Debug)]
struct Shape50 {
    name: &'static str,
    sql: &'static str,
    kind: Kind,
    srcs: Vec<Src>,
    batch_size: usize,
    target_partitions: usize,
    settings: &'static [(&'static str, &'static str)],
    /// slack in source batches per partition (already ×4 of the documented buffering, + prefetch allowance)
    slack: u64,
    /// pull until every source has served this many batches in total
    horizon: u64,
}

fn te(parts: usize, rows: usize, kdiv: i64, order: &'static [&'static str]) -> Src {
    Src { name: "te", spec: EndlessSpec { partitions: parts, rows_per_batch: rows, kdiv }, order }
}
fn te2(parts: usize, rows: usize, kdiv: i64, order: &'static [&'static str]) -> Src {
    Src { name: "te2", spec: EndlessSpec { partitions: parts, rows_per_batch: rows, kdiv }, order }
}

const KID: &[&str] = &["k", "id"];
const ID: &[&str] = &["id"];

fn shapes50(variant: u64) -> Vec<Shape50> {
    // `variant` varies batch geometry (rows per source batch / kdiv) so that the seeds explore different alignments
    let rows = [8usize, 4, 6, 10, 5, 16][(variant % 6) as usize];
    let kdiv = [4i64, 3, 20, 7, 1, 12][((variant / 6) % 6) as usize];
    let sh = |name, sql, kind, srcs: Vec<Src>, slack: u64| Shape50 { name, sql, kind, srcs, batch_size: rows, target_partitions: 2, settings: &[], slack, horizon: 120 };
    let group_batches = (kdiv as u64).div_ceil(rows as u64) + 1;
    let agg_stage_slack = 4 * (2 * 2 * (rows as u64 * kdiv as u64).div_ceil(rows as u64) + group_batches + 2) + 8;
    vec![
        sh("filter-project", "SELECT id, v + 1 AS w FROM te WHERE v % 2 = 0", Kind::FilterProject, vec![te(1, rows, kdiv, KID)], 4 * 3 + 4),
        sh("filter-project-2p", "SELECT id, v + 1 AS w FROM te WHERE v % 2 = 0", Kind::FilterProject, vec![te(2, rows, kdiv, KID)], 4 * 3 + 6),
        sh("project-all-2p", "SELECT k, id, v * 2 AS w FROM te", Kind::ProjectAll, vec![te(2, rows, kdiv, KID)], 4 * 1 + 6),
        Shape50 { batch_size: 32, horizon: 900, ..sh("sparse-filter-coalescing", "SELECT id FROM te WHERE v % 10 = 0", Kind::SparseFilter, vec![te(1, rows, kdiv, KID)], 4 * (10 * 32 / rows as u64 + 2) + 4) },
        sh("union-all", "SELECT id, v FROM te WHERE v % 2 = 0 UNION ALL SELECT id, v FROM te2 WHERE v % 3 = 0", Kind::UnionAll, vec![te(1, rows, kdiv, KID), te2(1, rows, kdiv, KID)], 4 * 4 + 6),
        sh("window-rows-preceding", "SELECT id, sum(v) OVER (ORDER BY k, id ROWS BETWEEN 3 PRECEDING AND CURRENT ROW) AS w FROM te", Kind::WindowPreceding, vec![te(1, rows, kdiv, KID)], 4 * 2 + 4),
        sh("window-rows-following", "SELECT id, sum(v) OVER (ORDER BY k, id ROWS BETWEEN 2 PRECEDING AND 2 FOLLOWING) AS w FROM te", Kind::WindowFollowing, vec![te(1, rows, kdiv, KID)], 4 * 3 + 4),
        sh("window-row-number-lag", "SELECT id, row_number() OVER (ORDER BY k, id) AS rn, lag(v, 1) OVER (ORDER BY k, id) AS lg FROM te", Kind::WindowRowNumberLag, vec![te(1, rows, kdiv, KID)], 4 * 3 + 4),
        sh("window-partitioned-by-ordered-key", "SELECT id, count(*) OVER (PARTITION BY k ORDER BY id ROWS BETWEEN 1 PRECEDING AND CURRENT ROW) AS c FROM te", Kind::WindowPartitioned, vec![te(1, rows, kdiv, KID)], 4 * (group_batches + 1) + 4),
        Shape50 { target_partitions: 1, ..sh("ordered-aggregation", "SELECT k, count(*) AS c, sum(v) AS s FROM te GROUP BY k", Kind::OrderedAgg, vec![te(1, rows, kdiv, KID)], 4 * (group_batches + 1) + 4) },
        // partial -> order-preserving hash repartition (streaming merge) -> final: every stage emits batches of
        // `batch_size` GROUPS, i.e. withholds up to batch_size * kdiv rows per stage and partition
        Shape50 { horizon: 2 * agg_stage_slack + 60, ..sh("ordered-aggregation-repartitioned", "SELECT k, count(*) AS c, sum(v) AS s FROM te GROUP BY k", Kind::OrderedAgg, vec![te(1, rows, kdiv, KID)], agg_stage_slack) },
        Shape50 { horizon: 2 * agg_stage_slack + 60, ..sh("ordered-aggregation-2p", "SELECT k, count(*) AS c, sum(v) AS s FROM te GROUP BY k", Kind::OrderedAgg, vec![te(2, rows, kdiv, KID)], agg_stage_slack) },
        sh("sort-preserving-merge", "SELECT k, id FROM te ORDER BY k, id", Kind::Merge, vec![te(2, rows, kdiv, KID)], 4 * 2 + 6),
        sh("symmetric-hash-join-pruning", "SELECT a.id AS a, b.id AS b FROM te a JOIN te2 b ON a.k = b.k AND a.id > b.id - 5 AND a.id < b.id + 5", Kind::SymJoin, vec![te(1, rows, kdiv, ID), te2(1, rows, kdiv, ID)], 4 * 3 + 8),
        Shape50 { target_partitions: 1, ..sh("symmetric-hash-join-1p", "SELECT a.id AS a, b.id AS b FROM te a JOIN te2 b ON a.k = b.k AND a.id > b.id - 5 AND a.id < b.id + 5", Kind::SymJoin, vec![te(1, rows, kdiv, ID), te2(1, rows, kdiv, ID)], 4 * 3 + 8) },
        sh("limit", "SELECT id FROM te WHERE v % 2 = 0 LIMIT 20", Kind::Limit, vec![te(1, rows, kdiv, KID)], 4 * 3 + 4),
        // documented pipeline breakers
        sh("reject-full-sort", "SELECT id FROM te ORDER BY v", Kind::Reject, vec![te(1, rows, kdiv, KID)], 0),
        sh("reject-unordered-group-by", "SELECT v, count(*) AS c FROM te GROUP BY v", Kind::Reject, vec![te(1, rows, kdiv, KID)], 0),
        sh("reject-window-unbounded-following", "SELECT id, sum(v) OVER (ORDER BY k, id ROWS BETWEEN CURRENT ROW AND UNBOUNDED FOLLOWING) AS w FROM te", Kind::Reject, vec![te(1, rows, kdiv, KID)], 0),
        Shape50 { settings: &[("datafusion.optimizer.allow_symmetric_joins_without_pruning", "false")], ..sh("reject-symmetric-join-without-pruning", "SELECT a.id AS a, b.id AS b FROM te a JOIN te2 b ON a.k = b.k", Kind::Reject, vec![te(1, rows, kdiv, KID), te2(1, rows, kdiv, KID)], 0) },
    ]
}

// ------------------------------------------------------------------------------------------
// reference: rows determined by a prefix

fn prefix_rows(s: &Src, counts: &[u64]) -> Vec<Vec<[i64; 3]>> {
    (0..s.spec.partitions).map(|p| s.spec.prefix(p, counts.get(p).copied().unwrap_or(0))).collect()
}

/// all prefix rows of all partitions, in (k, id) order — ids are globally unique and increasing
fn merged(parts: &[Vec<[i64; 3]>]) -> Vec<[i64; 3]> {
    let mut all: Vec<[i64; 3]> = parts.iter().flatten().copied().collect();
    all.sort_by_key(|r| r[1]);
    all
}

/// rows that are certain to precede everything still to come: id <= min over partitions of the last id seen
fn closed_prefix(parts: &[Vec<[i64; 3]>]) -> Vec<[i64; 3]> {
    let bound = parts.iter().map(|p| p.last().map(|r| r[1]).unwrap_or(-1)).min().unwrap_or(-1);
    merged(parts).into_iter().filter(|r| r[1] <= bound).collect()
}

fn expected(sh: &Shape50, c: &Counts) -> Vec<R> {
    let s = |x: i64| Some(x);
    let p0 = prefix_rows(&sh.srcs[0], &c[0]);
    match sh.kind {
        Kind::FilterProject => p0.iter().flatten().filter(|r| r[2] % 2 == 0).map(|r| vec![s(r[1]), s(r[2] + 1)]).collect(),
        Kind::ProjectAll => p0.iter().flatten().map(|r| vec![s(r[0]), s(r[1]), s(r[2] * 2)]).collect(),
        Kind::SparseFilter => p0.iter().flatten().filter(|r| r[2] % 10 == 0).map(|r| vec![s(r[1])]).collect(),
        Kind::UnionAll => {
            let p1 = prefix_rows(&sh.srcs[1], &c[1]);
            let mut out: Vec<R> = p0.iter().flatten().filter(|r| r[2] % 2 == 0).map(|r| vec![s(r[1]), s(r[2])]).collect();
            out.extend(p1.iter().flatten().filter(|r| r[2] % 3 == 0).map(|r| vec![s(r[1]), s(r[2])]));
            out
        }
        Kind::WindowPreceding => {
            let r = &p0[0];
            (0..r.len()).map(|j| vec![s(r[j][1]), s((j.saturating_sub(3)..=j).map(|i| r[i][2]).sum())]).collect()
        }
        Kind::WindowFollowing => {
            let r = &p0[0];
            (0..r.len().saturating_sub(2)).map(|j| vec![s(r[j][1]), s((j.saturating_sub(2)..=j + 2).map(|i| r[i][2]).sum())]).collect()
        }
        Kind::WindowRowNumberLag => {
            let r = &p0[0];
            (0..r.len()).map(|j| vec![s(r[j][1]), s(j as i64 + 1), if j == 0 { None } else { s(r[j - 1][2]) }]).collect()
        }
        Kind::WindowPartitioned => {
            let r = &p0[0];
            (0..r.len()).map(|j| vec![s(r[j][1]), s(if j > 0 && r[j - 1][0] == r[j][0] { 2 } else { 1 })]).collect()
        }
        Kind::OrderedAgg => {
            // a group is closed once every partition has moved past it
            let bound = p0.iter().map(|p| p.last().map(|r| r[0]).unwrap_or(-1)).min().unwrap_or(-1);
            let mut m: std::collections::BTreeMap<i64, (i64, i64)> = Default::default();
            for r in p0.iter().flatten().filter(|r| r[0] < bound) {
                let e = m.entry(r[0]).or_insert((0, 0));
                e.0 += 1;
                e.1 += r[2];
            }
            m.into_iter().map(|(k, (c, sv))| vec![s(k), s(c), s(sv)]).collect()
        }
        Kind::Merge => closed_prefix(&p0).into_iter().map(|r| vec![s(r[0]), s(r[1])]).collect(),
        Kind::SymJoin => {
            let a = merged(&p0);
            let b = merged(&prefix_rows(&sh.srcs[1], &c[1]));
            let mut by_k: HashMap<i64, Vec<i64>> = HashMap::new();
            for r in &b {
                by_k.entry(r[0]).or_default().push(r[1]);
            }
            let mut out = vec![];
            for r in &a {
                if let Some(ids) = by_k.get(&r[0]) {
                    for bid in ids {
                        if r[1] > bid - 5 && r[1] < bid + 5 {
                            out.push(vec![s(r[1]), s(*bid)]);
                        }
                    }
                }
            }
            out
        }
        // LIMIT without ORDER BY: any 20 passing rows are a correct answer (see `check` for the special handling)
        Kind::Limit => p0[0].iter().filter(|r| r[2] % 2 == 0).map(|r| vec![s(r[1])]).collect(),
        Kind::Reject => vec![],
    }
}

fn minus(c: &Counts, s: u64) -> Counts {
    c.iter().map(|v| v.iter().map(|x| x.saturating_sub(s)).collect()).collect()
}

fn bag(rows: &[R]) -> HashMap<&R, i64> {
    let mut m = HashMap::new();
    for r in rows {
        *m.entry(r).or_insert(0) += 1;
    }
    m
}

/// first row of `small` that `big` does not cover (multiset inclusion)
fn not_covered<'a>(small: &'a [R], big: &[R]) -> Option<&'a R> {
    let mut b = bag(big);
    for r in small {
        match b.get_mut(r) {
            Some(n) if *n > 0 => *n -= 1,
            _ => return Some(r),
        }
    }
    None
}

fn batch_rows(b: &RecordBatch) -> Vec<R> {
    let cols: Vec<Int64Array> = b
        .columns()
        .iter()
        .map(|c| {
            let c = arrow::compute::cast(c, &DataType::Int64).expect("int output");
            c.as_any().downcast_ref::<Int64Array>().unwrap().clone()
        })
        .collect();
    (0..b.num_rows()).map(|i| cols.iter().map(|c| if c.is_null(i) { None } else { Some(c.value(i)) }).collect()).collect()
}

// ------------------------------------------------------------------------------------------

struct Event {
    counts: Counts,
    rows: Vec<R>,
}

struct Run {
    events: Vec<Event>,
    ended: bool,
    end_counts: Counts,
    error: Option<String>,
    ops: Vec<String>,
    cap_hit: bool,
    wall_hit: bool,
}

enum Planned {
    Rejected(String),
    Ran(Run),
}

async fn run_shape(sh: &Shape50, noise: Noise, holdback: bool) -> Result<Planned, String> {
    let env = Env::new(&EnvCfg::default()).map_err(|e| e.to_string())?;
    let mut sc = SessionConfig::new().with_target_partitions(sh.target_partitions).with_batch_size(sh.batch_size).with_information_schema(false);
    for (k, v) in sh.settings {
        sc = sc.set_str(k, v);
    }
    let ctx = SessionContext::new_with_config_rt(sc, env.runtime.clone());
    let mut states = vec![];
    for (i, s) in sh.srcs.iter().enumerate() {
        let st = ChaosState::new("C50");
        st.set_cap(sh.horizon * 3 * s.spec.partitions as u64);
        st.set_wall_guard(Duration::from_secs(120));
        let cfg = ChaosCfg { noise: Noise { seed: vcommon::fp_mix(noise.seed, i as u64), ..noise }, fault: None, unbounded: true, order: s.order.iter().map(|c| (c.to_string(), false, false)).collect(), claim_cooperative: false };
        ctx.register_table(s.name, Arc::new(ChaosTable::new(EndlessSpec::schema(), s.spec.data(), cfg, st.clone()))).map_err(|e| e.to_string())?;
        states.push(st);
    }
    let df = match ctx.sql(sh.sql).await {
        Ok(df) => df,
        Err(e) => return Ok(Planned::Rejected(e.to_string())),
    };
    let mut plan = match df.create_physical_plan().await {
        Ok(p) => p,
        Err(e) => return Ok(Planned::Rejected(e.to_string())),
    };
    if holdback {
        plan = Arc::new(HoldbackExec { props: plan.properties().clone(), child: plan });
    }
    let ops = plan_operators(&plan);
    let mut stream = datafusion::physical_plan::execute_stream(plan, ctx.task_ctx()).map_err(|e| format!("execute: {e}"))?;
    let counts = |states: &[Arc<ChaosState>]| -> Counts { sh.srcs.iter().zip(states).map(|(s, st)| (0..s.spec.partitions).map(|p| st.served_of(p)).collect()).collect() };
    let mut run = Run { events: vec![], ended: false, end_counts: vec![], error: None, ops, cap_hit: false, wall_hit: false };
    loop {
        let done = sh.srcs.iter().zip(&states).all(|(s, st)| st.served() >= sh.horizon * s.spec.partitions as u64);
        if done {
            break;
        }
        match stream.next().await {
            None => {
                run.ended = true;
                break;
            }
            Some(Err(e)) => {
                run.error = Some(e.to_string().chars().take(300).collect());
                break;
            }
            Some(Ok(b)) => run.events.push(Event { counts: counts(&states), rows: batch_rows(&b) }),
        }
    }
    run.end_counts = counts(&states);
    run.cap_hit = states.iter().any(|s| s.cap_hit());
    run.wall_hit = states.iter().any(|s| s.wall_hit());
    drop(stream);
    Ok(Planned::Ran(run))
}

/// self test 3: an operator that claims the child's (incremental) properties but buffers until end of input
#[derive(Debug)]
struct HoldbackExec {
    child: Arc<dyn ExecutionPlan>,
    props: Arc<PlanProperties>,
}
impl DisplayAs for HoldbackExec {
    fn fmt_as(&self, _t: DisplayFormatType, f: &mut std::fmt::Formatter) -> std::fmt::Result {
        write!(f, "HoldbackExec")
    }
}
impl ExecutionPlan for HoldbackExec {
    fn name(&self) -> &str {
        "HoldbackExec"
    }
    fn properties(&self) -> &Arc<PlanProperties> {
        &self.props
    }
    fn children(&self) -> Vec<&Arc<dyn ExecutionPlan>> {
        vec![&self.child]
    }
    fn apply_expressions(&self, _f: &mut dyn FnMut(&Arc<dyn PhysicalExpr>) -> DfResult<TreeNodeRecursion>) -> DfResult<TreeNodeRecursion> {
        Ok(TreeNodeRecursion::Continue)
    }
    fn replace_children(self: Arc<Self>, c: Vec<Arc<dyn ExecutionPlan>>, _o: ReplaceChildrenOptions) -> DfResult<Arc<dyn ExecutionPlan>> {
        Ok(Arc::new(HoldbackExec { props: c[0].properties().clone(), child: c[0].clone() }))
    }
    fn with_new_children(self: Arc<Self>, c: Vec<Arc<dyn ExecutionPlan>>) -> DfResult<Arc<dyn ExecutionPlan>> {
        Ok(Arc::new(HoldbackExec { props: c[0].properties().clone(), child: c[0].clone() }))
    }
    fn execute(&self, partition: usize, ctx: Arc<TaskContext>) -> DfResult<SendableRecordBatchStream> {
        let input = self.child.execute(partition, ctx)?;
        let s = futures::stream::once(async move { input.collect::<Vec<_>>().await }).flat_map(futures::stream::iter);
        Ok(Box::pin(RecordBatchStreamAdapter::new(self.schema(), s)))
    }
}

fn check(rep: &Report, sh: &Shape50, noise: Noise, variant: u64, selftest: u64) {
    let fp = vcommon::fp_str(&format!("{}|{:?}|{}", sh.name, noise, variant));
    let wit = |what: &str, extra: Json| {
        json!({"shape": sh.name, "sql": sh.sql, "sources": sh.srcs.iter().map(|s| json!({"table": s.name, "partitions": s.spec.partitions, "rows_per_batch": s.spec.rows_per_batch, "kdiv": s.spec.kdiv, "declared_order": s.order,
            "row(j,p)": "id = j*partitions + p; k = id / kdiv; v = fp_mix(0xE5D1E55, id) % 1000 (dfv::sched::EndlessSpec)"})).collect::<Vec<_>>(),
            "batch_size": sh.batch_size, "target_partitions": sh.target_partitions, "settings": sh.settings.iter().map(|(k, v)| format!("{k}={v}")).collect::<Vec<_>>(),
            "slack_batches": sh.slack, "noise": format!("{noise:?}"), "what": what, "detail": extra, "replay": format!("c50 C50 --opt only={} --opt variant={variant}", sh.name)})
    };
    let out = run_vtq(|| run_shape(sh, noise, selftest == 3 && sh.kind == Kind::FilterProject));
    let run = match out {
        RunOutcome::Panic(p) => {
            rep.case(fp, true);
            rep.violation(&format!("panic/{}", sh.name), wit(&format!("panicked: {p}"), json!(null)));
            return;
        }
        RunOutcome::Stuck => {
            rep.case(fp, true);
            if sh.kind == Kind::Reject {
                rep.violation(&format!("pipeline-breaker-accepted/{}", sh.name), wit("accepted at planning and then stalled (virtual-time quiescence)", json!(null)));
            } else {
                rep.violation(&format!("stalled/{}", sh.name), wit("virtual-time quiescence detector fired: the accepted query neither produces output nor consumes input", json!(null)));
            }
            return;
        }
        RunOutcome::Wall => {
            rep.inconclusive("wall guard");
            return;
        }
        RunOutcome::Done(Err(e)) => {
            rep.case(fp, false);
            rep.skip(&format!("setup-error/{}: {}", sh.name, e.chars().take(100).collect::<String>()));
            return;
        }
        RunOutcome::Done(Ok(Planned::Rejected(e))) => {
            rep.case(fp, sh.kind == Kind::Reject);
            if sh.kind == Kind::Reject {
                rep.count("rejected_as_documented", 1);
                rep.seen("rejected_shapes", sh.name);
                if rep.want_sample() && rep.get_count("rejected_as_documented") <= 1 {
                    rep.sample(json!({"shape": sh.name, "sql": sh.sql, "planning_error": e.chars().take(160).collect::<String>()}));
                }
            } else {
                rep.skip(&format!("rejected-at-planning/{}: {}", sh.name, e.chars().take(100).collect::<String>()));
            }
            return;
        }
        RunOutcome::Done(Ok(Planned::Ran(r))) => r,
    };
    if run.wall_hit {
        rep.case(fp, false);
        rep.inconclusive("wall-clock guard of a source fired");
        return;
    }
    for o in &run.ops {
        rep.seen("operators", o);
    }
    if sh.kind == Kind::Reject {
        rep.case(fp, true);
        let n: usize = run.events.iter().map(|e| e.rows.len()).sum();
        rep.violation(&format!("pipeline-breaker-accepted/{}", sh.name), wit("a query that can only answer at end of input was accepted at planning time", json!({"rows_delivered_while_input_continued": n, "source_cap_hit": run.cap_hit, "error": run.error, "operators": run.ops})));
        return;
    }
    if let Some(e) = &run.error {
        rep.case(fp, false);
        rep.skip(&format!("execution-error/{}: {}", sh.name, e.chars().take(100).collect::<String>()));
        return;
    }
    let mut events = run.events;
    if selftest == 1 && events.len() > 3 {
        events[1].rows.clear(); // corrupt the observation: rows of the second delivery vanish
    }
    if selftest == 2 && events.len() > 3 {
        if let Some(r) = events[2].rows.first_mut() {
            r[0] = r[0].map(|x| x + 1_000_000); // corrupt the observation: a delivered value is wrong
        }
    }
    let total_rows: usize = events.iter().map(|e| e.rows.len()).sum();
    rep.case(fp, total_rows > 0);
    rep.count(&format!("events:{}", sh.name), events.len() as u64);
    rep.count(&format!("rows:{}", sh.name), total_rows as u64);
    if total_rows > 0 {
        rep.seen("progressing_shapes", sh.name);
    }
    let mut delivered: Vec<R> = vec![];
    let mut prev: Counts = vec![];
    let mut max_gap = 0u64;
    // the reference is recomputed from scratch per checked event: check the first 12 deliveries, then every n-th
    let stride = (events.len() / 40).max(1);
    let is_limit = sh.kind == Kind::Limit;
    for (i, ev) in events.iter().enumerate() {
        let checked = i < 12 || i % stride == 0 || i + 1 == events.len();
        if checked {
            // progress: what was determined s+1 batches before this delivery must already have been delivered
            let must = expected(sh, &minus(&ev.counts, sh.slack + 1));
            let late = if is_limit { if must.len() >= 20 && delivered.len() < 20 { must.first() } else { None } } else { not_covered(&must, &delivered) };
            if let Some(r) = late {
                rep.violation(&format!("determined-row-late/{}", sh.name), wit("a row determined by the prefix served (slack+1) batches earlier had not been delivered when the query pulled further", json!({"event": i, "served_at_event": ev.counts, "missing_row": r, "rows_delivered_before": delivered.len(), "operators": run.ops})));
                return;
            }
        }
        delivered.extend(ev.rows.iter().cloned());
        if checked {
            // soundness: everything delivered so far is determined by what the sources have served so far
            let may = expected(sh, &ev.counts);
            let bad = not_covered(&delivered, &may).cloned().or_else(|| if is_limit && delivered.len() > 20 { Some(vec![Some(delivered.len() as i64)]) } else { None });
            if let Some(r) = bad {
                rep.violation(&format!("delivered-row-not-determined-by-prefix/{}", sh.name), wit("a delivered row is not an output row determined by the served prefix (for LIMIT: or more rows than the limit)", json!({"event": i, "served_at_event": ev.counts, "row": r, "operators": run.ops})));
                return;
            }
        }
        if !prev.is_empty() {
            let gap = ev.counts.iter().flatten().zip(prev.iter().flatten()).map(|(a, b): (&u64, &u64)| a - b).max().unwrap_or(0);
            max_gap = max_gap.max(gap);
            rep.count(&format!("lag_hist:gap_batches<={}", [1u64, 2, 4, 8, 16, 64, u64::MAX].iter().find(|b| gap <= **b).map(|b| if *b == u64::MAX { "inf".to_string() } else { b.to_string() }).unwrap()), 1);
        }
        prev = ev.counts.clone();
    }
    rep.max(&format!("max_gap_batches:{}", sh.name), max_gap);
    // final state: the query pulled `end_counts` and we stopped (or it ended)
    let must = expected(sh, &minus(&run.end_counts, sh.slack + 1));
    let missing = if is_limit { if must.len() >= 20 && delivered.len() < 20 { must.first() } else { None } } else { not_covered(&must, &delivered) };
    if let Some(r) = missing {
        let sig = if delivered.is_empty() { "accepted-but-silent" } else { "determined-row-missing" };
        rep.violation(&format!("{sig}/{}", sh.name), wit("a row determined by the served prefix (minus slack) was never delivered although the input continued", json!({"served_at_end": run.end_counts, "missing_row": r, "rows_delivered": delivered.len(), "stream_ended": run.ended, "source_cap_hit": run.cap_hit, "operators": run.ops})));
        return;
    }
    if is_limit {
        // the reached LIMIT is an output fact too: the stream must end while the input continues
        let full_before_slack = must.len() >= 20;
        if !run.ended && full_before_slack {
            rep.violation(&format!("limit-reached-but-stream-continues/{}", sh.name), wit("LIMIT rows were delivered but the stream did not end within the slack", json!({"served_at_end": run.end_counts})));
        } else if run.ended && delivered.len() < 20 {
            rep.violation(&format!("ended-early/{}", sh.name), wit("the stream ended before the LIMIT was reached although the input continues", json!({"served_at_end": run.end_counts, "rows": delivered.len()})));
        } else if run.ended {
            rep.count("limit_terminated_stream", 1);
        }
    } else if run.ended {
        rep.violation(&format!("ended-although-input-continues/{}", sh.name), wit("the stream returned None although its unbounded input had not ended", json!({"served_at_end": run.end_counts, "source_cap_hit": run.cap_hit, "rows": delivered.len()})));
    }
    if rep.want_sample() && total_rows > 0 && events.len() > 4 {
        rep.sample(json!({"shape": sh.name, "sql": sh.sql, "events": events.len(), "rows": total_rows, "first_deliveries": events.iter().take(4).map(|e| json!({"served": e.counts, "rows": e.rows.len()})).collect::<Vec<_>>(), "max_gap_batches": max_gap, "operators": run.ops}));
    }
}

fn run(args: &Args) -> i32 {
    let rep = Report::new("C50", "exploration", args);
    rep.set_rule("case = (query shape over endless ordered ChaosTables declared unbounded, batch geometry variant, seeded source noise) run on the VTQ runtime until every source served `horizon` batches per partition; the harness computes E(prefix) per shape and checks soundness D_i ⊆ E(c_i) and progress E(c_i ⊖ (slack+1)) ⊆ D_{i-1} at every delivery and at the end; reject-shapes must fail at planning. distinct = hash(shape, variant, noise); non-trivial = the accepted query delivered rows while the input continued (reject shapes: rejected at planning)");
    rep.assume("the harness' per-shape definition of 'determined by a prefix' (filter rows: on arrival; preceding-only frames: on arrival; k FOLLOWING frames: after k more rows; ordered groups: when every partition moved past the key; merge: when every partition moved past the row; inner symmetric join: when both rows arrived; LIMIT: first n rows)");
    rep.assume("slack = 4 × documented buffering (batch_size coalescing, frame width, one group, merge look-ahead) + prefetch allowance of eager operators");
    let selftest = args.opt_u64("selftest", 0);
    let only = args.opt_str("only");
    if args.opt_u64("explain", 0) == 1 {
        for sh in shapes50(args.opt_u64("variant", 0)) {
            if only.is_some_and(|o| o != sh.name) {
                continue;
            }
            let r = run_vtq(|| async {
                let mut sc = SessionConfig::new().with_target_partitions(sh.target_partitions).with_batch_size(sh.batch_size);
                for (k, v) in sh.settings {
                    sc = sc.set_str(k, v);
                }
                let ctx = SessionContext::new_with_config(sc);
                for s in &sh.srcs {
                    let cfg = ChaosCfg { unbounded: true, order: s.order.iter().map(|c| (c.to_string(), false, false)).collect(), ..ChaosCfg::default() };
                    ctx.register_table(s.name, Arc::new(ChaosTable::new(EndlessSpec::schema(), s.spec.data(), cfg, ChaosState::new("x"))))?;
                }
                let p = ctx.sql(sh.sql).await?.create_physical_plan().await?;
                Ok::<_, datafusion::error::DataFusionError>(datafusion::physical_plan::displayable(p.as_ref()).indent(false).to_string())
            });
            println!("== {} ==\n{}\n{:?}\n", sh.name, sh.sql, r);
        }
        return 0;
    }
    // systematic: every shape × 6 geometry variants × {no noise, seeded noise}
    let mut cases = vec![];
    let variants: Vec<u64> = if let Some(v) = args.opt_str("variant") { vec![v.parse().unwrap_or(0)] } else { vec![0, 7, 14, 21, 28, 35] };
    for v in &variants {
        for sh in shapes50(*v) {
            if only.is_some_and(|o| o != sh.name) {
                continue;
            }
            cases.push((sh.clone(), Noise::none(), *v));
            if sh.kind != Kind::Reject {
                cases.push((sh, Noise::seeded(*v + 1), *v));
            }
        }
    }
    vcommon::par::run(args.workers, cases.into_iter(), |(sh, noise, v)| check(&rep, &sh, noise, v, selftest));
    // seeded tail
    let n_rand = args.bound("random", 160, 4000);
    if only.is_none() {
        vcommon::par::run(args.workers, 0..n_rand, |i| {
            if !rep.within_budget(60.0) {
                return;
            }
            let mut rng = Rng::derive(args.seed, &[50, i]);
            let v = rng.below(36);
            let all: Vec<Shape50> = shapes50(v).into_iter().filter(|s| s.kind != Kind::Reject).collect();
            let sh = rng.pick(&all).clone();
            let noise = Noise { seed: rng.next_u64(), yield_pct: rng.below(40) as u32, sleep_pct: rng.below(30) as u32, max_sleep_ms: 1 + rng.below(10), unit_us: 0 };
            check(&rep, &sh, noise, v, 0);
        });
    }
    if only.is_none() {
        let accept: Vec<&str> = shapes50(0).iter().filter(|s| s.kind != Kind::Reject).map(|s| s.name).collect();
        for n in &accept {
            rep.obligation(&format!("progress:{n}"), rep.has_seen("progressing_shapes", n), "the shape must be accepted and deliver rows while its input continues");
        }
        for o in ["FilterExec", "UnionExec", "BoundedWindowAggExec", "AggregateExec", "SortPreservingMergeExec", "SymmetricHashJoinExec", "RepartitionExec", "CoalescePartitionsExec"] {
            rep.obligation(&format!("operator:{o}"), rep.has_seen("operators", o), "operator must run over an unbounded source");
        }
        rep.obligation("rejections", rep.seen_count("rejected_shapes") >= 3, "documented pipeline breakers must be exercised (and rejected)");
        rep.obligation("limit-terminates", rep.get_count("limit_terminated_stream") >= 1, "a reached LIMIT must end the stream over an endless input");
    }
    rep.finish()
}

fn main() {
    let args = Args::parse();
    vcommon::par::quiet_panics();
    std::process::exit(run(&args));
}
