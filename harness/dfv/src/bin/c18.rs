//! C18 — Memory-limited queries are exact or fail cleanly, and release everything.
//!
//! Per query family (sort ± limit, grouping on strings / many groups, DISTINCT, hash / sort-merge / nested-loop join,
//! window, repartition-heavy join): measure the peak reservation with an unbounded pool (that run is also the
//! oracle), then sweep limits {2, 1, 1/2, 1/4, … ≥ 1 KiB} × peak × {Greedy, FairSpill} × spill codec ×
//! sort_spill_reservation_bytes × max_spill_file_size_bytes × merge fan-in × batch size. Every run is executed on
//! the VTQ runtime. Oracle: same rows as the unlimited run (multiset; valid top-k for LIMIT with ties), or an error
//! whose root cause is ResourcesExhausted; no panic; no hang; after the stream finished or was dropped:
//! pool.reserved() == 0, used_disk_space() == 0, no file left in the spill directories.

use dfv::engine::batches_to_rows;
use dfv::sched::*;
use dfv::value::{row_total_cmp, rows_to_json, total_cmp, Row};
use futures::StreamExt;
use std::collections::HashMap;
use std::time::Duration;
use vcommon::{json, Args, Json, Report, Rng};

#[derive(Clone, Copy, Debug, PartialEq)]
enum Cmp {
    Multiset,
    /// the `n` smallest rows on column `key` of the answer of `of`, any choice among ties
    ValidTopK { of: &'static str, key: usize, n: usize },
}

#[derive(Clone, Debug)]
struct Family {
    name: &'static str,
    sql: &'static str,
    settings: &'static [(&'static str, &'static str)],
    target_partitions: usize,
    cmp: Cmp,
    /// an operator of the plan can spill (⇒ a successful spilled run is required)
    must_spill: bool,
}

const SMJ: &[(&str, &str)] = &[("datafusion.optimizer.prefer_hash_join", "false")];
const PARTITIONED: &[(&str, &str)] = &[("datafusion.optimizer.hash_join_single_partition_threshold", "0"), ("datafusion.optimizer.hash_join_single_partition_threshold_rows", "0")];

fn families() -> Vec<Family> {
    let f = |name, sql, tp, must_spill| Family { name, sql, settings: &[], target_partitions: tp, cmp: Cmp::Multiset, must_spill };
    vec![
        f("order-by", "SELECT id, s FROM t1 ORDER BY s", 1, true),
        f("order-by-3p", "SELECT id, s FROM t1 ORDER BY s DESC, id", 3, true),
        Family { cmp: Cmp::ValidTopK { of: "SELECT k, id, s FROM t1", key: 0, n: 50 }, ..f("order-by-limit-ties", "SELECT k, id, s FROM t1 ORDER BY k LIMIT 50", 2, false) },
        f("group-by-string", "SELECT s, count(*) AS c, max(id) AS m FROM t1 GROUP BY s", 1, true),
        f("group-by-many-groups", "SELECT id % 211 AS g, k, count(*) AS c, min(s) AS ms FROM t1 GROUP BY id % 211, k", 2, true),
        f("distinct", "SELECT DISTINCT s, k FROM t1", 1, true),
        f("hash-join", "SELECT a.id AS a, b.id AS b, a.s AS s FROM t1 a JOIN t2 b ON a.k = b.k", 2, false),
        Family { settings: SMJ, ..f("sort-merge-join", "SELECT a.id AS a, b.id AS b, a.s AS s FROM t1 a JOIN t2 b ON a.k = b.k", 2, true) },
        f("nested-loop-join", "SELECT a.id AS a, b.id AS b, a.s AS s FROM t1 a JOIN t2 b ON a.v < b.v - 800", 1, true),
        f("window", "SELECT id, row_number() OVER (PARTITION BY k ORDER BY s) AS rn, s FROM t1", 2, true),
        Family { settings: PARTITIONED, ..f("repartition-heavy-join", "SELECT a.s AS s1, b.s AS s2 FROM t1 a JOIN ts b ON a.id = b.id - 20000", 4, true) },
    ]
}

#[derive(Clone, Debug)]
struct Knobs {
    limit: Option<usize>,
    fair: bool,
    codec: &'static str,
    sort_spill_reservation: usize,
    max_spill_file: Option<usize>,
    fan_in: Option<usize>,
    batch_size: usize,
    /// drop the stream after this many batches instead of draining it
    drop_after: Option<usize>,
    noise: Noise,
}

impl Knobs {
    fn to_json(&self) -> Json {
        json!({"memory_limit": self.limit, "pool": if self.fair { "FairSpillPool" } else { "GreedyMemoryPool" }, "spill_compression": self.codec,
            "sort_spill_reservation_bytes": self.sort_spill_reservation, "max_spill_file_size_bytes": self.max_spill_file, "max_spill_merge_fan_in": self.fan_in,
            "batch_size": self.batch_size, "drop_after_batches": self.drop_after, "noise": format!("{:?}", self.noise)})
    }
}

struct Obs {
    rows: Vec<Row>,
    error: Option<datafusion::error::DataFusionError>,
    finished: bool,
    spills: usize,
    spilled_bytes: usize,
    peak: u64,
    refusals: u64,
    after: Snapshot,
    ops: Vec<String>,
    wall_hit: bool,
}

async fn run_one(ds: &Dataset, fam: &Family, k: &Knobs) -> Result<Obs, String> {
    let baseline = alive_tasks();
    let mut wc = WorldCfg { target_partitions: fam.target_partitions, batch_size: k.batch_size, noise: k.noise, ..WorldCfg::default() };
    wc.settings = fam.settings.iter().map(|(a, b)| (a.to_string(), b.to_string())).collect();
    wc.settings.push(("datafusion.execution.spill_compression".into(), k.codec.into()));
    wc.settings.push(("datafusion.execution.sort_spill_reservation_bytes".into(), k.sort_spill_reservation.to_string()));
    if let Some(m) = k.max_spill_file {
        wc.settings.push(("datafusion.execution.max_spill_file_size_bytes".into(), m.to_string()));
    }
    wc.env.pool = match (k.limit, k.fair) {
        (None, _) => PoolKind::Unbounded,
        (Some(l), true) => PoolKind::Fair(l),
        (Some(l), false) => PoolKind::Greedy(l),
    };
    wc.env.merge_fan_in = k.fan_in;
    wc.wall_guard = Some(Duration::from_secs(120));
    let world = World::new(ds, &wc).await.map_err(|e| format!("world: {e}"))?;
    let plan = world.plan(fam.sql).await.map_err(|e| format!("plan: {e}"))?;
    let ops = plan_operators(&plan);
    let mut batches = vec![];
    let mut error = None;
    let mut finished = false;
    match world.execute(plan.clone()) {
        Err(e) => error = Some(e),
        Ok(mut stream) => loop {
            if k.drop_after.is_some_and(|n| batches.len() >= n) {
                break;
            }
            match stream.next().await {
                None => {
                    finished = true;
                    break;
                }
                Some(Ok(b)) => batches.push(b),
                Some(Err(e)) => {
                    error = Some(e);
                    break;
                }
            }
        },
    }
    let spills = sum_metric(&plan, "spill_count");
    let spilled_bytes = sum_metric(&plan, "spilled_bytes");
    drop(plan);
    let obs = world.observers();
    let (after, _) = obs.settle(baseline, 40, Duration::from_secs(60)).await;
    Ok(Obs { rows: batches_to_rows(&batches), error, finished, spills, spilled_bytes, peak: world.env.pool.peak(), refusals: world.env.pool.inner_refusals(), after, ops, wall_hit: world.wall_hit() })
}

fn valid_topk(rows: &[Row], of: &[Row], key: usize, n: usize) -> Result<(), String> {
    let n = n.min(of.len());
    if rows.len() != n {
        return Err(format!("{} rows instead of {n}", rows.len()));
    }
    let mut sorted: Vec<&Row> = of.iter().collect();
    sorted.sort_by(|a, b| total_cmp(&a[key], &b[key]));
    let mut got: Vec<&Row> = rows.iter().collect();
    got.sort_by(|a, b| total_cmp(&a[key], &b[key]));
    for (g, e) in got.iter().zip(sorted.iter()) {
        if total_cmp(&g[key], &e[key]) != std::cmp::Ordering::Equal {
            return Err(format!("key multiset differs from the {n} smallest keys: got {:?}, expected {:?}", g[key], e[key]));
        }
    }
    // every returned row is a row of the unlimited answer (multiset inclusion)
    let mut pool: Vec<&Row> = of.iter().collect();
    pool.sort_by(|a, b| row_total_cmp(a, b));
    let mut used = vec![false; pool.len()];
    'o: for r in rows {
        let mut i = pool.partition_point(|x| row_total_cmp(x, r) == std::cmp::Ordering::Less);
        while i < pool.len() && row_total_cmp(pool[i], r) == std::cmp::Ordering::Equal {
            if !used[i] {
                used[i] = true;
                continue 'o;
            }
            i += 1;
        }
        return Err(format!("row {r:?} is not a row of the input"));
    }
    // the output must be ordered on the key
    for w in rows.windows(2) {
        if total_cmp(&w[0][key], &w[1][key]) == std::cmp::Ordering::Greater {
            return Err("output not sorted on the ORDER BY key".into());
        }
    }
    Ok(())
}

struct Oracle {
    answers: HashMap<String, Vec<Row>>,
    peaks: HashMap<&'static str, u64>,
}


/// Contents and physical layout (partitions -> batches -> rows) of the generated tables, so that a witness can be
/// replayed without the generator. Tables beyond `max_rows` rows in total are only described by seed + config.
fn tables_json(ds: &Dataset, max_rows: usize) -> Json {
    let total: usize = (0..4).map(|i| ds.table(i).iter().flatten().map(|b| b.num_rows()).sum::<usize>()).sum();
    if total > max_rows {
        return json!(format!("{total} rows: regenerate with dfv::sched::Dataset::new(dataset_seed, dataset)"));
    }
    let dump = |t: &Vec<Vec<arrow::record_batch::RecordBatch>>| -> Json {
        json!(t.iter().map(|p| p.iter().map(|b| dfv::value::rows_to_json(&dfv::engine::batches_to_rows(std::slice::from_ref(b)))).collect::<Vec<_>>()).collect::<Vec<_>>())
    };
    json!({"columns": ["id BIGINT NOT NULL", "k BIGINT NOT NULL", "v BIGINT", "s VARCHAR NOT NULL"], "t1": dump(&ds.t1), "t2": dump(&ds.t2), "ts (declared ORDER BY k, id)": dump(&ds.ts), "tb": dump(&ds.tb)})
}

fn witness(ds: &Dataset, dcfg: &DatasetCfg, fam: &Family, k: &Knobs, o: Option<&Obs>, expected: Option<&Vec<Row>>, what: &str) -> Json {
    json!({
        "family": fam.name, "sql": fam.sql, "settings": fam.settings.iter().map(|(a, b)| format!("{a}={b}")).collect::<Vec<_>>(), "target_partitions": fam.target_partitions,
        "knobs": k.to_json(), "dataset_seed": ds.seed, "dataset": format!("{dcfg:?}"),
        "tables": "dfv::sched::Dataset::new(dataset_seed, dataset): t1 (3 partitions), t2 (2), ts (3, sorted on k,id); columns id BIGINT, k BIGINT, v BIGINT NULL, s VARCHAR",
        "observed": o.map(|o| json!({"rows": o.rows.len(), "error": o.error.as_ref().map(|e| e.to_string().chars().take(500).collect::<String>()),
            "error_root": o.error.as_ref().map(|e| format!("{:?}", e.find_root()).chars().take(200).collect::<String>()),
            "finished": o.finished, "spill_count": o.spills, "peak_reserved": o.peak, "after_release": o.after.to_json(),
            "sample_rows": rows_to_json(&o.rows[..o.rows.len().min(5)])})),
        "expected_rows": expected.map(|e| e.len()), "what": what,
        "table_contents": tables_json(ds, 2500),
        "replay": format!("c18 C18 --opt only={}", fam.name),
    })
}

fn check(rep: &Report, ds: &Dataset, dcfg: &DatasetCfg, oracle: &Oracle, fam: &Family, k: &Knobs, selftest: u64) {
    let fp = vcommon::fp_str(&format!("{}|{}|{}", fam.name, k.to_json(), ds.seed));
    let out = run_vtq(|| run_one(ds, fam, k));
    let expected = match fam.cmp {
        Cmp::Multiset => oracle.answers.get(fam.sql),
        Cmp::ValidTopK { of, .. } => oracle.answers.get(of),
    };
    let mut o = match out {
        RunOutcome::Panic(p) => {
            rep.case(fp, true);
            rep.violation(&format!("panic/{}", fam.name), witness(ds, dcfg, fam, k, None, expected, &format!("panicked: {p}")));
            return;
        }
        RunOutcome::Stuck => {
            rep.case(fp, true);
            rep.violation(&format!("hang/{}", fam.name), witness(ds, dcfg, fam, k, None, expected, "virtual-time quiescence detector fired: the memory-limited query neither finishes nor fails"));
            return;
        }
        RunOutcome::Wall => {
            rep.inconclusive("wall guard");
            return;
        }
        RunOutcome::Done(Err(e)) => {
            rep.case(fp, false);
            // planning under a memory limit does not reserve: a setup error is a harness problem, not a verdict
            rep.skip(&format!("setup-error/{}: {}", fam.name, e.chars().take(100).collect::<String>()));
            return;
        }
        RunOutcome::Done(Ok(o)) => o,
    };
    if o.wall_hit {
        rep.case(fp, false);
        rep.inconclusive("wall-clock guard of a source fired");
        return;
    }
    for op in &o.ops {
        rep.seen("operators", op);
    }
    let binding = k.limit.is_some_and(|l| (l as u64) < oracle.peaks.get(fam.name).copied().unwrap_or(0));
    if selftest == 1 && o.finished && o.error.is_none() && binding && !o.rows.is_empty() {
        o.rows.pop(); // corrupt the observed result
    }
    if selftest == 2 && binding {
        o.after.reserved += 64; // corrupt the observed release
    }
    if rep.args.opt_u64("verbose", 0) == 1 {
        println!("{} {} -> rows={} finished={} spills={} refusals={} peak={} err={:?}", fam.name, k.to_json(), o.rows.len(), o.finished, o.spills, o.refusals, o.peak, o.error.as_ref().map(|e| e.to_string().chars().take(160).collect::<String>()));
    }
    let nontrivial = binding && (o.spills > 0 || o.refusals > 0 || o.error.is_some());
    rep.case(fp, nontrivial);
    let pool = if k.fair { "fair" } else { "greedy" };
    rep.count(&format!("runs:{}", fam.name), 1);
    rep.seen("codecs", k.codec);
    // 1. outcome
    match &o.error {
        Some(e) => {
            if root_is_resources_exhausted(e) {
                rep.count(&format!("failed-cleanly:{}", fam.name), 1);
                rep.count(&format!("failed-cleanly:{pool}"), 1);
            } else {
                rep.violation(&format!("failed-with-other-root-cause/{}", fam.name), witness(ds, dcfg, fam, k, Some(&o), expected, "the memory-limited query failed, but the root cause is not ResourcesExhausted"));
            }
        }
        None if o.finished => {
            rep.count(&format!("succeeded:{}", fam.name), 1);
            if binding {
                rep.count(&format!("succeeded-under-binding-limit:{}", fam.name), 1);
            }
            if o.spills > 0 {
                rep.count(&format!("succeeded-with-spill:{}", fam.name), 1);
                rep.count(&format!("succeeded-with-spill:{pool}"), 1);
                rep.count(&format!("succeeded-with-spill:{}", k.codec), 1);
                rep.max(&format!("max_spill_count:{}", fam.name), o.spills as u64);
                rep.max("max_spilled_bytes", o.spilled_bytes as u64);
            }
            if let Some(exp) = expected {
                let r = match fam.cmp {
                    Cmp::Multiset => if dfv::canon::multiset_eq(&o.rows, exp) { Ok(()) } else { Err(format!("multisets differ: {} rows vs {} rows without a limit", o.rows.len(), exp.len())) },
                    Cmp::ValidTopK { key, n, .. } => valid_topk(&o.rows, exp, key, n),
                };
                if let Err(d) = r {
                    rep.violation(&format!("wrong-result-under-memory-limit/{}", fam.name), witness(ds, dcfg, fam, k, Some(&o), expected, &d));
                }
            }
        }
        None => {
            rep.count("dropped-midway", 1);
            if o.after.disk_used == 0 && o.spills > 0 {
                rep.count("dropped-midway-after-spilling", 1);
            }
        }
    }
    // 2. release
    if o.after.reserved != 0 {
        rep.violation(&format!("memory-reserved-after-finish/{}", fam.name), witness(ds, dcfg, fam, k, Some(&o), expected, &format!("pool.reserved() = {} after the stream was finished / dropped", o.after.reserved)));
    }
    if o.after.disk_used != 0 {
        rep.violation(&format!("disk-used-after-finish/{}", fam.name), witness(ds, dcfg, fam, k, Some(&o), expected, &format!("used_disk_space() = {} after the stream was finished / dropped", o.after.disk_used)));
    }
    if o.after.spill_files != 0 {
        rep.violation(&format!("spill-files-after-finish/{}", fam.name), witness(ds, dcfg, fam, k, Some(&o), expected, &format!("{} files left in the spill directories", o.after.spill_files)));
    }
    if rep.want_sample() && o.spills > 1 && o.error.is_none() && o.finished {
        rep.sample(json!({"family": fam.name, "sql": fam.sql, "knobs": k.to_json(), "rows": o.rows.len(), "spill_count": o.spills, "spilled_bytes": o.spilled_bytes, "unlimited_peak": oracle.peaks.get(fam.name)}));
    }
}

const CODECS: [&str; 3] = ["uncompressed", "lz4_frame", "zstd"];

fn run(args: &Args) -> i32 {
    let rep = Report::new("C18", "exploration", args);
    rep.set_rule("case = (query family over generated wide-string tables served by ChaosTables, memory limit = fraction of the family's measured unlimited peak, pool policy, spill codec, sort_spill_reservation_bytes, max_spill_file_size_bytes, merge fan-in, batch size, optional mid-way drop, seeded source noise) on the VTQ runtime; distinct = hash(family, knobs, dataset); non-trivial = the limit is below the unlimited peak and the run spilled, had a reservation refused, or failed");
    rep.assume("oracle = the same query on the same engine with an unbounded pool (its own correctness is C01's subject)");
    rep.assume("spill directories are private per case (DiskManagerMode::Directories below a fresh temp dir), so any file found there belongs to the case");
    let selftest = args.opt_u64("selftest", 0);
    let only = args.opt_str("only");
    let fams: Vec<Family> = families().into_iter().filter(|f| only.is_none_or(|o| o == f.name)).collect();
    let dcfg = DatasetCfg { rows1: args.bound("rows", 700, 5000) as usize, rows2: args.bound("rows", 700, 5000) as usize / 2, rows_s: args.bound("rows", 700, 5000) as usize / 2, nkeys: 37, width: 96, max_batch: 48, files: false, rows_b: 8, width_b: 8, max_batch_b: 8 };
    let ds0 = Dataset::new(0xC18, &dcfg);
    let base_knobs = Knobs { limit: None, fair: false, codec: "uncompressed", sort_spill_reservation: 0, max_spill_file: None, fan_in: None, batch_size: 64, drop_after: None, noise: Noise::none() };

    // unlimited runs: oracle answers + peaks (per dataset)
    let build_oracle = |ds: &Dataset| -> Oracle {
        let answers = std::sync::Mutex::new(HashMap::new());
        let peaks = std::sync::Mutex::new(HashMap::new());
        let mut todo: Vec<(String, Family, bool)> = vec![];
        for f in &fams {
            todo.push((f.sql.to_string(), f.clone(), true));
            if let Cmp::ValidTopK { of, .. } = f.cmp {
                todo.push((of.to_string(), Family { sql: of, cmp: Cmp::Multiset, ..f.clone() }, false));
            }
        }
        vcommon::par::run(args.workers, todo.into_iter(), |(sql, f, is_family)| match run_vtq(|| run_one(ds, &f, &base_knobs)) {
            RunOutcome::Done(Ok(o)) if o.error.is_none() && o.finished => {
                if is_family {
                    peaks.lock().unwrap().insert(f.name, o.peak);
                }
                answers.lock().unwrap().insert(sql, o.rows);
            }
            RunOutcome::Done(Ok(o)) => rep.skip(&format!("unlimited run of {} fails: {}", f.name, o.error.map(|e| e.to_string()).unwrap_or_default().chars().take(100).collect::<String>())),
            RunOutcome::Done(Err(e)) => rep.skip(&format!("unlimited run of {} cannot be set up: {}", f.name, e.chars().take(100).collect::<String>())),
            _ => rep.skip(&format!("unlimited run of {} did not finish", f.name)),
        });
        Oracle { answers: answers.into_inner().unwrap(), peaks: peaks.into_inner().unwrap() }
    };
    let oracle0 = build_oracle(&ds0);
    for (f, p) in &oracle0.peaks {
        rep.count(&format!("unlimited_peak_bytes:{f}"), *p);
    }

    // systematic sweep
    let mut cases: Vec<(Family, Knobs)> = vec![];
    for f in &fams {
        let Some(&peak) = oracle0.peaks.get(f.name) else { continue };
        let mut limits = vec![];
        let mut l = (peak as usize).max(2048) * 2;
        while l >= 1024 {
            limits.push(l);
            l /= 2;
        }
        for (i, l) in limits.iter().enumerate() {
            for fair in [false, true] {
                // all three codecs where spilling is plausible (limit >= peak/16), one rotating codec below
                let codecs: Vec<usize> = if i <= 5 { vec![0, 1, 2] } else { vec![i % 3] };
                for c in codecs {
                    let j = (i * 2 + fair as usize) * 3 + c;
                    cases.push((
                        f.clone(),
                        Knobs {
                            limit: Some(*l),
                            fair,
                            codec: CODECS[c],
                            sort_spill_reservation: [*l / 4, 0, *l / 8, *l / 2, 1024, *l / 16][j % 6],
                            max_spill_file: [None, Some(4096), None, Some(64 * 1024), None, None, Some(1024)][j % 7],
                            fan_in: [None, Some(2), None, Some(4), None, None, Some(3)][(j / 3) % 7],
                            batch_size: [64, 16, 256][(j / 2) % 3],
                            drop_after: if j % 8 == 5 { Some(1 + j % 4) } else { None },
                            noise: if j % 2 == 1 { Noise::seeded(j as u64) } else { Noise::none() },
                        },
                    ));
                }
            }
        }
    }
    rep.extra("systematic_cases", json!(cases.len()));
    vcommon::par::run(args.workers, cases.into_iter(), |(f, k)| check(&rep, &ds0, &dcfg, &oracle0, &f, &k, selftest));

    // seeded random tail on a seed-dependent dataset
    let n_rand = args.bound("random", 360, 12_000);
    if only.is_none() {
        let dcfg1 = DatasetCfg { rows1: 200 + (args.seed as usize * 131) % 1200, rows2: 150 + (args.seed as usize * 71) % 500, rows_s: 150 + (args.seed as usize * 31) % 500, nkeys: 5 + (args.seed as i64 * 7) % 60, width: 40 + (args.seed as usize * 53) % 200, max_batch: 8 + (args.seed as usize * 17) % 100, files: false, rows_b: 8, width_b: 8, max_batch_b: 8 };
        let ds1 = Dataset::new(args.seed, &dcfg1);
        let oracle1 = build_oracle(&ds1);
        vcommon::par::run(args.workers, 0..n_rand, |i| {
            if !rep.within_budget(70.0) {
                return;
            }
            let mut rng = Rng::derive(args.seed, &[18, i]);
            let f = rng.pick(&fams).clone();
            let Some(&peak) = oracle1.peaks.get(f.name) else { return };
            let frac = [2.0, 1.0, 0.75, 0.5, 0.35, 0.25, 0.12, 0.06, 0.03, 0.01][rng.usize(10)];
            let limit = ((peak as f64 * frac) as usize).max(1024);
            let k = Knobs {
                limit: Some(limit),
                fair: rng.bool(),
                codec: CODECS[rng.usize(3)],
                sort_spill_reservation: [0, limit / 2, limit / 4, limit / 4, limit / 8, 4096, 10 * 1024 * 1024][rng.usize(7)],
                max_spill_file: [None, None, Some(1024), Some(16 * 1024), Some(1 << 20)][rng.usize(5)],
                fan_in: [None, None, Some(2), Some(3), Some(8)][rng.usize(5)],
                batch_size: [8, 32, 64, 512, 8192][rng.usize(5)],
                drop_after: if rng.chance(1, 6) { Some(rng.usize(6)) } else { None },
                noise: if rng.bool() { Noise::seeded(rng.next_u64()) } else { Noise::none() },
            };
            check(&rep, &ds1, &dcfg1, &oracle1, &f, &k, 0);
        });
    }

    if only.is_none() {
        let mut failing_families = 0;
        for f in families() {
            let ok = rep.get_count(&format!("succeeded:{}", f.name));
            rep.obligation(&format!("succeeds:{}", f.name), ok >= 2, "the family must succeed under some finite limits");
            if f.must_spill {
                let sp = rep.get_count(&format!("succeeded-with-spill:{}", f.name));
                rep.obligation(&format!("spilled-success:{}", f.name), sp >= 1, "at least one successful run that spilled (spill_count metric > 0), so the check cannot pass by always failing");
            }
            if rep.get_count(&format!("failed-cleanly:{}", f.name)) >= 1 {
                failing_families += 1;
            }
        }
        rep.obligation("clean-failures", failing_families >= 8, &format!("limits must be small enough to make most families fail with ResourcesExhausted (seen in {failing_families} families)"));
        rep.obligation("codecs", rep.seen_count("codecs") == 3 && CODECS.iter().all(|c| rep.get_count(&format!("succeeded-with-spill:{c}")) >= 1), "every spill codec must be used by a successful spilled run");
        rep.obligation("pools", rep.get_count("succeeded-with-spill:fair") >= 1 && rep.get_count("succeeded-with-spill:greedy") >= 1, "both pool policies must see successful spilled runs");
        rep.obligation("dropped-midway", rep.get_count("dropped-midway") >= 5, "streams dropped before completion");
    }
    rep.finish()
}

fn main() {
    let args = Args::parse();
    vcommon::par::quiet_panics();
    std::process::exit(run(&args));
}
