//! C47 — mixed-type comparisons are order-independent and exact for integers.
//!
//! For every pair of column types accepted by `comparison_coercion`: a typed MemTable with the
//! cross product of boundary values; the six comparisons evaluated through SQL as projection
//! (`a op b` and the mirrored `b op' a`), as filter, as IN list (column list and literal list), as
//! literal comparison (cast-unwrapping path) and as hash / sort-merge equi-join keys.
//! Oracles: mirror symmetry (all pairs); IN / join / filter / literal agree with the pairwise
//! projection; for integer/decimal pairs the mathematically exact answer.

use arrow::array::{ArrayRef, Int32Array};
use arrow::datatypes::{DataType, Field, Schema, TimeUnit};
use arrow::record_batch::RecordBatch;
use datafusion::datasource::MemTable;
use datafusion::prelude::*;
use datafusion_expr_common::type_coercion::binary::comparison_coercion;
use dfv::engine::current_thread_rt;
use dfv::exprgen::{V, cell_v, lit_v, make_array};
use std::cmp::Ordering;
use std::collections::{BTreeMap, BTreeSet};
use std::sync::Arc;
use vcommon::{Args, Json, Report, fp_mix, fp_str, json};

const OPS: [&str; 6] = ["=", "<>", "<", "<=", ">", ">="];
const MIRROR: [&str; 6] = ["=", "<>", ">", ">=", "<", "<="];

fn dict(k: DataType, v: DataType) -> DataType {
    DataType::Dictionary(Box::new(k), Box::new(v))
}

fn types() -> Vec<DataType> {
    vec![
        DataType::Int8,
        DataType::Int16,
        DataType::Int32,
        DataType::Int64,
        DataType::UInt8,
        DataType::UInt16,
        DataType::UInt32,
        DataType::UInt64,
        DataType::Float32,
        DataType::Float64,
        DataType::Decimal128(38, 0),
        DataType::Decimal128(20, 0),
        DataType::Decimal128(10, 2),
        DataType::Decimal128(38, 10),
        DataType::Decimal128(3, 0),
        DataType::Decimal128(38, 37),
        DataType::Date32,
        DataType::Date64,
        DataType::Timestamp(TimeUnit::Second, None),
        DataType::Timestamp(TimeUnit::Millisecond, None),
        DataType::Timestamp(TimeUnit::Microsecond, None),
        DataType::Timestamp(TimeUnit::Nanosecond, None),
        DataType::Utf8,
        DataType::Utf8View,
        DataType::LargeUtf8,
        dict(DataType::Int32, DataType::Utf8),
        dict(DataType::Int32, DataType::Int64),
        dict(DataType::Int8, DataType::UInt64),
    ]
}

fn int_bounds(dt: &DataType) -> Option<(i128, i128)> {
    Some(match dt {
        DataType::Int8 => (i8::MIN as i128, i8::MAX as i128),
        DataType::Int16 => (i16::MIN as i128, i16::MAX as i128),
        DataType::Int32 => (i32::MIN as i128, i32::MAX as i128),
        DataType::Int64 => (i64::MIN as i128, i64::MAX as i128),
        DataType::UInt8 => (0, u8::MAX as i128),
        DataType::UInt16 => (0, u16::MAX as i128),
        DataType::UInt32 => (0, u32::MAX as i128),
        DataType::UInt64 => (0, u64::MAX as i128),
        _ => return None,
    })
}

/// boundary values of a type (non-null), at most ~12
fn values(dt: &DataType) -> Vec<V> {
    const P53: i128 = 1 << 53;
    const P63: i128 = 1 << 63;
    match dt {
        t if int_bounds(t).is_some() => {
            let (lo, hi) = int_bounds(t).unwrap();
            let mut v = vec![lo, lo + 1, -1, 0, 1, hi - 1, hi];
            for x in [P53 - 1, P53, P53 + 1, P63 - 1, P63, P63 + 1, -P53 - 1, 255, 256, 1 << 31] {
                if v.len() < 12 && x > lo && x < hi && !v.contains(&x) {
                    v.push(x);
                }
            }
            v.retain(|x| *x >= lo && *x <= hi);
            v.sort();
            v.dedup();
            v.into_iter().map(V::I).collect()
        }
        DataType::Float32 => [f64::NEG_INFINITY, -1.5, -1.0, -0.0, 0.0, 1.0, 16777216.0, 2147483648.0, 9223372036854775808.0, f64::INFINITY, f64::NAN].iter().map(|f| V::F(*f)).collect(),
        DataType::Float64 => [f64::NEG_INFINITY, -1.5, -1.0, -0.0, 0.0, 1.0, 9007199254740992.0, 9007199254740994.0, 9223372036854775808.0, 18446744073709551616.0, f64::INFINITY, f64::NAN]
            .iter()
            .map(|f| V::F(*f))
            .collect(),
        DataType::Decimal128(p, s) => {
            let max = 10i128.pow(*p as u32) - 1;
            let one = 10i128.pow(*s as u32);
            let mut v = vec![-max, -one, -1, 0, 1, one, one + 1, max];
            for x in [P53 - 1, P53 + 1, P63 - 1, P63, u64::MAX as i128, 127, 128, 255] {
                if let Some(y) = x.checked_mul(one) {
                    if y < max && v.len() < 13 {
                        v.push(y);
                    }
                }
            }
            v.sort();
            v.dedup();
            v.into_iter().map(V::I).collect()
        }
        DataType::Date32 => [-1i128, 0, 1, 19723, 19724, 106751, 106752, -106752].iter().map(|x| V::I(*x)).collect(),
        DataType::Date64 => [-1i128, 0, 1, 86_400_000, 19723 * 86_400_000, 19723 * 86_400_000 + 1, 19724 * 86_400_000].iter().map(|x| V::I(*x)).collect(),
        DataType::Timestamp(TimeUnit::Second, _) => [-1i128, 0, 1, 1_704_067_200, 1_704_067_201, 1_704_153_600, 9_223_372_036, 9_223_372_037].iter().map(|x| V::I(*x)).collect(),
        DataType::Timestamp(TimeUnit::Millisecond, _) => [-1i128, 0, 1, 1_704_067_200_000, 1_704_067_200_001, 1_704_067_199_999, 1_704_153_600_000, 9_223_372_036_854, 9_223_372_036_855].iter().map(|x| V::I(*x)).collect(),
        DataType::Timestamp(TimeUnit::Microsecond, _) => [-1i128, 0, 1, 1_704_067_200_000_000, 1_704_067_200_000_001, 1_704_067_199_999_999, 1_704_153_600_000_000, 9_223_372_036_854_775, 9_223_372_036_854_776].iter().map(|x| V::I(*x)).collect(),
        DataType::Timestamp(TimeUnit::Nanosecond, _) => {
            [-1i128, 0, 1, 1_704_067_200_000_000_000, 1_704_067_200_000_000_001, 1_704_067_199_999_999_999, 1_704_153_600_000_000_000, i64::MAX as i128, i64::MIN as i128 + 1].iter().map(|x| V::I(*x)).collect()
        }
        DataType::Utf8 | DataType::Utf8View | DataType::LargeUtf8 => {
            ["", "a", "A", "ab", "1", "01", "10", "9", "-1", "1.0", "2024-01-01", "2024-01-01T00:00:00", "abc"].iter().map(|s| V::S(s.to_string())).collect()
        }
        DataType::Dictionary(_, v) => {
            let mut x = values(v);
            x.truncate(10);
            x
        }
        other => panic!("harness: no values for {other}"),
    }
}

/// a seeded random non-boundary value of the type
fn random_value(dt: &DataType, rng: &mut vcommon::Rng) -> V {
    match dt {
        t if int_bounds(t).is_some() => {
            let (lo, hi) = int_bounds(t).unwrap();
            let span = (hi - lo) as u128 + 1;
            V::I(lo + ((rng.next_u64() as u128 * 0x1_0000_0001u128 + rng.next_u64() as u128) % span) as i128)
        }
        DataType::Float32 => V::F((rng.range(-1_000_000, 1_000_000) as f32 / 8.0) as f64),
        DataType::Float64 => V::F(rng.range(-1_000_000_000_000, 1_000_000_000_000) as f64 / 64.0),
        DataType::Decimal128(p, _) => {
            let max = 10i128.pow((*p).min(30) as u32) - 1;
            let raw: i128 = (((rng.next_u64() as i128) << 32) | ((rng.next_u64() as i128) & 0xffff_ffff)) % max;
            V::I(if rng.bool() { raw } else { -raw })
        }
        DataType::Date32 => V::I(rng.range(-30_000, 60_000) as i128),
        DataType::Date64 => V::I(rng.range(-30_000, 60_000) as i128 * 86_400_000 + rng.range(0, 86_399_999) as i128),
        DataType::Timestamp(TimeUnit::Second, _) => V::I(rng.range(-2_000_000_000, 4_000_000_000) as i128),
        DataType::Timestamp(TimeUnit::Millisecond, _) => V::I(rng.range(-2_000_000_000_000, 4_000_000_000_000) as i128),
        DataType::Timestamp(TimeUnit::Microsecond, _) => V::I(rng.range(-2_000_000_000_000_000, 4_000_000_000_000_000) as i128),
        DataType::Timestamp(TimeUnit::Nanosecond, _) => V::I(rng.range(-2_000_000_000_000_000_000, 4_000_000_000_000_000_000) as i128),
        DataType::Utf8 | DataType::Utf8View | DataType::LargeUtf8 => {
            let n = 1 + rng.usize(4);
            V::S((0..n).map(|_| *rng.pick(&['0', '1', '9', '-', '.', 'a', 'Z'])).collect())
        }
        DataType::Dictionary(_, v) => random_value(v, rng),
        other => panic!("harness: no random value for {other}"),
    }
}

/// exact rational value (unscaled, scale) of an integer / decimal cell
fn exact(dt: &DataType, v: &V) -> Option<(i128, u32)> {
    let dt = match dt {
        DataType::Dictionary(_, i) => i.as_ref(),
        o => o,
    };
    match (dt, v) {
        (t, V::I(i)) if int_bounds(t).is_some() => Some((*i, 0)),
        (DataType::Decimal128(_, s), V::I(i)) if *s >= 0 => Some((*i, *s as u32)),
        _ => None,
    }
}

/// compare v1/10^s1 with v2/10^s2 without overflow
fn cmp_exact(a: (i128, u32), b: (i128, u32)) -> Ordering {
    let split = |(v, s): (i128, u32)| {
        let m = 10i128.pow(s);
        (v.div_euclid(m), v.rem_euclid(m), s)
    };
    let (q1, r1, s1) = split(a);
    let (q2, r2, s2) = split(b);
    if q1 != q2 {
        return q1.cmp(&q2);
    }
    let s = s1.max(s2);
    (r1 * 10i128.pow(s - s1)).cmp(&(r2 * 10i128.pow(s - s2)))
}

fn is_exact_type(dt: &DataType) -> bool {
    let dt = match dt {
        DataType::Dictionary(_, i) => i.as_ref(),
        o => o,
    };
    int_bounds(dt).is_some() || matches!(dt, DataType::Decimal128(_, s) if *s >= 0)
}

fn involves_float_dt(dt: &DataType) -> bool {
    matches!(dt, DataType::Float16 | DataType::Float32 | DataType::Float64)
}

fn tname(dt: &DataType) -> String {
    dt.to_string().replace(' ', "")
}

fn op_result(o: Ordering, op: &str) -> bool {
    match op {
        "=" => o == Ordering::Equal,
        "<>" => o != Ordering::Equal,
        "<" => o == Ordering::Less,
        "<=" => o != Ordering::Greater,
        ">" => o == Ordering::Greater,
        _ => o != Ordering::Less,
    }
}

struct Pair {
    a: DataType,
    b: DataType,
    av: Vec<V>, // with a trailing NULL
    bv: Vec<V>,
}

impl Pair {
    fn id(&self, ai: usize, bi: usize) -> usize {
        ai * self.bv.len() + bi
    }
    /// `swapped = false`: t(id, ai, bi, a:A, b:B, a2:A, b2:B); `swapped = true`: the mirror table u with the
    /// value columns exchanged (u.a = t.b, u.b = t.a, u.a2 = t.b2, u.b2 = t.a2), same id / ai / bi.
    fn table(&self, swapped: bool) -> RecordBatch {
        let (mut ids, mut ais, mut bis, mut a, mut b, mut a2, mut b2) = (vec![], vec![], vec![], vec![], vec![], vec![], vec![]);
        for ai in 0..self.av.len() {
            for bi in 0..self.bv.len() {
                ids.push(self.id(ai, bi) as i32);
                ais.push(ai as i32);
                bis.push(bi as i32);
                a.push(self.av[ai].clone());
                b.push(self.bv[bi].clone());
                a2.push(self.av[self.a2(ai, bi)].clone());
                b2.push(self.bv[self.b2(ai, bi)].clone());
            }
        }
        let (ta, tb) = if swapped { (&self.b, &self.a) } else { (&self.a, &self.b) };
        let schema = Arc::new(Schema::new(vec![
            Field::new("id", DataType::Int32, false),
            Field::new("ai", DataType::Int32, false),
            Field::new("bi", DataType::Int32, false),
            Field::new("a", ta.clone(), true),
            Field::new("b", tb.clone(), true),
            Field::new("a2", ta.clone(), true),
            Field::new("b2", tb.clone(), true),
        ]));
        let (ca, cb, ca2, cb2) = (make_array(&self.a, &a), make_array(&self.b, &b), make_array(&self.a, &a2), make_array(&self.b, &b2));
        let cols: Vec<ArrayRef> = if swapped {
            vec![Arc::new(Int32Array::from(ids)), Arc::new(Int32Array::from(ais)), Arc::new(Int32Array::from(bis)), cb, ca, cb2, ca2]
        } else {
            vec![Arc::new(Int32Array::from(ids)), Arc::new(Int32Array::from(ais)), Arc::new(Int32Array::from(bis)), ca, cb, ca2, cb2]
        };
        RecordBatch::try_new(schema, cols).expect("harness table")
    }
    /// index of the second list element used in `b IN (a, a2)` / `a IN (b, b2)`
    fn a2(&self, ai: usize, bi: usize) -> usize {
        (ai + bi + 1) % self.av.len()
    }
    fn b2(&self, ai: usize, bi: usize) -> usize {
        (ai * 3 + bi + 2) % self.bv.len()
    }
    fn side(&self, name: &str, dt: &DataType, vals: &[V], idx: &str) -> RecordBatch {
        let schema = Arc::new(Schema::new(vec![Field::new(idx, DataType::Int32, false), Field::new(name, dt.clone(), true)]));
        RecordBatch::try_new(schema, vec![Arc::new(Int32Array::from((0..vals.len() as i32).collect::<Vec<_>>())), make_array(dt, vals)]).expect("harness side table")
    }
}

fn new_ctx(prefer_hash_join: bool) -> SessionContext {
    let mut cfg = SessionConfig::new().with_target_partitions(2).with_batch_size(64).with_information_schema(false);
    cfg.options_mut().optimizer.prefer_hash_join = prefer_hash_join;
    SessionContext::new_with_config(cfg)
}

fn register(ctx: &SessionContext, name: &str, batch: RecordBatch) {
    // two batches so that operators see a batch boundary
    let n = batch.num_rows();
    let parts = if n >= 4 { vec![batch.slice(0, n / 2), batch.slice(n / 2, n - n / 2)] } else { vec![batch.clone()] };
    let mt = MemTable::try_new(batch.schema(), vec![parts]).expect("memtable");
    ctx.register_table(name, Arc::new(mt)).expect("register");
}

type Tri = Option<bool>;

fn tri(v: &V) -> Tri {
    match v {
        V::B(b) => Some(*b),
        _ => None,
    }
}

fn or3(a: Tri, b: Tri) -> Tri {
    match (a, b) {
        (Some(true), _) | (_, Some(true)) => Some(true),
        (Some(false), Some(false)) => Some(false),
        _ => None,
    }
}

fn not3(a: Tri) -> Tri {
    a.map(|x| !x)
}

async fn collect_rows(df: DataFrame) -> Result<Vec<Vec<V>>, String> {
    let batches = df.collect().await.map_err(|e| e.to_string())?;
    let mut out = vec![];
    for b in &batches {
        for i in 0..b.num_rows() {
            out.push((0..b.num_columns()).map(|c| cell_v(b.column(c).as_ref(), i)).collect());
        }
    }
    Ok(out)
}

async fn sql_rows(ctx: &SessionContext, sql: &str) -> Result<Vec<Vec<V>>, String> {
    let df = ctx.sql(sql).await.map_err(|e| e.to_string())?;
    collect_rows(df).await
}

fn vjson(v: &V) -> Json {
    v.to_json()
}

fn corrupt(selftest: bool, salt: usize, t: Tri) -> Tri {
    if selftest && salt % 97 == 13 {
        match t {
            Some(b) => Some(!b),
            None => Some(true),
        }
    } else {
        t
    }
}

/// `SELECT id, a OP b .., a = b2 FROM <table>`: id -> 7 results; cells that raise are localised one by one
async fn projection(ctx: &SessionContext, table: &str, ops: &[&str; 6], p: &Pair, errors: &mut Vec<(usize, usize)>, first_error: &mut Option<String>) -> Result<BTreeMap<usize, Vec<Tri>>, String> {
    let select = ops.iter().map(|op| format!("a {op} b")).collect::<Vec<_>>().join(", ");
    let mut out = BTreeMap::new();
    let take = |rows: Vec<Vec<V>>, out: &mut BTreeMap<usize, Vec<Tri>>| {
        for r in rows {
            if let V::I(id) = r[0] {
                out.insert(id as usize, r[1..].iter().map(tri).collect());
            }
        }
    };
    match sql_rows(ctx, &format!("SELECT id, {select} FROM {table}")).await {
        Ok(rows) => take(rows, &mut out),
        Err(first) => {
            if first.contains("Error during planning") || first.contains("Cannot infer common") || first.contains("type_coercion") {
                return Err(first);
            }
            if first_error.is_none() {
                *first_error = Some(first);
            }
            // localise: per a-value, then per cell inside the a-values that still raise
            for ai in 0..p.av.len() {
                match sql_rows(ctx, &format!("SELECT id, {select} FROM {table} WHERE ai = {ai}")).await {
                    Ok(rows) => take(rows, &mut out),
                    Err(_) => {
                        for bi in 0..p.bv.len() {
                            match sql_rows(ctx, &format!("SELECT id, {select} FROM {table} WHERE ai = {ai} AND bi = {bi}")).await {
                                Ok(rows) => take(rows, &mut out),
                                Err(_) => errors.push((ai, bi)),
                            }
                        }
                    }
                }
            }
        }
    }
    Ok(out)
}

/// at most 2 kept witnesses per signature (the report keeps 25 in total); every occurrence is counted
fn violate(rep: &Report, sig: &str, w: Json) {
    let key = format!("violations_by_signature/{sig}");
    if rep.get_count(&key) < 2 {
        rep.violation(sig, w);
    } else {
        rep.count("violations_not_kept(same signature)", 1);
    }
    rep.count(&key, 1);
}

fn is_temporal(dt: &DataType) -> bool {
    matches!(dt, DataType::Date32 | DataType::Date64 | DataType::Timestamp(_, _))
}

/// Returns a reduced pair (values whose comparison raises removed) when the caller should re-run.
async fn check_pair(rep: &Report, p: &Pair, selftest: bool, pair_no: usize, reduced: bool) -> Option<Pair> {
    let (ta, tb) = (tname(&p.a), tname(&p.b));
    let pair_label = format!("{ta}~{tb}");
    let base = |ai: usize, bi: usize| json!({"a_type": ta, "b_type": tb, "a": vjson(&p.av[ai]), "b": vjson(&p.bv[bi])});
    let ctx = new_ctx(true);
    register(&ctx, "t", p.table(false));
    register(&ctx, "u", p.table(true));
    register(&ctx, "ta", p.side("a", &p.a, &p.av, "ai"));
    register(&ctx, "tb", p.side("b", &p.b, &p.bv, "bi"));

    // ---- projection on t (`a op b`) and on the mirror table u (`a op' b` there is `b op' a` here)
    let mut errors: Vec<(usize, usize)> = vec![];
    let mut first_error = None;
    let rt_ = projection(&ctx, "t", &OPS, p, &mut errors, &mut first_error).await;
    let ru_ = projection(&ctx, "u", &MIRROR, p, &mut errors, &mut first_error).await;
    let (pt, pu) = match (rt_, ru_) {
        (Ok(a), Ok(b)) => (a, b),
        (Err(e), _) | (_, Err(e)) => {
            rep.skip("sql-planner-rejects-pair");
            rep.seen("planner_rejected_pairs", &format!("{pair_label}: {}", e.chars().take(120).collect::<String>()));
            rep.case(fp_str(&pair_label), false);
            return None;
        }
    };
    if !errors.is_empty() {
        errors.sort();
        errors.dedup();
        rep.count("value_pairs_skipped_comparison_raises_error", errors.len() as u64);
        if !reduced {
            rep.count("pairs_with_erroring_value_pairs", 1);
            if rep.get_count("error_samples") < 10 {
                rep.count("error_samples", 1);
                rep.extra(&format!("error_sample_{}", rep.get_count("error_samples")), json!({"pair": pair_label, "error": first_error.clone().unwrap_or_default().chars().take(240).collect::<String>()}));
            }
            // greedy: drop the value with the most erroring partners until no erroring pair is left
            let (mut keep_a, mut keep_b): (Vec<bool>, Vec<bool>) = (vec![true; p.av.len()], vec![true; p.bv.len()]);
            let mut left = errors.clone();
            while !left.is_empty() {
                let (mut ca, mut cb) = (vec![0usize; p.av.len()], vec![0usize; p.bv.len()]);
                for (x, y) in &left {
                    ca[*x] += 1;
                    cb[*y] += 1;
                }
                let (ma, mb) = (ca.iter().enumerate().max_by_key(|(_, c)| **c).unwrap(), cb.iter().enumerate().max_by_key(|(_, c)| **c).unwrap());
                if ma.1 >= mb.1 {
                    keep_a[ma.0] = false;
                } else {
                    keep_b[mb.0] = false;
                }
                left.retain(|(x, y)| keep_a[*x] && keep_b[*y]);
            }
            let av: Vec<V> = p.av.iter().enumerate().filter(|(i, _)| keep_a[*i]).map(|(_, v)| v.clone()).collect();
            let bv: Vec<V> = p.bv.iter().enumerate().filter(|(i, _)| keep_b[*i]).map(|(_, v)| v.clone()).collect();
            if av.len() >= 2 && bv.len() >= 2 {
                return Some(Pair { a: p.a.clone(), b: p.b.clone(), av, bv });
            }
        }
    }
    let complete = errors.is_empty();
    // id -> [a op b ; 6] ++ [b op' a ; 6]
    let mut proj: BTreeMap<usize, Vec<Tri>> = BTreeMap::new();
    for (id, r) in &pt {
        if let Some(m) = pu.get(id) {
            let mut v: Vec<Tri> = r[..6].to_vec();
            v.extend_from_slice(&m[..6]);
            proj.insert(*id, v);
        }
    }
    let mut compared = 0u64;
    let exact_pair = is_exact_type(&p.a) && is_exact_type(&p.b);

    // ---- (i) mirror symmetry, (iii) exactness
    'rows: for ai in 0..p.av.len() {
        for bi in 0..p.bv.len() {
            let Some(r) = proj.get(&p.id(ai, bi)) else { continue };
            for k in 0..6 {
                let direct = corrupt(selftest, pair_no * 131 + ai * 17 + bi * 5 + k, r[k]);
                let mirrored = r[6 + k];
                compared += 1;
                if direct != mirrored {
                    violate(rep, 
                        &format!("mirror-asymmetry/{}", OPS[k]),
                        json!({"pair": base(ai, bi), "expr": format!("a {} b", OPS[k]), "value": direct, "mirrored_expr": format!("b {} a", MIRROR[k]), "mirrored_value": mirrored,
                               "coercion_ab": comparison_coercion(&p.a, &p.b).map(|t| t.to_string()), "coercion_ba": comparison_coercion(&p.b, &p.a).map(|t| t.to_string())}),
                    );
                    break 'rows;
                }
                if exact_pair {
                    let expected: Tri = match (exact(&p.a, &p.av[ai]), exact(&p.b, &p.bv[bi])) {
                        (Some(x), Some(y)) => Some(op_result(cmp_exact(x, y), OPS[k])),
                        _ => None,
                    };
                    if direct != expected {
                        let class = match (&p.a, &p.b) {
                            (DataType::Int64, DataType::UInt64) | (DataType::UInt64, DataType::Int64) => "int64-uint64-inexact".to_string(),
                            _ => format!("inexact/{ta}~{tb}"),
                        };
                        violate(rep, &format!("{class}/{}", OPS[k]), json!({"pair": base(ai, bi), "expr": format!("a {} b", OPS[k]), "engine": direct, "mathematically": expected, "coercion": comparison_coercion(&p.a, &p.b).map(|t| t.to_string())}));
                        break 'rows;
                    }
                    rep.count("exact_comparisons_checked", 1);
                }
            }
        }
    }
    rep.count("mirror_comparisons", compared);

    // pairwise lookup on value indices
    let pw = |ai: usize, bi: usize, k: usize| -> Tri { proj.get(&p.id(ai, bi)).and_then(|r| r[k]) };

    // ---- filter context
    if complete {
        let mut filters: Vec<(&str, String, usize)> = OPS.iter().enumerate().map(|(k, op)| ("t", format!("a {op} b"), k)).collect();
        for k in [0usize, 2, 5] {
            filters.push(("u", format!("a {} b", MIRROR[k]), 6 + k));
        }
        for (tbl, pred, k) in filters {
            match sql_rows(&ctx, &format!("SELECT id FROM {tbl} WHERE {pred}")).await {
                Ok(rows) => {
                    let got: BTreeSet<usize> = rows.iter().filter_map(|r| if let V::I(i) = r[0] { Some(i as usize) } else { None }).collect();
                    let want: BTreeSet<usize> = proj.iter().filter(|(_, r)| r[k] == Some(true)).map(|(id, _)| *id).collect();
                    compared += 1;
                    rep.count("filter_queries_compared", 1);
                    if got != want {
                        let id = got.symmetric_difference(&want).next().cloned().unwrap_or(0);
                        violate(rep, 
                            &format!("filter-disagrees-with-projection/{}", pred.split(' ').nth(1).unwrap_or("")),
                            json!({"pair": base(id / p.bv.len(), id % p.bv.len()), "table": if tbl == "t" { "t(a:A, b:B)" } else { "u(a:B, b:A) (mirror)" }, "predicate": pred, "row_in_filter_result": got.contains(&id), "projection_value": proj[&id][k]}),
                        );
                        break;
                    }
                }
                Err(_) => rep.count("filter_queries_raising_error", 1),
            }
        }
    }

    // ---- IN list with column elements: on t `a IN (b, b2)`, on u the same text is `b IN (a, a2)`
    let mut zero_reported = false;
    for (tbl, eq_k) in [("t", 0usize), ("u", 6)] {
        match sql_rows(&ctx, &format!("SELECT id, a IN (b, b2), a NOT IN (b, b2) FROM {tbl}")).await {
            Ok(rows) => {
                for r in rows {
                    let V::I(id) = r[0] else { continue };
                    let id = id as usize;
                    let Some(pr) = proj.get(&id) else { continue };
                    let (ai, bi) = (id / p.bv.len(), id % p.bv.len());
                    // the second element: on t it is b2 = bv[b2(ai,bi)] (cell (ai, b2)), on u it is a2 (cell (a2, bi), mirrored `=`)
                    let second: Tri = if tbl == "t" { proj.get(&p.id(ai, p.b2(ai, bi))).and_then(|r| r[0]) } else { proj.get(&p.id(p.a2(ai, bi), bi)).and_then(|r| r[6]) };
                    let second_known = if tbl == "t" { proj.contains_key(&p.id(ai, p.b2(ai, bi))) } else { proj.contains_key(&p.id(p.a2(ai, bi), bi)) };
                    if !second_known {
                        continue;
                    }
                    let exp = or3(pr[eq_k], second);
                    compared += 2;
                    rep.count("inlist_column_rows_compared", 1);
                    if tri(&r[1]) != exp || tri(&r[2]) != not3(exp) {
                        let zero = |v: &V| matches!(v, V::F(f) if *f == 0.0);
                        let zero_sign = zero(&p.av[ai]) || zero(&p.bv[bi]) || zero(&p.av[p.a2(ai, bi)]) || zero(&p.bv[p.b2(ai, bi)]);
                        if zero_sign && zero_reported {
                            continue;
                        }
                        zero_reported |= zero_sign;
                        violate(rep, 
                            if zero_sign { "inlist-float-zero-sign/column-list" } else { "inlist-disagrees-with-pairwise-eq/column-list" },
                            json!({"pair": base(ai, bi), "table": if tbl == "t" { "t(a:A, b:B)" } else { "u(a:B, b:A) (mirror)" }, "expr": "a IN (b, b2) / a NOT IN (b, b2)", "in": tri(&r[1]), "not_in": tri(&r[2]),
                                   "expected_in_from_pairwise_eq": exp, "a2": vjson(&p.av[p.a2(ai, bi)]), "b2": vjson(&p.bv[p.b2(ai, bi)]), "left = first": pr[eq_k], "left = second": second}),
                        );
                        if !zero_sign {
                            break;
                        }
                    }
                }
            }
            Err(_) => rep.count("inlist_column_queries_raising_error", 1),
        }
    }

    // ---- IN list with a literal list (static filter path) and literal comparisons (cast unwrapping)
    if complete {
        for (left, lt, lv, right_t, rv, a_left) in [("a", &p.a, &p.av, &p.b, &p.bv, true), ("b", &p.b, &p.bv, &p.a, &p.av, false)] {
            let tbl = if a_left { "ta" } else { "tb" };
            let idx = if a_left { "ai" } else { "bi" };
            let n_r = rv.len() - 1; // without the NULL
            let lits: Vec<Expr> = (0..n_r).map(|k| lit_v(right_t, &rv[k])).collect();
            // value of `left_li op right_ri` from the pairwise projection
            // (for the b-left direction the mirrored columns hold `b MIRROR[j] a`: pick j with MIRROR[j] == OPS[k])
            let lookup = |li: usize, ri: usize, k: usize| -> Tri {
                if a_left {
                    pw(li, ri, k)
                } else {
                    let j = MIRROR.iter().position(|m| *m == OPS[k]).unwrap();
                    pw(ri, li, 6 + j)
                }
            };
            let Ok(t) = ctx.table(tbl).await else { continue };
            match t.clone().select(vec![col(idx), col(left).in_list(lits.clone(), false), col(left).in_list(lits.clone(), true)]) {
                Ok(df) => match collect_rows(df).await {
                    Ok(rows) => {
                        for r in rows {
                            let V::I(li) = r[0] else { continue };
                            let li = li as usize;
                            let mut exp: Tri = Some(false);
                            for ri in 0..n_r {
                                exp = or3(exp, lookup(li, ri, 0));
                            }
                            if lv[li].is_null() {
                                exp = None;
                            }
                            compared += 2;
                            rep.count("inlist_literal_rows_compared", 1);
                            if tri(&r[1]) != exp || tri(&r[2]) != not3(exp) {
                                let zero = |v: &V| matches!(v, V::F(f) if *f == 0.0);
                                let zero_sign = zero(&lv[li]) || (involves_float_dt(lt) || involves_float_dt(right_t)) && (matches!(&lv[li], V::I(0)) || zero(&lv[li])) && rv[..n_r].iter().any(|x| zero(x) || matches!(x, V::I(0)));
                                if zero_sign && zero_reported {
                                    continue;
                                }
                                zero_reported |= zero_sign;
                                violate(rep, 
                                    if zero_sign {
                                        "inlist-float-zero-sign/literal-list"
                                    } else if is_temporal(lt) && is_temporal(right_t) {
                                        "temporal-literal-truncated-by-unwrap-cast/in-list"
                                    } else {
                                        "inlist-disagrees-with-pairwise-eq/literal-list"
                                    },
                                    json!({"left_type": tname(lt), "list_type": tname(right_t), "left_value": vjson(&lv[li]), "list": rv[..n_r].iter().map(vjson).collect::<Vec<_>>(),
                                           "in": tri(&r[1]), "not_in": tri(&r[2]), "expected_in_from_pairwise_eq": exp}),
                                );
                                if !zero_sign {
                                    break;
                                }
                            }
                        }
                    }
                    Err(_) => rep.count("inlist_literal_queries_raising_error", 1),
                },
                Err(_) => rep.count("inlist_literal_queries_rejected", 1),
            }
            let mut exprs = vec![col(idx)];
            let mut meta = vec![];
            for ri in 0..n_r {
                for k in 0..6usize {
                    let l = lits[ri].clone();
                    let e = match k {
                        0 => col(left).eq(l),
                        1 => col(left).not_eq(l),
                        2 => col(left).lt(l),
                        3 => col(left).lt_eq(l),
                        4 => col(left).gt(l),
                        _ => col(left).gt_eq(l),
                    };
                    exprs.push(e.alias(format!("c{ri}_{k}")));
                    meta.push((ri, k));
                }
            }
            match t.select(exprs) {
                Ok(df) => match collect_rows(df).await {
                    Ok(rows) => {
                        'lit: for r in rows {
                            let V::I(li) = r[0] else { continue };
                            let li = li as usize;
                            for (j, (ri, k)) in meta.iter().enumerate() {
                                let want = lookup(li, *ri, *k);
                                let got = tri(&r[1 + j]);
                                compared += 1;
                                if got != want {
                                    let cls = if is_temporal(lt) && is_temporal(right_t) {
                                        "temporal-literal-truncated-by-unwrap-cast"
                                    } else if (lt.is_integer() && is_temporal(right_t)) || (is_temporal(lt) && right_t.is_integer()) {
                                        "integer-vs-temporal-literal-unwrap-cast-unit-mismatch"
                                    } else {
                                        "literal-comparison-disagrees-with-column-comparison"
                                    };
                                    violate(rep, 
                                        &format!("{cls}/{}", OPS[*k]),
                                        json!({"left_type": tname(lt), "literal_type": tname(right_t), "left_value": vjson(&lv[li]), "literal": vjson(&rv[*ri]), "op": OPS[*k], "column_vs_literal": got, "column_vs_column": want}),
                                    );
                                    break 'lit;
                                }
                            }
                            rep.count("literal_rows_compared", 1);
                        }
                    }
                    Err(_) => rep.count("literal_queries_raising_error", 1),
                },
                Err(_) => rep.count("literal_queries_rejected", 1),
            }
        }
    }

    // ---- equi-joins: hash and sort-merge
    if complete {
        let want: BTreeSet<(usize, usize)> = (0..p.av.len()).flat_map(|ai| (0..p.bv.len()).map(move |bi| (ai, bi))).filter(|(ai, bi)| pw(*ai, *bi, 0) == Some(true)).collect();
        for hash in [true, false] {
            let jctx = new_ctx(hash);
            register(&jctx, "ta", p.side("a", &p.a, &p.av, "ai"));
            register(&jctx, "tb", p.side("b", &p.b, &p.bv, "bi"));
            for on in ["a = b", "b = a"] {
                let sql = format!("SELECT ai, bi FROM ta JOIN tb ON {on}");
                match sql_rows(&jctx, &sql).await {
                    Ok(rows) => {
                        let got: BTreeSet<(usize, usize)> = rows.iter().filter_map(|r| if let (V::I(x), V::I(y)) = (&r[0], &r[1]) { Some((*x as usize, *y as usize)) } else { None }).collect();
                        compared += 1;
                        rep.count(if hash { "hash_joins_compared" } else { "sort_merge_joins_compared" }, 1);
                        if rows.len() != got.len() || got != want {
                            let d = got.symmetric_difference(&want).next().cloned().unwrap_or((0, 0));
                            violate(rep, 
                                &format!("join-disagrees-with-pairwise-eq/{}", if hash { "hash" } else { "sort-merge" }),
                                json!({"pair": base(d.0, d.1), "sql": sql, "prefer_hash_join": hash, "pair_in_join_result": got.contains(&d), "a = b (projection)": pw(d.0, d.1, 0), "join_rows": rows.len(), "expected_rows": want.len()}),
                            );
                        }
                    }
                    Err(_) => rep.count("join_queries_raising_error", 1),
                }
            }
        }
    }
    rep.count("comparisons", compared);
    rep.seen("type_pairs", &pair_label);
    rep.case(fp_mix(fp_str(&ta), fp_str(&tb)), compared > 0);
    None
}

fn run(args: &Args) -> i32 {
    let rep = Report::new("C47", "exploration", args);
    rep.set_rule(
        "case = one unordered pair of column types accepted by comparison_coercion x the cross product of their boundary values (+NULL), evaluated through SQL as projection in both operand orders, \
         filter, IN (column and literal lists), literal comparison and hash / sort-merge equi-join; distinct = the type pair; non-trivial = at least one comparison result was checked",
    );
    rep.assume("pairs involving floating point are checked for mirror symmetry and context agreement only");
    rep.assume("a comparison that raises an error (overflowing cast to the common type) is a skip; the erroring value pairs are localised and excluded");
    rep.assume("a differing common type for (A,B) and (B,A) is recorded as evidence; only differing answers or one-sided acceptance are violations");
    let selftest = args.opt_u64("selftest", 0) == 1;
    let ts = types();
    let only = args.opt_str("pair").map(|s| s.to_string());
    let mut pairs = vec![];
    for (i, a) in ts.iter().enumerate() {
        for b in ts.iter().skip(i) {
            let (ab, ba) = (comparison_coercion(a, b), comparison_coercion(b, a));
            let label = format!("{}~{}", tname(a), tname(b));
            if let Some(o) = &only {
                if &label != o {
                    continue;
                }
            }
            match (&ab, &ba) {
                (None, None) => {
                    rep.count("pairs_not_comparable", 1);
                    continue;
                }
                (Some(_), None) | (None, Some(_)) => {
                    rep.violation("coercion-acceptance-asymmetric", json!({"a_type": tname(a), "b_type": tname(b), "comparison_coercion(a,b)": ab.as_ref().map(|t| t.to_string()), "comparison_coercion(b,a)": ba.as_ref().map(|t| t.to_string())}));
                    continue;
                }
                (Some(x), Some(y)) => {
                    rep.count("pairs_accepted", 1);
                    if x != y {
                        rep.count("pairs_with_order_dependent_common_type", 1);
                        rep.seen("order_dependent_common_type", &format!("{label}: {x} vs {y}"));
                    }
                    rep.seen("common_types", &x.to_string());
                }
            }
            // boundary grid + 2 seeded random values per side (the seed-dependent part of the workload)
            let mut av = values(a);
            let mut bv = values(b);
            let mut rng = vcommon::Rng::derive(args.seed, &[47, pairs.len() as u64]);
            for _ in 0..2 {
                av.push(random_value(a, &mut rng));
                bv.push(random_value(b, &mut rng));
            }
            av.push(V::Null);
            bv.push(V::Null);
            pairs.push(Pair { a: a.clone(), b: b.clone(), av, bv });
        }
    }
    let div = match args.stage.as_str() {
        "miri" => 100,
        "memcheck" | "tsan" => 10,
        _ => 1,
    };
    let n = (pairs.len() / div).max(1);
    vcommon::par::run(args.workers, pairs.into_iter().take(n).enumerate(), |(i, p)| {
        if rep.violation_count() > 400 {
            return;
        }
        let label = format!("{}~{}", tname(&p.a), tname(&p.b));
        let r = vcommon::par::guard(|| {
            let rt = current_thread_rt();
            rt.block_on(async {
                let fut = async {
                    if let Some(reduced) = check_pair(&rep, &p, selftest, i, false).await {
                        check_pair(&rep, &reduced, selftest, i, true).await;
                    }
                };
                tokio::time::timeout(std::time::Duration::from_secs(300), fut).await.is_ok()
            })
        });
        match r {
            Ok(true) => {}
            Ok(false) => rep.inconclusive(&format!("pair {label} exceeded the 300 s wall-clock guard")),
            Err(panic) => {
                if panic.contains("harness") {
                    rep.inconclusive(&format!("harness error on pair {label}: {panic}"));
                } else {
                    // a crash is outside the statement of C47 (comparison answers): recorded and reported, not a verdict
                    rep.skip("engine-panic");
                    rep.seen("engine_panics", &format!("{label}: {}", panic.chars().take(200).collect::<String>()));
                }
            }
        }
    });
    if only.is_none() && div == 1 {
        rep.obligation("type-pair-grid", rep.seen_count("type_pairs") >= 150, "at least 150 accepted type pairs must be evaluated");
        rep.obligation("exactness-checked", rep.get_count("exact_comparisons_checked") >= 20_000, "integer/decimal exactness must be checked on the boundary grid");
        rep.obligation("int64-uint64", rep.has_seen("type_pairs", "Int64~UInt64"), "the Int64 vs UInt64 pair must be evaluated");
        rep.obligation("joins", rep.get_count("hash_joins_compared") >= 100 && rep.get_count("sort_merge_joins_compared") >= 100, "hash and sort-merge joins on mixed-type keys must be compared");
    }
    rep.sample(json!({"types": ts.iter().map(tname).collect::<Vec<_>>(), "boundary_values_Int64": values(&DataType::Int64).iter().map(vjson).collect::<Vec<_>>(), "boundary_values_UInt64": values(&DataType::UInt64).iter().map(vjson).collect::<Vec<_>>()}));
    rep.finish()
}

fn main() {
    let args = Args::parse();
    vcommon::par::quiet_panics();
    std::process::exit(run(&args));
}
