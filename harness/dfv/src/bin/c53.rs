//! C53 — reported row-count metrics equal the rows actually produced.
//!
//! Every node of every engine-built plan is wrapped by `planmon::MonitorExec`, whose tap counts the
//! rows the node really emitted. After the query ran to completion and all streams were dropped,
//! `metrics().output_rows()` of every node whose every partition was drained to end of stream must
//! equal the tapped count. Spilling runs: `spilled_rows` / `spilled_bytes` are compared with the
//! contents of the operator's spill files, read from a private spill directory at the moment the
//! operator yields its first output batch (all runs are written by then, none is deleted yet).

use arrow::array::{ArrayRef, Float64Array, Int64Array, StringArray};
use arrow::datatypes::{DataType, Field, Schema};
use arrow::record_batch::RecordBatch;
use datafusion::datasource::MemTable;
use dfv::cases::Case;
use dfv::planmon::*;
use dfv::qgen::GenCfg;
use std::collections::HashMap;
use std::sync::{Arc, Mutex};
use vcommon::{json, Args, Report, Rng};

const REQUIRED_NODE_KINDS: &[&str] = &[
    "DataSourceExec", "ProjectionExec", "FilterExec", "SortExec", "SortPreservingMergeExec", "AggregateExec", "HashJoinExec", "SortMergeJoinExec",
    "NestedLoopJoinExec", "CrossJoinExec", "RepartitionExec", "CoalescePartitionsExec", "UnionExec", "BoundedWindowAggExec", "WindowAggExec", "GlobalLimitExec",
];

fn analyse(run: &MonRun, tally: &mut Tally, corrupt: Corrupt) -> Vec<Finding> {
    let mut out = vec![];
    let mut corrupted = false;
    for node in &run.wrapped.nodes {
        let obs = observe(node);
        let has_metric = node.inner.metrics().and_then(|m| m.output_rows()).is_some();
        let c = Corrupt { on: corrupt.on && !corrupted && obs.complete && has_metric };
        corrupted |= c.on;
        out.extend(check_output_rows(node, &obs, tally, c));
    }
    out
}

fn nontrivial(run: &MonRun) -> bool {
    run.wrapped.nodes.iter().any(|n| {
        let o = observe(n);
        o.complete && o.total_rows() > 0 && n.inner.metrics().and_then(|m| m.output_rows()).is_some()
    })
}

fn gen_case(rep: &Report, rng: &mut Rng, cfg: &GenCfg, cfg_idx: u64, reg: Reg, reg_seed: u64, corrupt: Corrupt) {
    let case = Case::generate(rng, cfg);
    match prepare_generated(&case, cfg_idx, reg, reg_seed) {
        Ok(p) => {
            drive(rep, p, nontrivial, |run, tally| analyse(run, tally, corrupt));
        }
        Err(_) => rep.skip("harness-registration-failed"),
    }
}

fn fixture_case(rep: &Report, fx: &Fixture, seed: u64, idx: u64, cfg_idx: u64, corrupt: Corrupt) {
    let mut rng = Rng::derive(seed, &[53, 7, idx]);
    let sql = fixture_query(&mut rng, idx);
    let reg_seed = rng.next_u64() % 1000;
    let rt = dfv::engine::current_thread_rt();
    let sets: &[(&str, &str)] = if idx % 3 == 0 { &[("datafusion.execution.parquet.pushdown_filters", "true")] } else { &[] };
    match rt.block_on(prepare_fixture(fx, sql, cfg_idx, reg_seed, sets)) {
        Ok(p) => {
            drop(rt);
            drive(rep, p, nontrivial, |run, tally| analyse(run, tally, corrupt));
        }
        Err(_) => rep.skip("harness-fixture-registration-failed"),
    }
}

// ------------------------------------------------------------------------------------------------
// spilling runs

fn big_table(seed: u64, n: usize) -> Vec<(i64, i64, f64, String)> {
    let mut rng = Rng::derive(seed, &[0xB16]);
    (0..n).map(|i| (i as i64, rng.range(0, (n / 2) as i64), rng.range(-4000, 4000) as f64 / 8.0, format!("s{:05}-{}", rng.range(0, 99_999), "x".repeat(rng.usize(24))))).collect()
}

fn register_big(ctx: &datafusion::prelude::SessionContext, rows: &[(i64, i64, f64, String)], nparts: usize, batch: usize) -> datafusion::error::Result<()> {
    let schema = Arc::new(Schema::new(vec![Field::new("id", DataType::Int64, false), Field::new("k", DataType::Int64, true), Field::new("v", DataType::Float64, true), Field::new("s", DataType::Utf8, true)]));
    let per = rows.len().div_ceil(nparts.max(1)).max(1);
    let parts: Vec<Vec<RecordBatch>> = rows
        .chunks(per)
        .map(|p| {
            p.chunks(batch.max(1))
                .map(|c| {
                    let cols: Vec<ArrayRef> = vec![
                        Arc::new(Int64Array::from_iter_values(c.iter().map(|r| r.0))),
                        Arc::new(Int64Array::from_iter(c.iter().map(|r| if r.1 % 17 == 0 { None } else { Some(r.1) }))),
                        Arc::new(Float64Array::from_iter_values(c.iter().map(|r| r.2))),
                        Arc::new(StringArray::from_iter_values(c.iter().map(|r| r.3.as_str()))),
                    ];
                    RecordBatch::try_new(schema.clone(), cols).expect("big batch")
                })
                .collect()
        })
        .collect();
    ctx.register_table("big", Arc::new(MemTable::try_new(schema, parts)?))?;
    Ok(())
}

const SPILL_QUERIES: &[&str] = &[
    "SELECT id, s FROM big ORDER BY s, id",
    "SELECT id, v, s FROM big ORDER BY v DESC, id",
    "SELECT k, count(*) AS n, sum(v) AS sv, min(s) AS ms FROM big GROUP BY k",
    "SELECT k, id, count(*) AS n, max(s) AS ms FROM big GROUP BY k, id",
    "SELECT s, count(*) AS n FROM big GROUP BY s ORDER BY s",
    "SELECT id, s, row_number() OVER (ORDER BY s, id) AS rn FROM big",
];

type Snaps = Arc<Mutex<HashMap<(usize, usize), SpillSnapshot>>>;

/// Spill metrics of one node against the spill files seen when it yielded its first batch.
fn check_spill(run: &MonRun, snaps: &Snaps, tally: &mut Tally, corrupt: Corrupt) -> Vec<Finding> {
    let mut out = vec![];
    let spilling: Vec<&MonNode> = run.wrapped.nodes.iter().filter(|n| n.inner.metrics().and_then(|m| m.spill_count()).unwrap_or(0) > 0).collect();
    for node in &run.wrapped.nodes {
        let Some(m) = node.inner.metrics() else { continue };
        let (Some(files), Some(bytes), Some(mut rows)) = (m.spill_count(), m.spilled_bytes(), m.spilled_rows()) else { continue };
        let name = node.inner.name().to_string();
        if corrupt.on && files > 0 {
            rows += 1;
        }
        tally.add("spill_metric_nodes", &name, 1);
        let detail = |what: &str, extra: vcommon::Json| json!({"what": what, "node": name, "spill_count": files, "spilled_rows": rows, "spilled_bytes": bytes, "observed": extra});
        // nothing spilled <=> no rows / bytes reported
        if (files == 0) != (rows == 0) || (files == 0) != (bytes == 0) {
            out.push(Finding { sig: format!("spill-metrics-inconsistent/{name}"), detail: detail("spill_count, spilled_rows and spilled_bytes must be zero together", json!(null)) });
            continue;
        }
        if files == 0 {
            continue;
        }
        tally.add("spilled_nodes", &name, 1);
        // attribution of the files in the directory needs a single spilling operator
        if spilling.len() != 1 {
            tally.add("spill_files_not_attributable", &name, 1);
            continue;
        }
        let obs = observe(node);
        let g = snaps.lock().unwrap_or_else(|e| e.into_inner());
        let nparts = obs.parts.len();
        // the snapshot taken at the first output batch of the LAST partition to start emitting covers the most
        let snap = (0..nparts).filter_map(|p| g.get(&(node.rec.id, p))).max_by_key(|s| s.rows).cloned();
        drop(g);
        let Some(snap) = snap else {
            tally.add("spill_no_snapshot", &name, 1);
            continue;
        };
        // every row found in a spill file was written by this operator: a lower bound in every case
        tally.add("spilled_rows_lower_bound_checked", &name, 1);
        if snap.rows > rows {
            out.push(Finding { sig: format!("spilled-rows-metric/{name}"), detail: detail("spill files of the only spilling operator hold more rows than spilled_rows reports", json!({"files": snap.files, "rows_in_files": snap.rows, "bytes": snap.bytes})) });
            continue;
        }
        // all files the operator ever wrote are still there and complete: exact
        if nparts == 1 && obs.complete && snap.unreadable == 0 && snap.files == files {
            tally.add("spilled_rows_exact_checked", &name, 1);
            if snap.rows != rows {
                out.push(Finding { sig: format!("spilled-rows-metric/{name}"), detail: detail("spilled_rows differs from the rows in the operator's spill files (all of its files present and complete)", json!({"files": snap.files, "rows_in_files": snap.rows, "bytes": snap.bytes})) });
            }
            if snap.bytes != bytes as u64 {
                out.push(Finding { sig: format!("spilled-bytes-metric/{name}"), detail: detail("spilled_bytes differs from the size of the operator's spill files (all of its files present and complete)", json!({"files": snap.files, "rows_in_files": snap.rows, "bytes": snap.bytes})) });
            }
        }
    }
    out
}

fn spill_case(rep: &Report, seed: u64, i: u64, corrupt: Corrupt) {
    let mut rng = Rng::derive(seed, &[53, 9, i]);
    let sql = SPILL_QUERIES[(i % SPILL_QUERIES.len() as u64) as usize];
    let n = *rng.pick(&[2000usize, 4000, 6000]);
    let mem = *rng.pick(&[96usize << 10, 160 << 10, 256 << 10, 512 << 10]);
    let tp = if i % 4 == 3 { 3 } else { 1 };
    let fan_in = if i % 5 == 2 { Some(2) } else { None };
    let batch = *rng.pick(&[128usize, 512]);
    let table_seed = i % 7;
    let env = match spill_ctx(mem, tp, batch, fan_in, &[]) {
        Ok(e) => e,
        Err(_) => {
            rep.skip("harness-spill-env-failed");
            return;
        }
    };
    let rows = big_table(table_seed, n);
    if register_big(&env.ctx, &rows, tp, batch).is_err() {
        rep.skip("harness-registration-failed");
        return;
    }
    let snaps: Snaps = Arc::new(Mutex::new(HashMap::new()));
    let dir = env.dir.path().to_path_buf();
    let s2 = snaps.clone();
    let probe: Probe = Arc::new(move |rec: &NodeRec, part: usize| {
        // only operators that may spill are worth a directory scan
        if matches!(rec.name.as_str(), "SortExec" | "AggregateExec" | "SortMergeJoinExec") {
            let snap = spill_snapshot(&dir);
            s2.lock().unwrap_or_else(|e| e.into_inner()).insert((rec.id, part), snap);
        }
    });
    let label = env.label.clone();
    let p = Prepared {
        ctx: env.ctx.clone(),
        sql: sql.to_string(),
        fp: vcommon::fp_mix(vcommon::fp_str(sql), vcommon::fp_str(&format!("{label}/{n}/{table_seed}"))),
        witness: json!({"sql": sql, "table": format!("big_table(seed={table_seed}, n={n}) as MemTable with {tp} partitions, batches of {batch}"), "config": label}),
        kind: "spill",
        probe: Some(probe),
    };
    drive(
        rep,
        p,
        |run| run.wrapped.nodes.iter().any(|n| n.inner.metrics().and_then(|m| m.spill_count()).unwrap_or(0) > 0),
        |run, tally| {
            let mut f = analyse(run, tally, Corrupt::default());
            f.extend(check_spill(run, &snaps, tally, corrupt));
            f
        },
    );
    drop(env);
}

fn run(args: &Args) -> i32 {
    let rep = Report::new("C53", "exploration", args);
    rep.set_rule("case = (generated tables + generated SELECT of the C01 fragment | template query over MemTable/Parquet/CSV sources | sort/aggregate/window query over a few thousand rows under a small FairSpillPool) x session configuration (target_partitions 1/3/4, batch_size 2/3/8192, hash vs merge joins, repartition_* toggles); every node is wrapped by MonitorExec; after the query completed, output_rows of every node whose every partition was drained to end of stream is compared with the rows the tap counted; distinct = hash(SQL + tables + configuration); non-trivial = some fully drained node with an output_rows metric emitted rows (spill runs: some operator spilled)");
    rep.assume("the wrapper is transparent (same PlanProperties Arc, delegated downcasts, delegated metrics); each monitored run is paired with an unwrapped run and dropped as inconclusive when the results differ");
    rep.assume("metrics are read after collect() returned, i.e. after all streams were dropped; nodes that were re-instantiated at run time (recursive CTE iterations) or not drained by their parent (limit / early stop) are skipped and counted");
    rep.assume("spill files are Arrow IPC streams in a private directory; files found there while the only spilling operator emits its first batch were written by that operator");
    let corrupt = Corrupt { on: args.opt_u64("selftest", 0) == 1 };
    let cfg = GenCfg::default();
    let n_sys = args.bound("systematic", 1600, 6000);
    let n_fix = args.bound("fixture", 580, 2900);
    let n_spill = args.bound("spill", 60, 600);
    let n_rand = args.bound("random", 1500, 60_000);
    let fx = match Fixture::new(53, 48) {
        Ok(f) => f,
        Err(e) => {
            rep.inconclusive(&format!("cannot create the fixture files: {e}"));
            return rep.finish();
        }
    };
    vcommon::par::run(args.workers, 0..n_sys, |i| {
        let mut rng = Rng::derive(0xC53, &[0, i / 2]);
        let mut c = cfg.clone();
        c.max_depth = 1 + ((i / 2) % 3) as usize;
        let reg = if i % 4 == 0 { Reg::Sorted(i / 4) } else { Reg::Layout };
        gen_case(&rep, &mut rng, &c, i / 2 + i % 2 * 3, reg, i, corrupt);
    });
    vcommon::par::run(args.workers, 0..n_fix, |i| fixture_case(&rep, &fx, 0xC53, i, i / N_FIXTURE_TEMPLATES, corrupt));
    vcommon::par::run(args.workers.min(8), 0..n_spill, |i| spill_case(&rep, 0xC53, i, corrupt));
    for k in REQUIRED_NODE_KINDS {
        rep.obligation(&format!("node-kind:{k}"), rep.get_count(&format!("output_rows_checked_nontrivial/{k}")) > 0, "operator's output_rows metric must be compared on a fully drained non-empty output in the systematic part");
    }
    rep.obligation("spilled:SortExec", rep.get_count("spilled_nodes/SortExec") >= 5, "spilling external sorts");
    rep.obligation("spilled:AggregateExec", rep.get_count("spilled_nodes/AggregateExec") >= 5, "spilling aggregations");
    rep.obligation("spilled-rows-exact", rep.get_count("spilled_rows_exact_checked/SortExec") + rep.get_count("spilled_rows_exact_checked/AggregateExec") >= 5, "spilled_rows compared exactly with the spill files");
    let partial: u64 = REQUIRED_NODE_KINDS.iter().map(|k| rep.get_count(&format!("metric_skipped_partially_consumed/{k}"))).sum();
    rep.obligation("partially-consumed-seen", partial > 0, "the completeness flag must have excluded some partially consumed node (limit / early stop)");
    vcommon::par::run(args.workers, 0..n_rand, |i| {
        if rep.violation_count() > 4000 || !rep.within_budget(args.tier.pick(70.0, 900.0)) {
            return;
        }
        if i % 6 == 5 {
            fixture_case(&rep, &fx, args.seed, 1_000_000 + i, i, corrupt);
            return;
        }
        if i % 40 == 7 {
            spill_case(&rep, args.seed, 1_000 + i, corrupt);
            return;
        }
        let mut rng = Rng::derive(args.seed, &[1, i]);
        let mut c = cfg.clone();
        c.max_depth = 1 + (i % 4) as usize;
        if i % 7 == 0 {
            c.max_rows = 30;
        }
        let reg = if i % 4 == 0 { Reg::Sorted(rng.below(5)) } else { Reg::Layout };
        let cfg_idx = rng.below(10);
        gen_case(&rep, &mut rng, &c, cfg_idx, reg, i, corrupt);
    });
    let executed = rep.get_count("executed_generated") + rep.get_count("executed_generated-sorted") + rep.get_count("executed_fixture") + rep.get_count("executed_spill");
    let guard = rep.get_count("guard_mismatch");
    rep.obligation("guard", guard * 100 <= executed.max(1), "wrapped and unwrapped runs must agree in >= 99% of the executed cases");
    rep.obligation("executed-share", executed * 100 >= (n_sys + n_fix) * 60, "at least 60% of the systematic cases must execute");
    rep.finish()
}

fn main() {
    let args = Args::parse();
    vcommon::par::quiet_panics();
    std::process::exit(run(&args));
}
