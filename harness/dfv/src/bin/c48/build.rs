//! Query AST → DataFrame builder calls (one API call per SQL construct).

use datafusion::common::{Column, DFSchemaRef, JoinType, TableReference};
use datafusion::logical_expr::{cube, grouping_set, out_ref_col, rollup, Expr as DExpr, LogicalPlan};
use datafusion::prelude::DataFrame;
use dfv::ast::*;
use dfv::dfapi::{qcol, sort_of, to_expr, Conv, NoSpelling, SubqueryPlanner};
use std::collections::{BTreeMap, HashMap};
use std::sync::Arc;
use vcommon::Rng;

pub struct Builder<'a> {
    pub tables: &'a HashMap<String, DataFrame>,
    /// DataFrame / expr_fn calls made while building (operation histogram of this case)
    pub ops: BTreeMap<String, u64>,
    /// schemas visible to expressions, innermost last (outer ones are spelled `out_ref_col`)
    scopes: Vec<DFSchemaRef>,
    /// spelling choices (join vs join_on, window() vs select, aliased vs by-name group keys)
    pub rng: Rng,
    /// a builder call was rejected by the engine (message), as opposed to "no spelling"
    pub engine_error: Option<String>,
    /// Steering around three known spelling differences (each is reproduced by the "natural" spelling,
    /// i.e. all three flags off, and localised by switching one flag on):
    /// spell `OVER (ORDER BY ..)` without frame as the explicit SQL default frame (RANGE .. CURRENT ROW)
    pub explicit_default_frame: bool,
    /// spell `lag(x)` / `lead(x)` with the offset written out (`Some(1)`)
    pub explicit_lead_lag_offset: bool,
    /// one `window()` call per distinct (PARTITION BY, ORDER BY) instead of one call for all
    pub split_window_calls: bool,
}

/// structural top-down replacement (does not descend into subqueries)
pub fn replace(e: &Expr, pairs: &[(Expr, Expr)]) -> Expr {
    if let Some((_, r)) = pairs.iter().find(|(p, _)| p == e) {
        return r.clone();
    }
    let r = |x: &Expr| Box::new(replace(x, pairs));
    let rv = |xs: &[Expr]| xs.iter().map(|x| replace(x, pairs)).collect::<Vec<_>>();
    match e {
        Expr::Col { .. } | Expr::OutCol(_) | Expr::Lit(..) | Expr::Param(..) | Expr::Exists { .. } | Expr::Scalar(_) => e.clone(),
        Expr::Bin(a, op, b) => Expr::Bin(r(a), *op, r(b)),
        Expr::Not(a) => Expr::Not(r(a)),
        Expr::Neg(a) => Expr::Neg(r(a)),
        Expr::IsNull(a, n) => Expr::IsNull(r(a), *n),
        Expr::InList { e, list, negated } => Expr::InList { e: r(e), list: rv(list), negated: *negated },
        Expr::Between { e, lo, hi, negated } => Expr::Between { e: r(e), lo: r(lo), hi: r(hi), negated: *negated },
        Expr::Like { e, pat, negated, ci } => Expr::Like { e: r(e), pat: r(pat), negated: *negated, ci: *ci },
        Expr::Case { operand, whens, else_ } => Expr::Case {
            operand: operand.as_ref().map(|o| r(o)),
            whens: whens.iter().map(|(w, t)| (replace(w, pairs), replace(t, pairs))).collect(),
            else_: else_.as_ref().map(|o| r(o)),
        },
        Expr::Coalesce(xs) => Expr::Coalesce(rv(xs)),
        Expr::NullIf(a, b) => Expr::NullIf(r(a), r(b)),
        Expr::Cast(a, ty) => Expr::Cast(r(a), *ty),
        Expr::Func(n, xs) => Expr::Func(n, rv(xs)),
        Expr::InSubquery { e, q, negated } => Expr::InSubquery { e: r(e), q: q.clone(), negated: *negated },
        Expr::Quantified { e, op, all, q } => Expr::Quantified { e: r(e), op: *op, all: *all, q: q.clone() },
        Expr::Agg { f, arg, distinct, filter } => Expr::Agg { f: *f, arg: arg.as_ref().map(|a| r(a)), distinct: *distinct, filter: filter.as_ref().map(|a| r(a)) },
        Expr::Win { f, args, partition_by, order_by, frame } => Expr::Win {
            f: *f,
            args: rv(args),
            partition_by: rv(partition_by),
            order_by: order_by.iter().map(|o| OrderItem { expr: replace(&o.expr, pairs), desc: o.desc, nulls_first: o.nulls_first }).collect(),
            frame: frame.clone(),
        },
    }
}

fn collect_nodes(e: &Expr, pred: &dyn Fn(&Expr) -> bool, out: &mut Vec<Expr>) {
    dfv::refint::walk_expr(e, &mut |x| {
        if pred(x) && !out.iter().any(|y| y == x) {
            out.push(x.clone());
        }
    });
}

fn conjuncts(e: &Expr, out: &mut Vec<Expr>) {
    match e {
        Expr::Bin(a, BinOp::And, b) => {
            conjuncts(a, out);
            conjuncts(b, out);
        }
        _ => out.push(e.clone()),
    }
}

pub fn join_type(k: JoinKind) -> JoinType {
    match k {
        JoinKind::Inner | JoinKind::Cross => JoinType::Inner,
        JoinKind::Left => JoinType::Left,
        JoinKind::Right => JoinType::Right,
        JoinKind::Full => JoinType::Full,
        JoinKind::LeftSemi => JoinType::LeftSemi,
        JoinKind::LeftAnti => JoinType::LeftAnti,
        JoinKind::RightSemi => JoinType::RightSemi,
        JoinKind::RightAnti => JoinType::RightAnti,
    }
}

impl<'a> SubqueryPlanner for Builder<'a> {
    fn plan(&mut self, q: &Query) -> Conv<Arc<LogicalPlan>> {
        let df = self.query(q)?;
        Ok(Arc::new(df.into_unoptimized_plan()))
    }

    fn column(&mut self, rel: &str, name: &str) -> Conv<DExpr> {
        let tr = TableReference::bare(rel.to_string());
        for (depth, sc) in self.scopes.iter().rev().enumerate() {
            if let Ok(f) = sc.field_with_qualified_name(&tr, name) {
                if depth == 0 {
                    return Ok(qcol(rel, name));
                }
                let dt = f.data_type().clone();
                self.op("out_ref_col");
                return Ok(out_ref_col(dt, Column::new(Some(tr), name.to_string())));
            }
        }
        Ok(qcol(rel, name))
    }
}

impl<'a> Builder<'a> {
    pub fn new(tables: &'a HashMap<String, DataFrame>, rng: Rng) -> Self {
        Builder { tables, ops: BTreeMap::new(), scopes: vec![], rng, engine_error: None, explicit_default_frame: false, explicit_lead_lag_offset: false, split_window_calls: false }
    }

    pub fn op(&mut self, name: &str) {
        *self.ops.entry(name.to_string()).or_insert(0) += 1;
    }

    fn eng<T>(&mut self, what: &str, r: datafusion::error::Result<T>) -> Conv<T> {
        r.map_err(|e| {
            let msg = format!("{what}: {e}");
            self.engine_error = Some(msg.clone());
            NoSpelling(msg)
        })
    }

    fn expr(&mut self, e: &Expr) -> Conv<DExpr> {
        let mut e = e.clone();
        if self.explicit_default_frame {
            e = add_default_frames(&e);
        }
        if self.explicit_lead_lag_offset {
            e = add_lead_lag_offsets(&e);
        }
        count_expr_ops(&e, self);
        to_expr(&e, self)
    }

    pub fn query(&mut self, q: &Query) -> Conv<DataFrame> {
        if !q.ctes.is_empty() {
            return Err(NoSpelling("cte".into()));
        }
        let mut df = self.set_expr(&q.body)?;
        if !q.order_by.is_empty() {
            let mut sorts = vec![];
            for o in &q.order_by {
                let Expr::OutCol(n) = &o.expr else { return Err(NoSpelling("order by expression".into())) };
                sorts.push(sort_of(DExpr::Column(Column::new_unqualified(n.clone())), o.desc, o.nulls_first_eff()));
            }
            self.op("sort");
            let r = df.sort(sorts);
            df = self.eng("sort", r)?;
        }
        if q.limit.is_some() || q.offset.is_some() {
            self.op("limit");
            let r = df.limit(q.offset.unwrap_or(0) as usize, q.limit.map(|l| l as usize));
            df = self.eng("limit", r)?;
        }
        Ok(df)
    }

    fn set_expr(&mut self, s: &SetExpr) -> Conv<DataFrame> {
        match s {
            SetExpr::Select(sel) => self.select(sel),
            SetExpr::SetOp { op, all, left, right } => {
                let l = self.set_expr(left)?;
                let r = self.set_expr(right)?;
                let (name, res) = match (op, all) {
                    (SetOp::Union, true) => ("union", l.union(r)),
                    (SetOp::Union, false) => ("union_distinct", l.union_distinct(r)),
                    (SetOp::Intersect, true) => ("intersect", l.intersect(r)),
                    (SetOp::Intersect, false) => ("intersect_distinct", l.intersect_distinct(r)),
                    (SetOp::Except, true) => ("except", l.except(r)),
                    (SetOp::Except, false) => ("except_distinct", l.except_distinct(r)),
                };
                self.op(name);
                self.eng(name, res)
            }
        }
    }

    fn from(&mut self, f: &From) -> Conv<DataFrame> {
        match f {
            From::Table { name, alias } => {
                let Some(t) = self.tables.get(name) else { return Err(NoSpelling("cte reference".into())) };
                self.op("table");
                self.op("alias");
                let r = t.clone().alias(alias);
                self.eng("alias", r)
            }
            From::Derived { q, alias } => {
                let saved = std::mem::take(&mut self.scopes); // derived tables are not lateral
                let df = self.query(q);
                self.scopes = saved;
                self.op("alias");
                let r = df?.alias(alias);
                self.eng("alias", r)
            }
            From::Series { .. } => Err(NoSpelling("table function (generate_series / range)".into())),
            From::Join { left, right, kind, on } => {
                let l = self.from(left)?;
                let r = self.from(right)?;
                let jt = join_type(*kind);
                let Some(on) = on else {
                    // CROSS JOIN: an inner join without keys and without filter
                    return if self.rng.bool() {
                        self.op("join_on(no condition)");
                        let res = l.join_on(r, JoinType::Inner, Vec::<DExpr>::new());
                        self.eng("join_on", res)
                    } else {
                        self.op("join(no keys)");
                        let res = l.join(r, JoinType::Inner, &[], &[], None);
                        self.eng("join", res)
                    };
                };
                let merged = self.eng("schema join", l.schema().join(r.schema()))?;
                self.scopes.push(Arc::new(merged));
                let out = self.join_with_condition(l, r, jt, on);
                self.scopes.pop();
                out
            }
        }
    }

    fn join_with_condition(&mut self, l: DataFrame, r: DataFrame, jt: JoinType, on: &Expr) -> Conv<DataFrame> {
        let mut cj = vec![];
        conjuncts(on, &mut cj);
        // `join(left_cols, right_cols, filter)` spelling: leading `l.x = r.y` conjuncts become key columns
        let side = |df: &DataFrame, rel: &str, name: &str| df.schema().field_with_qualified_name(&TableReference::bare(rel.to_string()), name).is_ok();
        let mut keys: Vec<(String, String)> = vec![];
        let mut rest: Vec<Expr> = vec![];
        for c in &cj {
            if let Expr::Bin(a, BinOp::Eq, b) = c {
                if let (Expr::Col { rel: ra, name: na }, Expr::Col { rel: rb, name: nb }) = (&**a, &**b) {
                    if rest.is_empty() && side(&l, ra, na) && side(&r, rb, nb) {
                        keys.push((format!("{ra}.{na}"), format!("{rb}.{nb}")));
                        continue;
                    }
                    if rest.is_empty() && side(&l, rb, nb) && side(&r, ra, na) {
                        keys.push((format!("{rb}.{nb}"), format!("{ra}.{na}")));
                        continue;
                    }
                }
            }
            rest.push(c.clone());
        }
        self.op(&format!("join-type:{jt:?}"));
        if !keys.is_empty() && self.rng.bool() {
            let filter = match rest.into_iter().reduce(|a, b| Expr::Bin(Box::new(a), BinOp::And, Box::new(b))) {
                Some(f) => Some(self.expr(&f)?),
                None => None,
            };
            // key columns by unqualified name when that is unambiguous on their side
            let unq = |df: &DataFrame, q: &str, rng: &mut Rng| -> String {
                let name = q.split_once('.').map(|x| x.1).unwrap_or(q);
                if rng.bool() && df.schema().qualified_fields_with_unqualified_name(name).len() == 1 { name.to_string() } else { q.to_string() }
            };
            let lk: Vec<String> = keys.iter().map(|k| unq(&l, &k.0, &mut self.rng)).collect();
            let rk: Vec<String> = keys.iter().map(|k| unq(&r, &k.1, &mut self.rng)).collect();
            self.op(if filter.is_some() { "join(keys+filter)" } else { "join(keys)" });
            let res = l.join(r, jt, &lk.iter().map(|s| s.as_str()).collect::<Vec<_>>(), &rk.iter().map(|s| s.as_str()).collect::<Vec<_>>(), filter);
            return self.eng("join", res);
        }
        // `join_on`: either the whole condition as one expression or its conjuncts as a list
        let exprs: Vec<DExpr> = if self.rng.bool() { vec![self.expr(on)?] } else { cj.iter().map(|c| self.expr(c)).collect::<Conv<Vec<_>>>()? };
        self.op("join_on");
        let res = l.join_on(r, jt, exprs);
        self.eng("join_on", res)
    }

    fn select(&mut self, s: &Select) -> Conv<DataFrame> {
        let Some(f) = &s.from else { return Err(NoSpelling("SELECT without FROM".into())) };
        let mut df = self.from(f)?;
        self.scopes.push(df.schema().clone().into());
        let out = self.select_over(&mut df, s);
        self.scopes.pop();
        out
    }

    fn select_over(&mut self, df0: &mut DataFrame, s: &Select) -> Conv<DataFrame> {
        let mut df = df0.clone();
        if let Some(w) = &s.where_ {
            let p = self.expr(w)?;
            self.op("filter");
            let r = df.filter(p);
            df = self.eng("filter", r)?;
        }
        let is_agg = |x: &Expr| matches!(x, Expr::Agg { .. });
        let mut aggs = vec![];
        for (e, _) in &s.items {
            collect_nodes(e, &is_agg, &mut aggs);
        }
        if let Some(h) = &s.having {
            collect_nodes(h, &is_agg, &mut aggs);
        }
        let grouped = !s.group_by.is_empty() || s.grouping == Grouping::Sets || !aggs.is_empty();
        let mut items: Vec<(Expr, String)> = s.items.clone();
        if grouped {
            let mut pairs: Vec<(Expr, Expr)> = vec![];
            let mut key_exprs = vec![];
            for k in &s.group_by {
                key_exprs.push(self.expr(k)?);
            }
            let alias_keys = s.grouping == Grouping::Plain && self.rng.bool();
            let mut group_expr = vec![];
            for (i, (k, ke)) in s.group_by.iter().zip(key_exprs.iter()).enumerate() {
                if alias_keys {
                    group_expr.push(ke.clone().alias(format!("__k{i}")));
                    pairs.push((k.clone(), Expr::OutCol(format!("__k{i}"))));
                } else {
                    group_expr.push(ke.clone());
                    if !matches!(k, Expr::Col { .. }) {
                        // the aggregate's output column carries the key's schema name
                        pairs.push((k.clone(), Expr::OutCol(ke.schema_name().to_string())));
                    }
                }
            }
            let group_expr = match s.grouping {
                Grouping::Plain => group_expr,
                Grouping::Rollup => {
                    self.op("rollup");
                    vec![rollup(group_expr)]
                }
                Grouping::Cube => {
                    self.op("cube");
                    vec![cube(group_expr)]
                }
                Grouping::Sets => {
                    self.op("grouping_set");
                    vec![grouping_set(s.sets.iter().map(|m| group_expr.iter().enumerate().filter(|(i, _)| m & (1 << i) != 0).map(|(_, e)| e.clone()).collect()).collect())]
                }
            };
            let mut aggr_expr = vec![];
            for (i, a) in aggs.iter().enumerate() {
                aggr_expr.push(self.expr(a)?.alias(format!("__a{i}")));
                pairs.push((a.clone(), Expr::OutCol(format!("__a{i}"))));
            }
            self.op("aggregate");
            let r = df.aggregate(group_expr, aggr_expr);
            df = self.eng("aggregate", r)?;
            // expressions above the aggregate see its output schema
            *self.scopes.last_mut().unwrap() = df.schema().clone().into();
            if let Some(h) = &s.having {
                let p = self.expr(&replace(h, &pairs))?;
                self.op("filter(having)");
                let r = df.filter(p);
                df = self.eng("filter", r)?;
            }
            items = items.into_iter().map(|(e, a)| (replace(&e, &pairs), a)).collect();
        } else {
            let is_win = |x: &Expr| matches!(x, Expr::Win { .. });
            let mut wins = vec![];
            for (e, _) in &s.items {
                collect_nodes(e, &is_win, &mut wins);
            }
            if !wins.is_empty() && self.rng.bool() {
                // `window()` appends the window columns; the projection then refers to them by name
                let mut pairs = vec![];
                // groups of window expressions per call: all in one, or one call per sort key
                let mut groups: Vec<Vec<usize>> = vec![];
                for (i, w) in wins.iter().enumerate() {
                    let key = |x: &Expr| match x {
                        Expr::Win { partition_by, order_by, .. } => (partition_by.clone(), order_by.clone()),
                        _ => (vec![], vec![]),
                    };
                    let pos = if self.split_window_calls { groups.iter().position(|g| key(&wins[g[0]]) == key(w)) } else if groups.is_empty() { None } else { Some(0) };
                    match pos {
                        Some(p) => groups[p].push(i),
                        None => groups.push(vec![i]),
                    }
                    pairs.push((w.clone(), Expr::OutCol(format!("__w{i}"))));
                }
                if groups.len() == 1 && groups[0].len() > 1 {
                    self.op("window(several exprs in one call)");
                }
                for g in groups {
                    let mut wexprs = vec![];
                    for i in g {
                        wexprs.push(self.expr(&wins[i])?.alias(format!("__w{i}")));
                    }
                    self.op("window");
                    let r = df.window(wexprs);
                    df = self.eng("window", r)?;
                }
                *self.scopes.last_mut().unwrap() = df.schema().clone().into();
                items = items.into_iter().map(|(e, a)| (replace(&e, &pairs), a)).collect();
            } else if !wins.is_empty() {
                self.op("select(window expr)");
            }
        }
        let mut sel = vec![];
        for (e, a) in &items {
            sel.push(self.expr(e)?.alias(a.clone()));
        }
        self.op("select");
        let r = df.select(sel);
        df = self.eng("select", r)?;
        if s.distinct {
            self.op("distinct");
            let r = df.distinct();
            df = self.eng("distinct", r)?;
        }
        Ok(df)
    }
}

/// `OVER (.. ORDER BY ..)` without frame → the SQL default frame written out
fn add_default_frames(e: &Expr) -> Expr {
    let mut wins = vec![];
    collect_nodes(e, &|x| matches!(x, Expr::Win { frame: None, order_by, .. } if !order_by.is_empty()), &mut wins);
    let pairs: Vec<(Expr, Expr)> = wins
        .into_iter()
        .map(|w| {
            let mut w2 = w.clone();
            if let Expr::Win { frame, .. } = &mut w2 {
                *frame = Some(Frame { unit: FrameUnit::Range, start: Bound::UnboundedPreceding, end: Bound::CurrentRow });
            }
            (w, w2)
        })
        .collect();
    if pairs.is_empty() { e.clone() } else { replace(e, &pairs) }
}

/// `lag(x)` / `lead(x)` → `lag(x, 1)` / `lead(x, 1)`
fn add_lead_lag_offsets(e: &Expr) -> Expr {
    let mut wins = vec![];
    collect_nodes(e, &|x| matches!(x, Expr::Win { f: WinFn::Lag | WinFn::Lead, args, .. } if args.len() == 1), &mut wins);
    let pairs: Vec<(Expr, Expr)> = wins
        .into_iter()
        .map(|w| {
            let mut w2 = w.clone();
            if let Expr::Win { args, .. } = &mut w2 {
                args.push(Expr::Lit(dfv::value::Value::Int(1), dfv::value::Ty::Int));
            }
            (w, w2)
        })
        .collect();
    if pairs.is_empty() { e.clone() } else { replace(e, &pairs) }
}

fn count_expr_ops(e: &Expr, b: &mut Builder) {
    let mut names: Vec<String> = vec![];
    dfv::refint::walk_expr(e, &mut |x| {
        let n: Option<String> = match x {
            Expr::Exists { negated, .. } => Some(if *negated { "expr:not_exists".into() } else { "expr:exists".into() }),
            Expr::InSubquery { negated, .. } => Some(if *negated { "expr:not_in_subquery".into() } else { "expr:in_subquery".into() }),
            Expr::Scalar(_) => Some("expr:scalar_subquery".into()),
            Expr::Case { .. } => Some("expr:case".into()),
            Expr::InList { .. } => Some("expr:in_list".into()),
            Expr::Between { .. } => Some("expr:between".into()),
            Expr::Like { ci, .. } => Some(if *ci { "expr:ilike".into() } else { "expr:like".into() }),
            Expr::Coalesce(_) => Some("expr:coalesce".into()),
            Expr::NullIf(..) => Some("expr:nullif".into()),
            Expr::Cast(..) => Some("expr:cast".into()),
            Expr::Func(n, _) => Some(format!("expr:{n}")),
            Expr::Agg { f, distinct, filter, .. } => Some(format!("agg:{f:?}{}{}", if *distinct { "+distinct" } else { "" }, if filter.is_some() { "+filter" } else { "" })),
            Expr::Win { f, frame, .. } => Some(format!(
                "win:{f:?}{}",
                match frame {
                    None => "",
                    Some(fr) => match fr.unit {
                        FrameUnit::Rows => "+rows-frame",
                        FrameUnit::Range => "+range-frame",
                        FrameUnit::Groups => "+groups-frame",
                    },
                }
            )),
            _ => None,
        };
        if let Some(n) = n {
            names.push(n);
        }
    });
    for n in names {
        b.op(&n);
    }
}
