//! Dedicated operation templates for the DataFrame methods that are not reachable from the
//! generated Query AST: with_column / with_column_renamed / drop_columns chains, union_by_name,
//! distinct_on, unnest_columns. Each template yields the DataFrame, the SQL statement with the
//! same meaning (as AST where the reference interpreter can evaluate it, else as text) and, where
//! the harness can compute it, the expected rows.

use crate::build::{replace, Builder};
use arrow::array::{ArrayRef, Int64Array, ListArray};
use arrow::datatypes::{DataType, Field, Int64Type, Schema};
use datafusion::common::{Column, NullHandling, UnnestOptions};
use datafusion::datasource::MemTable;
use datafusion::logical_expr::{Expr as DExpr, LogicalPlan};
use datafusion::prelude::{DataFrame, SessionContext};
use dfv::ast::*;
use dfv::canon::CmpMode;
use dfv::dfapi::{qcol, sort_of, to_expr, Conv, NoSpelling, SubqueryPlanner};
use dfv::qgen::{GCol, Gen, GenCfg};
use dfv::refint::Db;
use dfv::value::{Row, Ty, Value};
use std::collections::HashMap;
use std::sync::Arc;
use vcommon::Rng;

pub struct Tmpl {
    pub op: &'static str,
    pub df: DataFrame,
    /// SQL with the same meaning, as AST (reference interpreter applies) …
    pub query: Option<Query>,
    /// … or as text
    pub sql: String,
    /// further SQL spellings that must also agree (label, text)
    pub alt_sql: Vec<(&'static str, String)>,
    /// expected rows computed by the harness (only when `query` is None)
    pub expected: Option<Vec<Row>>,
    pub mode: CmpMode,
    pub chain: Vec<String>,
}

struct CCol {
    name: String,
    qual: Option<String>,
    base: Expr,
    ty: Ty,
}

impl CCol {
    fn ast_ref(&self) -> Expr {
        Expr::Col { rel: self.qual.clone().unwrap_or_default(), name: self.name.clone() }
    }
    fn df_ref(&self) -> DExpr {
        match &self.qual {
            Some(q) => qcol(q, &self.name),
            None => DExpr::Column(Column::new_unqualified(self.name.clone())),
        }
    }
}

/// columns of a builder chain: qualified originals by qualifier, computed / replaced ones by bare name
struct ChainCols;

impl SubqueryPlanner for ChainCols {
    fn plan(&mut self, _q: &Query) -> Conv<Arc<LogicalPlan>> {
        Err(NoSpelling("subquery in chain".into()))
    }
    fn column(&mut self, rel: &str, name: &str) -> Conv<DExpr> {
        Ok(if rel.is_empty() { DExpr::Column(Column::new_unqualified(name.to_string())) } else { qcol(rel, name) })
    }
}

fn ident_spelling(name: &str) -> String {
    if name.chars().all(|c| c.is_ascii_lowercase() || c.is_ascii_digit() || c == '_') { name.to_string() } else { format!("\"{name}\"") }
}

fn eng<T>(what: &str, r: datafusion::error::Result<T>) -> Conv<T> {
    r.map_err(|e| NoSpelling(format!("ENGINE {what}: {e}")))
}

fn and_all(xs: Vec<Expr>) -> Option<Expr> {
    xs.into_iter().reduce(|a, b| Expr::Bin(Box::new(a), BinOp::And, Box::new(b)))
}

/// with_column / with_column_renamed / drop_columns / filter / window column / sort+limit chain over one
/// table or an inner join of two tables (duplicate column names)
pub fn chain(rng: &mut Rng, db: &Db, tables: &HashMap<String, DataFrame>, ops: &mut Vec<String>) -> Conv<Tmpl> {
    let t = &db.tables[rng.usize(db.tables.len())];
    let mut df = eng("alias", tables[&t.name].clone().alias("r"))?;
    ops.push("table".into());
    ops.push("alias".into());
    let mut from = From::Table { name: t.name.clone(), alias: "r".into() };
    let mut cols: Vec<CCol> = t.cols.iter().map(|(n, ty)| CCol { name: n.clone(), qual: Some("r".into()), base: Expr::Col { rel: "r".into(), name: n.clone() }, ty: *ty }).collect();
    let mut chain = vec![format!("table({}).alias(r)", t.name)];
    if rng.chance(2, 5) {
        let t2 = &db.tables[rng.usize(db.tables.len())];
        let right = eng("alias", tables[&t2.name].clone().alias("s"))?;
        // key columns by bare name on both sides: `a` exists in every table
        df = eng("join", df.join(right, datafusion::common::JoinType::Inner, &["a"], &["a"], None))?;
        ops.push("join(keys)".into());
        ops.push("join-type:Inner".into());
        chain.push(format!("join(table({}).alias(s), Inner, [a], [a])", t2.name));
        let on = Expr::Bin(Box::new(Expr::Col { rel: "r".into(), name: "a".into() }), BinOp::Eq, Box::new(Expr::Col { rel: "s".into(), name: "a".into() }));
        from = From::Join { left: Box::new(from), right: Box::new(From::Table { name: t2.name.clone(), alias: "s".into() }), kind: JoinKind::Inner, on: Some(on) };
        cols.extend(t2.cols.iter().map(|(n, ty)| CCol { name: n.clone(), qual: Some("s".into()), base: Expr::Col { rel: "s".into(), name: n.clone() }, ty: *ty }));
    }
    let mut wheres: Vec<Expr> = vec![];
    let mut fresh = 0;
    let n_ops = 2 + rng.usize(4);
    let cfg = GenCfg { subqueries: false, windows: false, ..GenCfg::default() };
    let mut windowed = false;
    for step in 0..n_ops {
        let scope: Vec<GCol> = cols.iter().map(|c| GCol { rel: c.qual.clone().unwrap_or_default(), name: c.name.clone(), ty: c.ty, is_id: false }).collect();
        let pairs: Vec<(Expr, Expr)> = cols.iter().map(|c| (c.ast_ref(), c.base.clone())).collect();
        let unique = |cols: &[CCol], name: &str| cols.iter().filter(|c| c.name == name).count() == 1;
        let last = step + 1 == n_ops;
        match rng.below(if last { 6 } else { 5 }) {
            0 | 1 => {
                // with_column: new name (sometimes mixed case / with a space) or replacing a uniquely named column
                let ty = *rng.pick(&[Ty::Int, Ty::Int, Ty::Float, Ty::Str, Ty::Bool]);
                let e = {
                    let mut g = Gen::new(rng, db, cfg.clone());
                    g.expr(&scope, ty, 2)
                };
                let de = to_expr(&e, &mut ChainCols)?;
                let base = replace(&e, &pairs);
                let replace_existing: Vec<usize> = (0..cols.len()).filter(|i| unique(&cols, &cols[*i].name)).collect();
                if rng.chance(1, 3) && !replace_existing.is_empty() {
                    let i = *rng.pick(&replace_existing);
                    let name = cols[i].name.clone();
                    df = eng("with_column", df.with_column(&name, de))?;
                    ops.push("with_column(replace)".into());
                    chain.push(format!("with_column({name:?}, {})", Renderer::default().expr(&e)));
                    cols[i] = CCol { name, qual: None, base, ty };
                } else {
                    fresh += 1;
                    let name = match rng.below(4) {
                        0 => format!("Xc{fresh}"),
                        1 => format!("new col {fresh}"),
                        _ => format!("x{fresh}"),
                    };
                    df = eng("with_column", df.with_column(&name, de))?;
                    ops.push("with_column(new)".into());
                    chain.push(format!("with_column({name:?}, {})", Renderer::default().expr(&e)));
                    cols.push(CCol { name, qual: None, base, ty });
                }
            }
            2 => {
                // with_column_renamed: qualified / bare / quoted spellings, plus the documented no-op on a missing column
                if rng.chance(1, 8) {
                    df = eng("with_column_renamed", df.with_column_renamed("no_such_column", "zz"))?;
                    ops.push("with_column_renamed(missing: no-op)".into());
                    chain.push("with_column_renamed(\"no_such_column\", \"zz\")".into());
                    continue;
                }
                let i = rng.usize(cols.len());
                let old = match &cols[i].qual {
                    Some(q) if !unique(&cols, &cols[i].name) || rng.bool() => format!("{q}.{}", ident_spelling(&cols[i].name)),
                    _ => {
                        if !unique(&cols, &cols[i].name) {
                            continue;
                        }
                        ident_spelling(&cols[i].name)
                    }
                };
                fresh += 1;
                let new = if rng.chance(1, 3) { format!("Rn{fresh}") } else { format!("rn{fresh}") };
                df = eng("with_column_renamed", df.with_column_renamed(old.clone(), &new))?;
                ops.push("with_column_renamed".into());
                chain.push(format!("with_column_renamed({old:?}, {new:?})"));
                cols[i].name = new;
            }
            3 => {
                // drop_columns (never the last column)
                if cols.len() < 2 {
                    continue;
                }
                let i = rng.usize(cols.len());
                let spelled = match &cols[i].qual {
                    Some(q) if !unique(&cols, &cols[i].name) || rng.bool() => format!("{q}.{}", ident_spelling(&cols[i].name)),
                    _ => {
                        if !unique(&cols, &cols[i].name) {
                            continue;
                        }
                        ident_spelling(&cols[i].name)
                    }
                };
                df = eng("drop_columns", df.drop_columns(&[spelled.as_str()]))?;
                ops.push("drop_columns".into());
                chain.push(format!("drop_columns([{spelled:?}])"));
                cols.remove(i);
            }
            4 => {
                if windowed {
                    continue;
                }
                let p = {
                    let mut g = Gen::new(rng, db, cfg.clone());
                    g.pred(&scope, 1, false)
                };
                df = eng("filter", df.filter(to_expr(&p, &mut ChainCols)?))?;
                ops.push("filter".into());
                chain.push(format!("filter({})", Renderer::default().expr(&p)));
                wheres.push(replace(&p, &pairs));
            }
            _ => {
                // a window column through with_column (total order over all current columns)
                let ints: Vec<&CCol> = cols.iter().filter(|c| c.ty == Ty::Int).collect();
                if ints.is_empty() || windowed {
                    continue;
                }
                let arg = rng.pick(&ints).ast_ref();
                let part = if rng.bool() { vec![cols[rng.usize(cols.len())].ast_ref()] } else { vec![] };
                let order_by: Vec<OrderItem> = cols.iter().map(|c| OrderItem { expr: c.ast_ref(), desc: false, nulls_first: None }).collect();
                let w = if rng.bool() {
                    Expr::Cast(Box::new(Expr::Win { f: WinFn::RowNumber, args: vec![], partition_by: part, order_by, frame: None }), Ty::Int)
                } else {
                    Expr::Win { f: WinFn::Sum, args: vec![arg], partition_by: part, order_by, frame: Some(Frame { unit: FrameUnit::Rows, start: Bound::UnboundedPreceding, end: Bound::CurrentRow }) }
                };
                fresh += 1;
                let name = format!("w{fresh}");
                df = eng("with_column", df.with_column(&name, to_expr(&w, &mut ChainCols)?))?;
                ops.push("with_column(window expr)".into());
                chain.push(format!("with_column({name:?}, {})", Renderer::default().expr(&w)));
                cols.push(CCol { name, qual: None, base: replace(&w, &pairs), ty: Ty::Int });
                windowed = true;
            }
        }
    }
    let mut q = Query::simple(Select {
        distinct: false,
        items: cols.iter().enumerate().map(|(i, c)| (c.base.clone(), format!("k{i}"))).collect(),
        from: Some(from),
        where_: and_all(wheres),
        group_by: vec![],
        grouping: Grouping::Plain,
        sets: vec![],
        having: None,
    });
    let mut mode = CmpMode::Multiset;
    if rng.bool() {
        // total order over every output column, optionally limit
        let descs: Vec<bool> = cols.iter().map(|_| rng.chance(1, 3)).collect();
        let sorts = cols.iter().zip(descs.iter()).map(|(c, d)| sort_of(c.df_ref(), *d, *d)).collect();
        df = eng("sort", df.sort(sorts))?;
        ops.push("sort".into());
        chain.push("sort(all columns)".into());
        q.order_by = descs.iter().enumerate().map(|(i, d)| OrderItem { expr: Expr::OutCol(format!("k{i}")), desc: *d, nulls_first: None }).collect();
        mode = CmpMode::Sequence;
        if rng.bool() {
            let (skip, fetch) = (rng.below(3), rng.below(6));
            df = eng("limit", df.limit(skip as usize, Some(fetch as usize)))?;
            ops.push("limit".into());
            chain.push(format!("limit({skip}, Some({fetch}))"));
            q.limit = Some(fetch);
            q.offset = Some(skip);
        }
    }
    let sql = to_sql(&q);
    Ok(Tmpl { op: "column-chain", df, query: Some(q), sql, alt_sql: vec![], expected: None, mode, chain })
}

/// union_by_name / union_by_name_distinct: the right side lists the same names in another order and may
/// lack some / add one (missing columns are NULL-filled)
pub fn union_by_name(rng: &mut Rng, db: &Db, tables: &HashMap<String, DataFrame>, ops: &mut Vec<String>) -> Conv<Tmpl> {
    let cfg = GenCfg { subqueries: false, windows: false, ..GenCfg::default() };
    let mk_side = |rng: &mut Rng, alias: &str, names_tys: &[(String, Ty)]| -> Select {
        let t = &db.tables[rng.usize(db.tables.len())];
        let scope: Vec<GCol> = t.cols.iter().map(|(n, ty)| GCol { rel: alias.to_string(), name: n.clone(), ty: *ty, is_id: n == "id" }).collect();
        let items = names_tys
            .iter()
            .map(|(n, ty)| {
                let mut g = Gen::new(rng, db, cfg.clone());
                (g.expr(&scope, *ty, 1), n.clone())
            })
            .collect();
        let where_ = if rng.bool() {
            let mut g = Gen::new(rng, db, cfg.clone());
            Some(g.pred(&scope, 1, false))
        } else {
            None
        };
        Select { distinct: false, items, from: Some(From::Table { name: t.name.clone(), alias: alias.to_string() }), where_, group_by: vec![], grouping: Grouping::Plain, sets: vec![], having: None }
    };
    let n = 2 + rng.usize(3);
    let pool = ["x", "y", "z", "u", "v"];
    let left_cols: Vec<(String, Ty)> = (0..n).map(|i| (pool[i].to_string(), *rng.pick(&[Ty::Int, Ty::Int, Ty::Str, Ty::Float, Ty::Bool]))).collect();
    // right: permutation of a subset (at least one common name) + maybe one extra
    let mut right_cols = left_cols.clone();
    rng.shuffle(&mut right_cols);
    if right_cols.len() > 1 && rng.chance(1, 3) {
        right_cols.pop();
    }
    if rng.chance(1, 3) {
        right_cols.insert(rng.usize(right_cols.len() + 1), ("extra".to_string(), *rng.pick(&[Ty::Int, Ty::Str])));
    }
    let l = mk_side(rng, "l", &left_cols);
    let r = mk_side(rng, "q", &right_cols);
    let distinct = rng.chance(1, 3);
    // DataFrame side
    let mut b = Builder::new(tables, Rng::new(rng.next_u64()));
    let ldf = b.query(&Query::simple(l.clone()))?;
    let rdf = b.query(&Query::simple(r.clone()))?;
    for (k, v) in &b.ops {
        for _ in 0..*v {
            ops.push(k.clone());
        }
    }
    let df = if distinct {
        ops.push("union_by_name_distinct".into());
        eng("union_by_name_distinct", ldf.union_by_name_distinct(rdf))?
    } else {
        ops.push("union_by_name".into());
        eng("union_by_name", ldf.union_by_name(rdf))?
    };
    // aligned SQL: result columns = left names, then right-only names; missing ones are typed NULLs
    let mut all: Vec<(String, Ty)> = left_cols.clone();
    for c in &right_cols {
        if !all.iter().any(|x| x.0 == c.0) {
            all.push(c.clone());
        }
    }
    let align = |s: &Select| -> Select {
        let mut s2 = s.clone();
        s2.items = all
            .iter()
            .map(|(n, ty)| match s.items.iter().find(|(_, a)| a == n) {
                Some((e, _)) => (e.clone(), n.clone()),
                None => (Expr::Lit(Value::Null, *ty), n.clone()),
            })
            .collect();
        s2
    };
    let q = Query { ctes: vec![], body: SetExpr::SetOp { op: SetOp::Union, all: !distinct, left: Box::new(SetExpr::Select(Box::new(align(&l)))), right: Box::new(SetExpr::Select(Box::new(align(&r)))) }, order_by: vec![], limit: None, offset: None };
    let by_name = format!("({}) UNION {}BY NAME ({})", Renderer::default().select(&l), if distinct { "" } else { "ALL " }, Renderer::default().select(&r));
    let sql = to_sql(&q);
    let chain = vec![format!("left = {}", Renderer::default().select(&l)), format!("right = {}", Renderer::default().select(&r)), if distinct { "left.union_by_name_distinct(right)".into() } else { "left.union_by_name(right)".into() }];
    Ok(Tmpl { op: if distinct { "union_by_name_distinct" } else { "union_by_name" }, df, query: Some(q), sql, alt_sql: vec![("sql-union-by-name", by_name)], expected: None, mode: CmpMode::Multiset, chain })
}

/// distinct_on(on, select, sort): first row per key under a total order (key, unique id)
pub fn distinct_on(rng: &mut Rng, db: &Db, tables: &HashMap<String, DataFrame>, ops: &mut Vec<String>) -> Conv<Tmpl> {
    let t = &db.tables[rng.usize(db.tables.len())];
    let df = eng("alias", tables[&t.name].clone().alias("r"))?;
    ops.push("table".into());
    ops.push("alias".into());
    let others: Vec<&(String, Ty)> = t.cols.iter().filter(|(n, _)| n != "id").collect();
    let nkeys = 1 + rng.usize(2.min(others.len()));
    let mut keys: Vec<&(String, Ty)> = vec![];
    while keys.len() < nkeys {
        let c = *rng.pick(&others);
        if !keys.iter().any(|k| k.0 == c.0) {
            keys.push(c);
        }
    }
    let col = |n: &str| Expr::Col { rel: "r".into(), name: n.to_string() };
    // select list: keys, id, one more column
    let extra = *rng.pick(&others);
    let mut items: Vec<(Expr, String)> = keys.iter().enumerate().map(|(i, k)| (col(&k.0), format!("k{i}"))).collect();
    items.push((col("id"), format!("k{}", items.len())));
    items.push((col(&extra.0), format!("k{}", items.len())));
    let key_order: Vec<(bool, Option<bool>)> = keys.iter().map(|_| (rng.chance(1, 3), if rng.chance(1, 3) { Some(rng.bool()) } else { None })).collect();
    let id_desc = rng.bool();
    let mut order: Vec<OrderItem> = keys.iter().zip(key_order.iter()).map(|(k, (d, nf))| OrderItem { expr: col(&k.0), desc: *d, nulls_first: *nf }).collect();
    order.push(OrderItem { expr: col("id"), desc: id_desc, nulls_first: None });
    let mut cc = ChainCols;
    let on: Vec<DExpr> = keys.iter().map(|k| qcol("r", &k.0)).collect();
    let sel: Vec<DExpr> = items.iter().map(|(e, a)| to_expr(e, &mut cc).map(|x| x.alias(a.clone()))).collect::<Conv<Vec<_>>>()?;
    let sorts = order.iter().map(|o| to_expr(&o.expr, &mut cc).map(|x| sort_of(x, o.desc, o.nulls_first_eff()))).collect::<Conv<Vec<_>>>()?;
    let df = eng("distinct_on", df.distinct_on(on, sel, Some(sorts)))?;
    ops.push("distinct_on".into());
    let r = Renderer::default();
    let sql = format!(
        "SELECT DISTINCT ON ({}) {} FROM {} AS r ORDER BY {}",
        keys.iter().map(|k| format!("r.{}", k.0)).collect::<Vec<_>>().join(", "),
        items.iter().map(|(e, a)| format!("{} AS {a}", r.expr(e))).collect::<Vec<_>>().join(", "),
        t.name,
        r.order_items(&order)
    );
    // expected: the full select in that total order, first row per key
    let q = Query {
        ctes: vec![],
        body: SetExpr::Select(Box::new(Select { distinct: false, items: items.clone(), from: Some(From::Table { name: t.name.clone(), alias: "r".into() }), where_: None, group_by: vec![], grouping: Grouping::Plain, sets: vec![], having: None })),
        order_by: (0..=nkeys).map(|i| OrderItem { expr: Expr::OutCol(format!("k{i}")), desc: if i < nkeys { key_order[i].0 } else { id_desc }, nulls_first: if i < nkeys { key_order[i].1 } else { None } }).collect(),
        limit: None,
        offset: None,
    };
    let mut it = dfv::refint::Interp::new(db);
    let all = it.run(&q).map_err(|e| NoSpelling(format!("reference: {e:?}")))?.rows;
    let mut expected: Vec<Row> = vec![];
    for row in all {
        if !expected.iter().any(|x| dfv::value::row_group_eq(&x[..nkeys], &row[..nkeys])) {
            expected.push(row);
        }
    }
    let mode = CmpMode::SortedOn((0..nkeys).map(|i| (i, key_order[i].0, key_order[i].1.unwrap_or(key_order[i].0))).collect());
    let chain = vec![format!("table({}).alias(r).distinct_on(..)  ≡  {sql}", t.name)];
    Ok(Tmpl { op: "distinct_on", df, query: None, sql, alt_sql: vec![], expected: Some(expected), mode, chain })
}

/// a small table with list columns: NULL lists, empty lists, NULL elements, different lengths
pub fn list_table(rng: &mut Rng) -> (Vec<(i64, Option<Vec<Option<i64>>>, Option<Vec<Option<i64>>>, Option<i64>)>, Vec<Vec<usize>>) {
    let n = rng.usize(9);
    let mut rows = vec![];
    let gen_list = |rng: &mut Rng| -> Option<Vec<Option<i64>>> {
        match rng.below(6) {
            0 => None,
            1 => Some(vec![]),
            _ => Some((0..1 + rng.usize(3)).map(|_| if rng.chance(1, 5) { None } else { Some(rng.range(-2, 9)) }).collect()),
        }
    };
    for i in 0..n {
        rows.push((i as i64 + 1, gen_list(rng), gen_list(rng), if rng.chance(1, 5) { None } else { Some(rng.range(0, 3)) }));
    }
    // partitions
    let np = 1 + rng.usize(3);
    let mut parts = vec![vec![]; np];
    for i in 0..n {
        parts[rng.usize(np)].push(i);
    }
    (rows, parts)
}

pub fn register_list_table(ctx: &SessionContext, rows: &[(i64, Option<Vec<Option<i64>>>, Option<Vec<Option<i64>>>, Option<i64>)], parts: &[Vec<usize>]) -> datafusion::error::Result<()> {
    let item = || Arc::new(Field::new("item", DataType::Int64, true));
    let schema = Arc::new(Schema::new(vec![
        Field::new("id", DataType::Int64, false),
        Field::new("l", DataType::List(item()), true),
        Field::new("m", DataType::List(item()), true),
        Field::new("x", DataType::Int64, true),
    ]));
    let mut partitions = vec![];
    for p in parts {
        let ids: ArrayRef = Arc::new(Int64Array::from(p.iter().map(|i| rows[*i].0).collect::<Vec<_>>()));
        let l: ArrayRef = Arc::new(ListArray::from_iter_primitive::<Int64Type, _, _>(p.iter().map(|i| rows[*i].1.clone())));
        let m: ArrayRef = Arc::new(ListArray::from_iter_primitive::<Int64Type, _, _>(p.iter().map(|i| rows[*i].2.clone())));
        let x: ArrayRef = Arc::new(Int64Array::from(p.iter().map(|i| rows[*i].3).collect::<Vec<_>>()));
        partitions.push(vec![arrow::record_batch::RecordBatch::try_new(schema.clone(), vec![ids, l, m, x])?]);
    }
    ctx.register_table("tl", Arc::new(MemTable::try_new(schema, partitions)?))?;
    Ok(())
}

/// unnest_columns on `tl`: one or two list columns, the three null-handling modes
pub async fn unnest(rng: &mut Rng, ctx: &SessionContext, rows: &[(i64, Option<Vec<Option<i64>>>, Option<Vec<Option<i64>>>, Option<i64>)], ops: &mut Vec<String>) -> Conv<Tmpl> {
    let df = eng("table", ctx.table("tl").await)?;
    ops.push("table".into());
    let two = rng.chance(1, 3);
    // two columns under the default mode: NULL next to an empty list is not pinned by the docs ⇒ not generated
    let mode_k = if two { *rng.pick(&[0u64, 2]) } else { rng.below(3) };
    let v = |x: Option<i64>| x.map(Value::Int).unwrap_or(Value::Null);
    // expected rows (id, l-element, [m-element,] x) by the UnnestOptions documentation
    let mut expected: Vec<Row> = vec![];
    for (id, l, m, x) in rows {
        let lists: Vec<&Option<Vec<Option<i64>>>> = if two { vec![l, m] } else { vec![l] };
        let longest = lists.iter().map(|l| l.as_ref().map(|v| v.len()).unwrap_or(0)).max().unwrap_or(0);
        let all_null = lists.iter().all(|l| l.is_none());
        let n_out = if longest > 0 {
            longest
        } else {
            match mode_k {
                0 => 0,                                // Drop: NULL and empty lists produce no row
                1 => usize::from(all_null),            // Preserve: a NULL list produces one NULL row, an empty one none
                _ => 1,                                // PreserveAndExpandEmpty
            }
        };
        for i in 0..n_out {
            let mut row = vec![Value::Int(*id)];
            for l in &lists {
                row.push(l.as_ref().and_then(|v| v.get(i).copied().flatten()).map(Value::Int).unwrap_or(Value::Null));
            }
            row.push(v(*x));
            expected.push(row);
        }
    }
    let cols: Vec<&str> = if two { vec!["l", "m"] } else { vec!["l"] };
    let (df, opname, sql) = match mode_k {
        0 => {
            let d = eng("unnest_columns_with_options", df.unnest_columns_with_options(&cols, UnnestOptions::new().with_null_handling(NullHandling::Drop)))?;
            let sql = if two { "SELECT id, unnest(l), unnest(m), x FROM tl" } else { "SELECT id, unnest(l), x FROM tl" };
            (d, "unnest_columns_with_options(Drop)", sql.to_string())
        }
        1 => {
            let d = eng("unnest_columns", df.unnest_columns(&cols))?;
            // default DataFrame mode = SQL unnest plus one NULL row per row whose lists are all NULL
            let sql = if two {
                "SELECT id, unnest(l), unnest(m), x FROM tl UNION ALL SELECT id, NULL, NULL, x FROM tl WHERE l IS NULL AND m IS NULL"
            } else {
                "SELECT id, unnest(l), x FROM tl UNION ALL SELECT id, NULL, x FROM tl WHERE l IS NULL"
            };
            (d, "unnest_columns", sql.to_string())
        }
        _ => {
            let d = eng("unnest_columns_with_options", df.unnest_columns_with_options(&cols, UnnestOptions::new().with_null_handling(NullHandling::PreserveAndExpandEmpty)))?;
            let sql = if two { "SELECT id, unnest_outer(l), unnest_outer(m), x FROM tl" } else { "SELECT id, unnest_outer(l), x FROM tl" };
            (d, "unnest_columns_with_options(PreserveAndExpandEmpty)", sql.to_string())
        }
    };
    ops.push(opname.into());
    // drop the list column that was not unnested so that only scalars are compared
    let df = if two { df } else { eng("drop_columns", df.drop_columns(&["m"]))? };
    if !two {
        ops.push("drop_columns".into());
    }
    let expected = Some(expected);
    let chain = vec![format!("table(tl).{opname}({cols:?})  ≡  {sql}")];
    Ok(Tmpl { op: "unnest_columns", df, query: None, sql, alt_sql: vec![], expected, mode: CmpMode::Multiset, chain })
}
