//! C48 — DataFrame operations compute the same results as the equivalent SQL.
//!
//! Part A: a generated C01 query (constructs with a DataFrame spelling only) is built twice: as SQL
//! text (the AST renderer) and as a chain of DataFrame builder calls (`build::Builder`: table / alias /
//! join / join_on / filter / aggregate (+ rollup / cube / grouping_set) / filter-as-having / window /
//! select / distinct / union* / intersect* / except* / sort / limit, subqueries through
//! scalar_subquery / exists / in_subquery over the inner DataFrame's plan with `out_ref_col`).
//! Part B: dedicated templates for with_column / with_column_renamed / drop_columns chains,
//! union_by_name(_distinct), distinct_on and unnest_columns.
//!
//! ORACLE: the SQL statement with the same meaning executed by the engine on the same context;
//! rows are compared by position under the query's compare mode. The reference interpreter is the
//! second opinion: a deviation the SQL side also shows against the reference is C01's finding.

mod build;
mod templates;

use build::Builder;
use datafusion::prelude::*;
use dfv::canon::{compare, CmpMode};
use dfv::cases::Case;
use dfv::engine::*;
use dfv::qgen::GenCfg;
use dfv::refint::RefErr;
use dfv::value::{rows_to_json, Row, Value};
use std::collections::HashMap;
use vcommon::{json, Args, Json, Report, Rng};

const REQUIRED_OPS: &[&str] = &[
    "table", "alias", "join_on", "join(keys)", "join(keys+filter)", "join_on(no condition)", "join(no keys)", "filter", "select", "aggregate", "filter(having)", "distinct", "sort", "limit",
    "union", "union_distinct", "intersect", "intersect_distinct", "except", "except_distinct", "window", "window(several exprs in one call)", "select(window expr)", "expr:scalar_subquery", "expr:exists", "expr:not_exists",
    "expr:in_subquery", "expr:not_in_subquery", "out_ref_col", "rollup", "cube", "grouping_set", "with_column(new)", "with_column(replace)", "with_column(window expr)", "with_column_renamed",
    "drop_columns", "union_by_name", "union_by_name_distinct", "distinct_on", "unnest_columns", "unnest_columns_with_options(Drop)", "unnest_columns_with_options(PreserveAndExpandEmpty)",
    "join-type:Inner", "join-type:Left", "join-type:Right", "join-type:Full", "join-type:LeftSemi", "join-type:LeftAnti", "join-type:RightSemi", "join-type:RightAnti",
    "expr:case", "expr:in_list", "expr:between", "expr:like", "expr:ilike", "expr:coalesce", "expr:nullif", "expr:cast", "expr:abs", "expr:length", "expr:upper", "expr:lower",
    "agg:CountStar", "agg:Count", "agg:Sum", "agg:Min", "agg:Max", "agg:Avg", "agg:Count+distinct", "agg:Sum+distinct",
];

struct Env {
    selftest: bool,
}

async fn collect_rows(df: DataFrame) -> Result<Vec<Row>, datafusion::error::DataFusionError> {
    Ok(batches_to_rows(&df.collect().await?))
}

fn record_ops(rep: &Report, ops: &[(String, u64)]) {
    for (k, n) in ops {
        rep.count(&format!("op:{k}"), *n);
    }
}

/// the most specific operation of a generated query (signature of a part-A difference)
fn dominant_op(ops: &[(String, u64)]) -> String {
    let has = |p: &str| ops.iter().any(|(k, _)| k.starts_with(p));
    for (prefix, name) in [
        ("win:", "window"), ("window", "window"), ("select(window", "window"), ("grouping_set", "aggregate-grouping-sets"), ("rollup", "aggregate-grouping-sets"), ("cube", "aggregate-grouping-sets"),
        ("intersect", "intersect"), ("except", "except"), ("union", "union"), ("aggregate", "aggregate"), ("expr:scalar_subquery", "subquery"), ("expr:exists", "subquery"), ("expr:not_exists", "subquery"),
        ("expr:in_subquery", "subquery"), ("expr:not_in_subquery", "subquery"), ("join", "join"), ("distinct", "distinct"), ("limit", "sort-limit"), ("sort", "sort-limit"), ("filter", "filter"),
    ] {
        if has(prefix) {
            return name.to_string();
        }
    }
    "select".into()
}

struct Outcome {
    fp: u64,
    sql: String,
    witness_base: Json,
}

#[allow(clippy::too_many_arguments)]
fn judge(rep: &Report, env: &Env, out: &Outcome, op_sig: &str, mode: &CmpMode, df_rows: Result<Vec<Row>, String>, sql_rows: Result<Vec<Row>, (ErrClass, String)>, reference: Option<Result<Vec<Row>, RefErr>>, known: &dyn Fn(&[Row]) -> Option<String>, chain: &[String]) {
    let witness = |what: &str, d: Option<&[Row]>, s: Option<&[Row]>, r: Option<&[Row]>| {
        let mut w = out.witness_base.clone();
        let o = w.as_object_mut().unwrap();
        o.insert("sql".into(), json!(out.sql));
        o.insert("dataframe_calls".into(), json!(chain));
        o.insert("dataframe_rows".into(), json!(d.map(rows_to_json)));
        o.insert("sql_rows".into(), json!(s.map(rows_to_json)));
        o.insert("reference_rows".into(), json!(r.map(rows_to_json)));
        o.insert("compare_mode".into(), json!(format!("{mode:?}")));
        o.insert("what".into(), json!(what));
        w
    };
    let sql_rows = match sql_rows {
        Err((cls, msg)) => {
            rep.case(out.fp, false);
            rep.skip(&format!("sql-side-fails:{cls:?}"));
            if df_rows.is_ok() {
                rep.count("sql_fails_but_dataframe_succeeds", 1);
                if rep.get_count("sql_fails_samples") < 4 {
                    rep.count("sql_fails_samples", 1);
                    rep.extra(&format!("sql_fails_sample_{}", rep.get_count("sql_fails_samples")), json!({"sql": out.sql, "error": msg.chars().take(300).collect::<String>()}));
                }
            } else {
                rep.count("error_agreements", 1);
            }
            return;
        }
        Ok(r) => r,
    };
    let mut df_rows = match df_rows {
        Err(msg) => {
            // the DataFrame plan fails where the SQL text runs: a difference in observable behaviour
            rep.case(out.fp, true);
            let sig = if op_sig.starts_with("window/") { format!("dataframe-vs-sql/{op_sig}") } else { format!("dataframe-vs-sql/{op_sig}/dataframe-fails") };
            rep.violation(&sig, witness(&format!("SQL succeeds, DataFrame execution fails: {}", msg.chars().take(400).collect::<String>()), None, Some(&sql_rows), None));
            return;
        }
        Ok(r) => r,
    };
    if env.selftest {
        if df_rows.pop().is_none() {
            df_rows.push(vec![Value::Int(424242)]);
        }
    }
    let nontrivial = !sql_rows.is_empty();
    rep.case(out.fp, nontrivial);
    rep.count("compared", 1);
    rep.count(&format!("compared:{op_sig}"), 1);
    if nontrivial {
        rep.count("nonempty_results", 1);
    }
    // second opinion on the SQL side
    let mut ref_rows: Option<Vec<Row>> = None;
    let mut sql_dev: Option<String> = None;
    match reference {
        Some(Ok(r)) => {
            if compare(&sql_rows, &r, mode).is_ok() {
                rep.count("sql_agrees_with_reference", 1);
            } else {
                let sig = known(&sql_rows).unwrap_or_else(|| "unclassified".into());
                rep.count(&format!("sql_differs_from_reference(C01):{sig}"), 1);
                sql_dev = Some(sig);
            }
            ref_rows = Some(r);
        }
        Some(Err(RefErr::Unsupported(_))) => rep.count("reference_declines", 1),
        Some(Err(_)) => rep.count("reference_error_engine_succeeds", 1),
        None => {}
    }
    if let Err(diff) = compare(&df_rows, &sql_rows, mode) {
        if let (Some(sig), Some(r)) = (&sql_dev, &ref_rows) {
            if compare(&df_rows, r, mode).is_ok() {
                // the DataFrame answer is the reference's; the SQL side deviates: C01's finding
                rep.skip(&format!("sql-side-deviation(C01):{sig}"));
                return;
            }
        }
        rep.violation(&format!("dataframe-vs-sql/{op_sig}"), witness(&format!("DataFrame rows differ from the rows of the equivalent SQL: {diff}"), Some(&df_rows), Some(&sql_rows), ref_rows.as_deref()));
    } else if rep.want_sample() && nontrivial && chain.len() >= 3 {
        rep.sample(json!({"sql": out.sql, "dataframe_calls": chain, "rows": sql_rows.len()}));
    }
}

fn ops_vec(b: &std::collections::BTreeMap<String, u64>) -> Vec<(String, u64)> {
    b.iter().map(|(k, v)| (k.clone(), *v)).collect()
}

/// a panic inside the DataFrame execution becomes Err("PANIC: ..") instead of tearing the case down
async fn collect_guarded(df: DataFrame) -> Result<Vec<Row>, String> {
    match tokio::spawn(async move { collect_rows(df).await }).await {
        Ok(r) => r.map_err(|e| e.to_string()),
        Err(j) => {
            let msg = if j.is_panic() {
                let p = j.into_panic();
                p.downcast_ref::<String>().cloned().or_else(|| p.downcast_ref::<&str>().map(|s| s.to_string())).unwrap_or_else(|| "<panic>".into())
            } else {
                "task cancelled".to_string()
            };
            Err(format!("PANIC: {msg}"))
        }
    }
}

/// Part A: generated query
fn query_case(rep: &Report, rng: &mut Rng, cfg: &GenCfg, env: &Env, idx: u64) {
    let case = Case::generate(rng, cfg);
    let fp = case.fingerprint();
    let reference = case.reference();
    let spell_seed = rng.next_u64();
    // every 4th case uses the natural spelling of window expressions; the others steer around the three
    // known window spelling differences so that other differences can surface
    let natural = idx % 4 == 0;
    enum Res {
        NoSpelling(String),
        BuilderRejected(String),
        Ran { ops: Vec<(String, u64)>, df: Result<Vec<Row>, String>, sql: Result<Vec<Row>, (ErrClass, String)>, localised: Option<&'static str> },
    }
    let res = vcommon::par::guard(|| {
        let rt = current_thread_rt();
        rt.block_on(async {
            let ctx = default_ctx(3, 3);
            register_db_layout(&ctx, &case.db, &case.layout).expect("register");
            let mut tables = HashMap::new();
            for t in &case.db.tables {
                tables.insert(t.name.clone(), ctx.table(t.name.as_str()).await.expect("table"));
            }
            let mk = |frame: bool, offset: bool, split: bool| {
                let mut b = Builder::new(&tables, Rng::new(spell_seed));
                b.explicit_default_frame = frame;
                b.explicit_lead_lag_offset = offset;
                b.split_window_calls = split;
                b
            };
            let mut b = mk(!natural, !natural, !natural);
            let df = match b.query(&case.query) {
                Ok(df) => df,
                Err(e) => return Some(if b.engine_error.is_some() { Res::BuilderRejected(e.0) } else { Res::NoSpelling(e.0) }),
            };
            let ops = ops_vec(&b.ops);
            let work = async {
                let sql = run_sql(&ctx, &case.sql).await.map(|o| o.rows).map_err(|e| (classify(&e), e.to_string()));
                let dfr = collect_guarded(df).await;
                // localisation re-runs: which explicit spelling restores agreement with the SQL rows?
                let mut localised = None;
                if let Ok(s) = &sql {
                    let differs = match &dfr {
                        Ok(a) => compare(a, s, &case.mode).is_err(),
                        Err(_) => true,
                    };
                    if natural && differs && ops.iter().any(|(k, _)| k.starts_with("win:")) {
                        for (flags, name) in [((true, false, false), "window/default-frame-is-rows-not-range"), ((false, true, false), "window/lead-lag-omitted-offset-is-0"), ((false, false, true), "window/mixed-sort-keys-in-one-window-call"), ((true, true, true), "window/several-known-window-spellings")] {
                            let mut b2 = mk(flags.0, flags.1, flags.2);
                            if let Ok(df2) = b2.query(&case.query) {
                                if let Ok(rows2) = collect_guarded(df2).await {
                                    if compare(&rows2, s, &case.mode).is_ok() {
                                        localised = Some(name);
                                        break;
                                    }
                                }
                            }
                        }
                    }
                }
                Res::Ran { ops, df: dfr, sql, localised }
            };
            tokio::time::timeout(std::time::Duration::from_secs(180), work).await.ok()
        })
    });
    match res {
        Err(panic) => {
            rep.case(fp, false);
            rep.count("panics", 1);
            if rep.get_count("panics") <= 3 {
                rep.extra(&format!("panic_{}", rep.get_count("panics")), json!({"panic": panic, "sql": case.sql}));
            }
            rep.skip("panic (see extra.panic_*)");
        }
        Ok(None) => {
            rep.case(fp, false);
            rep.inconclusive("a case exceeded the 180 s wall-clock guard");
        }
        Ok(Some(Res::NoSpelling(why))) => {
            rep.case(fp, false);
            let kind = why.split(':').next().unwrap_or("").split('(').next().unwrap_or("").trim().to_string();
            rep.skip(&format!("no-dataframe-spelling: {kind}"));
        }
        Ok(Some(Res::BuilderRejected(why))) => {
            rep.case(fp, false);
            let call = why.split(':').next().unwrap_or("").to_string();
            rep.skip(&format!("dataframe-builder-rejects: {call}"));
            if rep.get_count(&format!("builder_reject_samples:{call}")) < 2 {
                rep.count(&format!("builder_reject_samples:{call}"), 1);
                rep.extra(&format!("builder_reject_sample:{call}:{}", rep.get_count(&format!("builder_reject_samples:{call}"))), json!({"sql": case.sql, "error": why.chars().take(300).collect::<String>()}));
            }
        }
        Ok(Some(Res::Ran { ops, df, sql, localised })) => {
            record_ops(rep, &ops);
            rep.count(if natural { "window_spelling:natural" } else { "window_spelling:explicit" }, 1);
            for f in &case.feats {
                rep.seen("features", f);
            }
            let op_sig = localised.map(|s| s.to_string()).unwrap_or_else(|| dominant_op(&ops));
            let chain: Vec<String> = ops.iter().map(|(k, n)| format!("{k} x{n}")).collect();
            let out = Outcome { fp, sql: case.sql.clone(), witness_base: json!({"tables": db_to_json(&case.db), "layout": json!(case.layout), "features": case.feats.iter().collect::<Vec<_>>(), "window_spelling": if natural { "natural (no frame call without frame clause, lag/lead offset omitted, one window() call)" } else { "explicit" }, "agreement_restored_by": localised}) };
            judge(rep, env, &out, &op_sig, &case.mode, df, sql, Some(reference), &|rows| dfv::cases::explain_by_known_deviation(&case, rows), &chain);
        }
    }
}

/// Part B: operation templates
fn template_case(rep: &Report, rng: &mut Rng, kind: u64, env: &Env) {
    let db = dfv::qgen::gen_db(rng, 12);
    let nparts = 1 + rng.usize(3);
    let layout = random_db_layout(&db, nparts, 3, rng);
    let (lrows, lparts) = templates::list_table(rng);
    let mut trng = Rng::new(rng.next_u64());
    struct Ran {
        t_op: &'static str,
        ops: Vec<String>,
        chain: Vec<String>,
        sql: String,
        mode: CmpMode,
        df: Result<Vec<Row>, String>,
        sqlr: Result<Vec<Row>, (ErrClass, String)>,
        alts: Vec<(&'static str, String, Result<Vec<Row>, String>)>,
        reference: Option<Result<Vec<Row>, RefErr>>,
    }
    let res = vcommon::par::guard(|| {
        let rt = current_thread_rt();
        rt.block_on(async {
            let ctx = default_ctx(3, 3);
            register_db_layout(&ctx, &db, &layout).expect("register");
            templates::register_list_table(&ctx, &lrows, &lparts).expect("register tl");
            let mut tables = HashMap::new();
            for t in &db.tables {
                tables.insert(t.name.clone(), ctx.table(t.name.as_str()).await.expect("table"));
            }
            let mut ops = vec![];
            let t = match kind % 6 {
                0 | 1 => templates::chain(&mut trng, &db, &tables, &mut ops),
                2 | 3 => templates::union_by_name(&mut trng, &db, &tables, &mut ops),
                4 => templates::distinct_on(&mut trng, &db, &tables, &mut ops),
                _ => templates::unnest(&mut trng, &ctx, &lrows, &mut ops).await,
            };
            let t = match t {
                Ok(t) => t,
                Err(e) => return Err(e.0),
            };
            let reference = match (&t.query, &t.expected) {
                (Some(q), _) => Some(dfv::refint::Interp::new(&db).run(q).map(|r| r.rows)),
                (None, Some(rows)) => Some(Ok(rows.clone())),
                _ => None,
            };
            let sqlr = run_sql(&ctx, &t.sql).await.map(|o| o.rows).map_err(|e| (classify(&e), e.to_string()));
            let dfr = collect_guarded(t.df).await;
            let mut alts = vec![];
            for (label, text) in &t.alt_sql {
                alts.push((*label, text.clone(), run_sql(&ctx, text).await.map(|o| o.rows).map_err(|e| e.to_string())));
            }
            Ok(Ran { t_op: t.op, ops, chain: t.chain, sql: t.sql, mode: t.mode, df: dfr, sqlr, alts, reference })
        })
    });
    let fp_of = |s: &str| vcommon::fp_mix(vcommon::fp_str(s), vcommon::fp_str(&db_to_json(&db).to_string()));
    match res {
        Err(panic) => {
            rep.count("panics", 1);
            if rep.get_count("panics") <= 3 {
                rep.extra(&format!("panic_{}", rep.get_count("panics")), json!({"panic": panic, "template": kind % 6}));
            }
            rep.skip("panic (see extra.panic_*)");
        }
        Ok(Err(why)) => {
            rep.case(fp_of(&why), false);
            let call = why.split(':').next().unwrap_or("").to_string();
            rep.skip(&format!("template-builder-rejects: {call}"));
            if rep.get_count(&format!("builder_reject_samples:{call}")) < 2 {
                rep.count(&format!("builder_reject_samples:{call}"), 1);
                rep.extra(&format!("builder_reject_sample:{call}:{}", rep.get_count(&format!("builder_reject_samples:{call}"))), json!({"error": why.chars().take(400).collect::<String>()}));
            }
        }
        Ok(Ok(r)) => {
            let mut hist: std::collections::BTreeMap<String, u64> = Default::default();
            for o in &r.ops {
                *hist.entry(o.clone()).or_insert(0) += 1;
            }
            record_ops(rep, &ops_vec(&hist));
            let lt = json!(lrows.iter().map(|(id, l, m, x)| json!({"id": id, "l": l, "m": m, "x": x})).collect::<Vec<_>>());
            let out = Outcome { fp: fp_of(&format!("{}{:?}", r.sql, r.chain)), sql: r.sql.clone(), witness_base: json!({"tables": db_to_json(&db), "layout": json!(layout), "list_table_tl": lt}) };
            // the alternative SQL spellings must agree with the DataFrame as well
            if let Ok(dfrows) = &r.df {
                for (label, alt_text, alt) in &r.alts {
                    match alt {
                        Ok(rows) => {
                            rep.count(&format!("compared:{label}"), 1);
                            let mut d = dfrows.clone();
                            if env.selftest {
                                d.pop();
                            }
                            if let Err(diff) = compare(&d, rows, &r.mode) {
                                rep.violation(&format!("dataframe-vs-sql/{}/{label}", r.t_op), json!({"sql": alt_text, "dataframe_calls": r.chain, "dataframe_rows": rows_to_json(&d), "sql_rows": rows_to_json(rows), "tables": db_to_json(&db), "layout": json!(layout), "what": diff}));
                            }
                        }
                        Err(_) => rep.skip(&format!("{label}: sql rejected")),
                    }
                }
            }
            let mode = r.mode.clone();
            judge(rep, env, &out, r.t_op, &mode, r.df, r.sqlr, r.reference, &|_| None, &r.chain);
        }
    }
}

fn run(args: &Args) -> i32 {
    let rep = Report::new("C48", "exploration", args);
    rep.set_rule("case = (generated tables, a generated query or an operation template) built as SQL text and as a chain of DataFrame builder calls, both executed on the same context (3 target partitions, batch size 3); distinct = hash(SQL text + table contents); non-trivial = both sides ran and the SQL result is non-empty");
    rep.assume("the AST → DataFrame mapping of build.rs / dfapi.rs is the intended API spelling of each SQL construct (one builder call per construct, no simplification)");
    rep.assume("generated queries are deterministic by construction; column names are not compared (positional comparison)");
    let env = Env { selftest: args.opt_u64("selftest", 0) == 1 };
    // constructs without a DataFrame spelling are not generated
    let cfg = GenCfg { ctes: false, series: false, ..GenCfg::default() };
    rep.extra(
        "not_generated",
        json!([
            "CTEs incl. recursive (a DataFrame variable is the only spelling; derived tables cover the plan shape)",
            "generate_series / range table functions (SQL-only table functions)",
            "quantified comparisons ANY/ALL (no expr_fn; generated by the grammar but skipped, counted under skips)"
        ]),
    );
    let n_sys = args.bound("systematic", 1400, 5000);
    let n_tmpl = args.bound("templates", 900, 6000);
    let n_rand = args.bound("random", 1200, 40_000);
    vcommon::par::run(args.workers, 0..n_sys + n_tmpl, |i| {
        if i < n_sys {
            let mut rng = Rng::derive(0xC48, &[0, i]);
            let mut c = cfg.clone();
            c.max_depth = 1 + (i % 3) as usize;
            query_case(&rep, &mut rng, &c, &env, i);
        } else {
            let k = i - n_sys;
            let mut rng = Rng::derive(0xC48, &[2, k]);
            template_case(&rep, &mut rng, k, &env);
        }
    });
    for op in REQUIRED_OPS {
        rep.obligation(&format!("op:{op}"), rep.get_count(&format!("op:{op}")) > 0, "operation must be part of a compared chain in the systematic part");
    }
    vcommon::par::run(args.workers, 0..n_rand, |i| {
        if rep.violation_count() > 40 || !rep.within_budget(args.tier.pick(75.0, 1500.0)) {
            return;
        }
        let mut rng = Rng::derive(args.seed, &[48, 1, i]);
        if i % 3 == 2 {
            template_case(&rep, &mut rng, i / 3, &env);
        } else {
            let mut c = cfg.clone();
            c.max_depth = 1 + (i % 4) as usize;
            if i % 7 == 0 {
                c.max_rows = 30;
            }
            query_case(&rep, &mut rng, &c, &env, i);
        }
    });
    let compared = rep.get_count("compared");
    rep.obligation("compared-share", compared * 100 >= (n_sys + n_tmpl) * 50, "at least half of the systematic cases must be compared");
    rep.finish()
}

fn main() {
    let args = Args::parse();
    vcommon::par::quiet_panics();
    std::process::exit(run(&args));
}
