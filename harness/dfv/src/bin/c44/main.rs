//! C44 — files with a differing schema are read faithfully into the table schema.

#[path = "../c22/pg.rs"]
mod pg;

use arrow::array::*;
use arrow::compute::{cast_with_options, CastOptions};
use arrow::datatypes::{DataType, Field, Fields, Schema, SchemaRef, TimeUnit};
use arrow::record_batch::RecordBatch;
use datafusion::datasource::file_format::parquet::ParquetFormat;
use datafusion::datasource::listing::{ListingOptions, ListingTable, ListingTableConfig, ListingTableUrl};
use datafusion::error::DataFusionError;
use datafusion::functions::core::expr_fn::get_field;
use datafusion::functions_aggregate::count::count_all;
use datafusion::prelude::*;
use datafusion_common::nested_struct::cast_column;
use datafusion_common::DFSchema;
use datafusion_expr::{binary_expr, Expr};
use datafusion_physical_expr_adapter::{BatchAdapterFactory, DefaultPhysicalExprAdapterFactory, PhysicalExprAdapterFactory};
use parquet::arrow::ArrowWriter;
use parquet::basic::Compression;
use parquet::file::properties::{EnabledStatistics, WriterProperties};
use pg::*;
use std::collections::BTreeSet;
use std::sync::Arc;
use vcommon::{fp_mix, fp_str, json, Args, Json, Report, Rng};

// ------------------------------------------------------------------------------------------
// table and file schemas
// ------------------------------------------------------------------------------------------

const STRUCT_COL: &str = "st";

fn table_struct_fields() -> Fields {
    Fields::from(vec![Field::new("a", DataType::Int64, true), Field::new("b", DataType::Utf8, true), Field::new("c", DataType::Float64, true)])
}

struct TableDef {
    /// primitive columns (name, type); `id` first
    cols: Vec<ColSpec>,
    has_struct: bool,
}

impl TableDef {
    fn schema(&self) -> SchemaRef {
        let mut f: Vec<Field> = self.cols.iter().map(|c| Field::new(&c.name, c.ct.arrow(), true)).collect();
        if self.has_struct {
            f.push(Field::new(STRUCT_COL, DataType::Struct(table_struct_fields()), true));
        }
        Arc::new(Schema::new(f))
    }
    fn ddl(&self, dir: &str) -> String {
        let ty = |ct: CT| match ct {
            CT::I32 => "INT",
            CT::I64 => "BIGINT",
            CT::F64 => "DOUBLE",
            CT::Str => "VARCHAR",
            CT::Bool => "BOOLEAN",
            CT::Date => "DATE",
            CT::Dec => "DECIMAL(10,2)",
            CT::Ts => "TIMESTAMP",
        };
        let mut c: Vec<String> = self.cols.iter().map(|c| format!("{} {}", c.name, ty(c.ct))).collect();
        if self.has_struct {
            c.push(format!("{STRUCT_COL} STRUCT<a BIGINT, b VARCHAR, c DOUBLE>"));
        }
        format!("CREATE EXTERNAL TABLE t ({}) STORED AS PARQUET LOCATION '{dir}'", c.join(", "))
    }
}

/// physical types a file may use for a table column of type `ct` (first = identical)
fn file_types(ct: CT) -> Vec<DataType> {
    match ct {
        CT::I32 => vec![DataType::Int32, DataType::Int64, DataType::Int16],
        CT::I64 => vec![DataType::Int64, DataType::Int32],
        CT::F64 => vec![DataType::Float64, DataType::Float32],
        CT::Str => vec![DataType::Utf8, DataType::LargeUtf8, DataType::Utf8View],
        CT::Bool => vec![DataType::Boolean],
        CT::Date => vec![DataType::Date32],
        CT::Ts => vec![DataType::Timestamp(TimeUnit::Microsecond, None), DataType::Date32, DataType::Timestamp(TimeUnit::Millisecond, None)],
        CT::Dec => vec![DataType::Decimal128(10, 2), DataType::Decimal128(8, 2), DataType::Decimal128(6, 2), DataType::Decimal128(9, 1)],
    }
}

/// a type that arrow cannot cast to the table type (the scan must reject it)
fn non_castable(ct: CT) -> Option<DataType> {
    match ct {
        CT::Date | CT::Ts => Some(DataType::Boolean),
        CT::Bool => Some(DataType::Date32),
        CT::Dec => Some(DataType::Date32),
        _ => None,
    }
}

#[derive(Clone, Debug)]
struct FileCol {
    name: String,
    dt: DataType,
    /// table column index it corresponds to (None = extra column)
    table_col: Option<usize>,
}

struct FileDef {
    cols: Vec<FileCol>,
    /// struct column as written in this file (None = missing)
    st: Option<(usize, Fields)>,
    kinds: BTreeSet<&'static str>,
    batch: RecordBatch,
}

fn gen_struct_fields(rng: &mut Rng, kinds: &mut BTreeSet<&'static str>) -> Fields {
    let mut f: Vec<Field> = vec![Field::new("a", DataType::Int64, true), Field::new("b", DataType::Utf8, true), Field::new("c", DataType::Float64, true)];
    if rng.chance(1, 2) {
        rng.shuffle(&mut f);
        kinds.insert("struct-fields-reordered");
    }
    if rng.chance(1, 3) {
        let k = rng.usize(f.len());
        f.remove(k);
        kinds.insert("struct-field-removed");
        if rng.chance(1, 4) {
            let k = rng.usize(f.len());
            f.remove(k);
        }
    }
    if rng.chance(1, 3) {
        let at = rng.usize(f.len() + 1);
        f.insert(at, Field::new("zz", DataType::Int32, true));
        kinds.insert("struct-field-added");
    }
    if rng.chance(1, 4) {
        for x in f.iter_mut() {
            if x.name() == "a" {
                *x = Field::new("a", DataType::Int32, true);
                kinds.insert("struct-field-type-changed");
            } else if x.name() == "c" && rng.bool() {
                *x = Field::new("c", DataType::Float32, true);
                kinds.insert("struct-field-type-changed");
            }
        }
    }
    if rng.chance(1, 25) {
        // no overlapping field name at all: must be rejected
        kinds.insert("struct-no-common-field");
        return Fields::from(vec![Field::new("p", DataType::Int64, true), Field::new("q", DataType::Utf8, true)]);
    }
    Fields::from(f)
}

fn gen_array(rng: &mut Rng, dt: &DataType, n: usize, table_ct: Option<CT>, dom: Dom) -> ArrayRef {
    // values are generated in the table column's domain and converted into the file's physical type
    let ct = table_ct.unwrap_or(match dt {
        DataType::Int32 | DataType::Int16 => CT::I32,
        DataType::Int64 => CT::I64,
        DataType::Float64 | DataType::Float32 => CT::F64,
        DataType::Boolean => CT::Bool,
        DataType::Date32 => CT::Date,
        _ => CT::Str,
    });
    let null_rate = *rng.pick(&[0u64, 1, 1, 3, 8]);
    let vals: Vec<V> = (0..n).map(|_| if rng.below(10) < null_rate { V::Null } else { gen_value(rng, ct, dom) }).collect();
    let base = build_array(ct, &vals);
    if base.data_type() == dt {
        return base;
    }
    let opts = CastOptions { safe: true, ..Default::default() };
    match (ct, dt) {
        // boolean <- date etc. (non-castable kinds): produce plain values of the file type
        (_, DataType::Boolean) => Arc::new(BooleanArray::from_iter(vals.iter().map(|v| if v.is_null() { None } else { Some(rng.bool()) }))),
        (_, DataType::Date32) if !matches!(ct, CT::Ts | CT::Date) => Arc::new(Date32Array::from_iter(vals.iter().map(|v| if v.is_null() { None } else { Some(rng.range(-3, 3) as i32) }))),
        _ => cast_with_options(&base, dt, &opts).expect("harness conversion into the file type"),
    }
}

fn gen_struct_array(rng: &mut Rng, fields: &Fields, n: usize) -> ArrayRef {
    let dom = Dom { special_floats: false, extremes: false };
    let children: Vec<ArrayRef> = fields.iter().map(|f| gen_array(rng, f.data_type(), n, None, dom)).collect();
    let null_rate = *rng.pick(&[0u64, 0, 2, 10]);
    let validity: Vec<bool> = (0..n).map(|_| rng.below(10) >= null_rate).collect();
    // Parquet cannot hold a value below a NULL struct: children are NULL wherever the struct is
    let invalid = BooleanArray::from(validity.iter().map(|v| !*v).collect::<Vec<_>>());
    let children: Vec<ArrayRef> = children.iter().map(|c| arrow::compute::nullif(c, &invalid).expect("nullif")).collect();
    let nulls = if validity.iter().all(|v| *v) { None } else { Some(arrow::buffer::NullBuffer::from(validity)) };
    Arc::new(StructArray::try_new(fields.clone(), children, nulls).expect("struct array"))
}

fn gen_file(rng: &mut Rng, t: &TableDef, next_id: &mut i64, allow_non_castable: bool) -> FileDef {
    let n = match rng.below(12) {
        0 => 0,
        1 => 1,
        _ => 5 + rng.usize(40),
    };
    let mut kinds: BTreeSet<&'static str> = BTreeSet::new();
    let mut cols: Vec<FileCol> = vec![];
    for (i, c) in t.cols.iter().enumerate() {
        if i > 0 && rng.chance(1, 6) {
            kinds.insert("column-missing");
            continue;
        }
        let tys = file_types(c.ct);
        let mut dt = tys[0].clone();
        if tys.len() > 1 && rng.chance(1, 3) {
            dt = tys[1 + rng.usize(tys.len() - 1)].clone();
            kinds.insert(match c.ct {
                CT::I32 | CT::I64 => "type:int-width",
                CT::F64 => "type:float32-to-float64",
                CT::Str => "type:string-encoding",
                CT::Ts => "type:date-or-ms-to-timestamp",
                CT::Dec => "type:decimal-widening",
                _ => "type:other",
            });
        }
        if allow_non_castable && i > 0 && rng.chance(1, 40) {
            if let Some(bad) = non_castable(c.ct) {
                dt = bad;
                kinds.insert("type:non-castable");
            }
        }
        cols.push(FileCol { name: c.name.clone(), dt, table_col: Some(i) });
    }
    for x in 0..rng.usize(3) {
        if rng.chance(1, 2) {
            let dt = rng.pick(&[DataType::Int64, DataType::Utf8, DataType::Float64, DataType::Boolean]).clone();
            cols.push(FileCol { name: format!("extra{x}"), dt, table_col: None });
            kinds.insert("column-extra");
        }
    }
    let mut st_fields = None;
    if t.has_struct {
        if rng.chance(1, 7) {
            kinds.insert("struct-column-missing");
        } else {
            st_fields = Some(gen_struct_fields(rng, &mut kinds));
        }
    }
    // column order
    let mut order: Vec<usize> = (0..cols.len() + st_fields.is_some() as usize).collect();
    if rng.chance(2, 3) {
        rng.shuffle(&mut order);
        if order.iter().enumerate().any(|(i, o)| i != *o) {
            kinds.insert("columns-permuted");
        }
    }
    let dom = Dom { special_floats: false, extremes: rng.chance(1, 6) };
    let mut fields = vec![];
    let mut arrays: Vec<ArrayRef> = vec![];
    let mut st = None;
    let mut out_cols = vec![];
    for o in order {
        if o < cols.len() {
            let c = &cols[o];
            let arr: ArrayRef = if c.name == "id" {
                let ids: Vec<i64> = (0..n as i64).map(|k| *next_id + k).collect();
                let base: ArrayRef = Arc::new(Int64Array::from(ids));
                cast_with_options(&base, &c.dt, &CastOptions::default()).expect("id")
            } else {
                gen_array(rng, &c.dt, n, c.table_col.map(|i| t.cols[i].ct), dom)
            };
            fields.push(Field::new(&c.name, c.dt.clone(), true));
            arrays.push(arr);
            out_cols.push(c.clone());
        } else if let Some(f) = &st_fields {
            st = Some((fields.len(), f.clone()));
            fields.push(Field::new(STRUCT_COL, DataType::Struct(f.clone()), true));
            arrays.push(gen_struct_array(rng, f, n));
        }
    }
    *next_id += n as i64;
    if kinds.is_empty() {
        kinds.insert("identical-schema");
    }
    let schema = Arc::new(Schema::new(fields));
    let opts = RecordBatchOptions::new().with_row_count(Some(n));
    let batch = RecordBatch::try_new_with_options(schema, arrays, &opts).expect("file batch");
    FileDef { cols: out_cols, st, kinds, batch }
}

// ------------------------------------------------------------------------------------------
// harness-side adaptation (the oracle)
// ------------------------------------------------------------------------------------------

fn adapt_array(src: &ArrayRef, target: &DataType) -> Result<ArrayRef, String> {
    if src.data_type() == target {
        return Ok(src.clone());
    }
    match target {
        DataType::Struct(tfields) => {
            let s = src.as_any().downcast_ref::<StructArray>().ok_or("source is not a struct")?;
            if !tfields.iter().any(|t| s.column_by_name(t.name()).is_some()) {
                return Err("no common struct field".into());
            }
            let mut children = vec![];
            for tf in tfields.iter() {
                match s.column_by_name(tf.name()) {
                    Some(c) => children.push(adapt_array(c, tf.data_type())?),
                    None => children.push(new_null_array(tf.data_type(), s.len())),
                }
            }
            Ok(Arc::new(StructArray::try_new(tfields.clone(), children, s.nulls().cloned()).map_err(|e| e.to_string())?))
        }
        _ => {
            if !arrow::compute::can_cast_types(src.data_type(), target) {
                return Err(format!("cannot cast {} to {}", src.data_type(), target));
            }
            cast_with_options(src, target, &CastOptions { safe: false, ..Default::default() }).map_err(|e| e.to_string())
        }
    }
}

/// per column matched BY NAME: cast, NULL fill for missing columns, extra columns dropped, table order
fn adapt_batch(raw: &RecordBatch, table: &Schema) -> Result<RecordBatch, String> {
    let mut arrays = vec![];
    for f in table.fields() {
        match raw.schema().index_of(f.name()) {
            Ok(i) => arrays.push(adapt_array(raw.column(i), f.data_type())?),
            Err(_) => arrays.push(new_null_array(f.data_type(), raw.num_rows())),
        }
    }
    let opts = RecordBatchOptions::new().with_row_count(Some(raw.num_rows()));
    RecordBatch::try_new_with_options(Arc::new(table.clone()), arrays, &opts).map_err(|e| e.to_string())
}

// ------------------------------------------------------------------------------------------
// queries
// ------------------------------------------------------------------------------------------

struct Query {
    pred: P,
    /// extra conjunct on a struct field: st.<field> <op> literal
    st_pred: Option<(String, CmpOp, Expr, String)>,
    proj: Vec<String>,
    count: bool,
}

impl Query {
    fn filter_expr(&self, t: &TableDef) -> Expr {
        let mut e = self.pred.expr(&t.cols);
        if let Some((f, op, l, _)) = &self.st_pred {
            e = e.and(binary_expr(get_field(colref(STRUCT_COL), f.as_str()), op.op(), l.clone()));
        }
        e
    }
    fn text(&self, t: &TableDef) -> String {
        let mut w = self.pred.text(&t.cols);
        if let Some((f, op, _, l)) = &self.st_pred {
            w = format!("({w}) AND {STRUCT_COL}['{f}'] {} {l}", op.text());
        }
        if self.count {
            format!("SELECT count(*) FROM t WHERE {w}")
        } else {
            format!("SELECT {} FROM t WHERE {w}", self.proj.join(", "))
        }
    }
}

fn gen_query(rng: &mut Rng, t: &TableDef) -> (Query, BTreeSet<&'static str>) {
    let cfg = PredCfg { dom: Dom { special_floats: false, extremes: false }, max_depth: 2, ilike: false, ..PredCfg::default() };
    let depth = rng.usize(3);
    let (pred, tags) = {
        let mut g = PredGen::new(rng, &t.cols, &cfg);
        let p = g.pred(depth);
        (p, g.tags)
    };
    let st_pred = if t.has_struct && rng.chance(1, 4) {
        let op = *rng.pick(&[CmpOp::Eq, CmpOp::Ne, CmpOp::Lt, CmpOp::Ge]);
        Some(match rng.below(3) {
            0 => {
                let v = rng.range(-6, 6);
                ("a".to_string(), op, lit(v), v.to_string())
            }
            1 => {
                let s = rng.pick(STR_POOL).to_string();
                ("b".to_string(), op, lit(s.clone()), format!("'{s}'"))
            }
            _ => {
                let v = *rng.pick(&[-1.0f64, 0.0, 0.5, 1.5]);
                ("c".to_string(), op, lit(v), format!("{v:?}"))
            }
        })
    } else {
        None
    };
    let mut names: Vec<String> = t.cols.iter().map(|c| c.name.clone()).collect();
    if t.has_struct {
        names.push(STRUCT_COL.to_string());
    }
    let mut proj: Vec<String> = names.iter().filter(|_| rng.chance(1, 2)).cloned().collect();
    rng.shuffle(&mut proj);
    if proj.is_empty() {
        proj.push("id".into());
    }
    (Query { pred, st_pred, proj, count: rng.chance(1, 6) }, tags)
}

/// TRUE-mask of the (unsimplified) physical filter evaluated in memory over an adapted (table-schema) batch
fn oracle_mask(q: &Query, t: &TableDef, adapted: &RecordBatch, ctx: &SessionContext, tschema: &SchemaRef) -> Result<Vec<bool>, String> {
    let df = DFSchema::try_from(tschema.as_ref().clone()).map_err(|e| e.to_string())?;
    let phys = ctx.create_physical_expr(q.filter_expr(t), &df).map_err(|e| e.to_string())?;
    let v = phys.evaluate(adapted).map_err(|e| e.to_string())?;
    let arr = v.into_array(adapted.num_rows()).map_err(|e| e.to_string())?;
    let b = arr.as_any().downcast_ref::<BooleanArray>().ok_or("filter is not boolean")?;
    Ok((0..b.len()).map(|i| b.is_valid(i) && b.value(i)).collect())
}

/// the harness' own evaluator over an adapted batch (None when it does not model the predicate)
fn own_mask(q: &Query, t: &TableDef, adapted: &RecordBatch) -> Option<Vec<bool>> {
    let ncols = t.cols.len();
    let rows = batches_to_rows(&[adapted.clone()]);
    rows.iter().map(|r| q.pred.eval(&r[..ncols], &t.cols).ok().map(|v| v == Some(true))).collect()
}

fn project_rows(adapted: &RecordBatch, mask: &[bool], proj: &[String]) -> Vec<Vec<V>> {
    let idx: Vec<usize> = proj.iter().map(|p| adapted.schema().index_of(p).expect("projected column")).collect();
    (0..adapted.num_rows()).filter(|i| mask[*i]).map(|i| idx.iter().map(|c| cell(adapted.column(*c).as_ref(), i)).collect()).collect()
}

fn batch_json(b: &RecordBatch) -> Json {
    json!({
        "schema": b.schema().fields().iter().map(|f| format!("{}: {}", f.name(), f.data_type())).collect::<Vec<_>>(),
        "rows": rows_json(&batches_to_rows(&[b.clone()])),
    })
}

struct Ctl {
    selftest: bool,
    preds: u64,
}

fn write_file(path: &std::path::Path, b: &RecordBatch, rng: &mut Rng) -> Result<(), String> {
    let props = WriterProperties::builder()
        .set_compression(Compression::UNCOMPRESSED)
        .set_max_row_group_row_count(Some(*rng.pick(&[3usize, 10, 1000])))
        .set_statistics_enabled(*rng.pick(&[EnabledStatistics::Page, EnabledStatistics::Chunk, EnabledStatistics::None]))
        .set_dictionary_enabled(rng.bool())
        .build();
    let f = std::fs::File::create(path).map_err(|e| e.to_string())?;
    let mut w = ArrowWriter::try_new(f, b.schema(), Some(props)).map_err(|e| e.to_string())?;
    w.write(b).map_err(|e| e.to_string())?;
    w.close().map_err(|e| e.to_string())?;
    Ok(())
}

fn diff_note(got: &[Vec<V>], want: &[Vec<V>]) -> Json {
    let mut g: Vec<Vec<V>> = got.to_vec();
    let mut w: Vec<Vec<V>> = want.to_vec();
    sort_rows(&mut g);
    sort_rows(&mut w);
    let (mut i, mut j) = (0, 0);
    let (mut extra, mut missing) = (vec![], vec![]);
    while i < g.len() || j < w.len() {
        if i < g.len() && j < w.len() && rows_same(&g[i], &w[j]) {
            i += 1;
            j += 1;
        } else if j >= w.len() || (i < g.len() && row_total_cmp(&g[i], &w[j]) == std::cmp::Ordering::Less) {
            extra.push(g[i].clone());
            i += 1;
        } else {
            missing.push(w[j].clone());
            j += 1;
        }
    }
    json!({"observed_rows": got.len(), "expected_rows": want.len(), "expected_but_missing": rows_json(&missing[..missing.len().min(8)]), "observed_but_unexpected": rows_json(&extra[..extra.len().min(8)]), "n_missing": missing.len(), "n_unexpected": extra.len()})
}

fn placement(q: &Query, t: &TableDef, files: &[FileDef]) -> BTreeSet<&'static str> {
    let mut cols = BTreeSet::new();
    q.pred.columns(&mut cols);
    let mut out = BTreeSet::new();
    for c in cols {
        let name = &t.cols[c].name;
        let mut missing = false;
        let mut castcol = false;
        for f in files {
            match f.cols.iter().find(|x| &x.name == name) {
                None => missing = true,
                Some(fc) => {
                    if fc.dt != t.cols[c].ct.arrow() {
                        castcol = true
                    }
                }
            }
        }
        out.insert(if missing { "predicate-on-missing-column" } else if castcol { "predicate-on-cast-column" } else { "predicate-on-present-column" });
    }
    if q.st_pred.is_some() {
        out.insert("predicate-on-struct-field");
    }
    if out.is_empty() {
        out.insert("predicate-without-columns");
    }
    out
}

fn one_table(rep: &Report, rng: &mut Rng, ctl: &Ctl, systematic: bool) {
    // ---- table definition ------------------------------------------------------------------
    let mut cols = vec![ColSpec { name: "id".into(), ct: CT::I64 }];
    const TYPES: [CT; 8] = [CT::I32, CT::I64, CT::F64, CT::Str, CT::Bool, CT::Date, CT::Dec, CT::Ts];
    let k = 5 + rng.usize(4);
    for i in 0..k {
        // two adjacent columns of the same type make position-based matching visible
        let ct = if i == 1 { cols[1].ct } else { *rng.pick(&TYPES) };
        cols.push(ColSpec { name: format!("c{i}"), ct });
    }
    let t = TableDef { cols, has_struct: rng.chance(3, 5) };
    let nfiles = 2 + rng.usize(3);
    let mut next_id = 0i64;
    let allow_bad = rng.chance(1, 3);
    let files: Vec<FileDef> = (0..nfiles).map(|_| gen_file(rng, &t, &mut next_id, allow_bad)).collect();
    let tmp = match tempfile::Builder::new().prefix("c44-").tempdir_in(std::env::temp_dir()) {
        Ok(t) => t,
        Err(e) => {
            rep.inconclusive(&format!("cannot create a temp dir: {e}"));
            return;
        }
    };
    for (i, f) in files.iter().enumerate() {
        if let Err(e) = write_file(&tmp.path().join(format!("f{i}.parquet")), &f.batch, rng) {
            rep.skip("writer-error");
            rep.extra("writer_error_sample", json!({"schema": format!("{:?}", f.batch.schema()), "error": e}));
            return;
        }
    }
    let dir = format!("{}/", tmp.path().display());
    let all_kinds: BTreeSet<&'static str> = files.iter().flat_map(|f| f.kinds.iter().copied()).collect();
    // SQL's TIMESTAMP is nanosecond precision; the harness evaluator models the microsecond column only
    let via_ddl = rng.chance(1, 3) && !t.cols.iter().any(|c| c.ct == CT::Ts);
    let table_json = json!({
        "table_schema": t.schema().fields().iter().map(|f| format!("{}: {}", f.name(), f.data_type())).collect::<Vec<_>>(),
        "registered_via": if via_ddl { t.ddl("<dir>") } else { "ListingTable with explicit schema".to_string() },
        "files": files.iter().map(|f| json!({"perturbations": f.kinds, "content": batch_json(&f.batch)})).collect::<Vec<_>>(),
    });
    let table_fp = fp_str(&table_json.to_string());

    let rt = dfv::engine::current_thread_rt();
    rt.block_on(async {
        for qi in 0..ctl.preds {
            let (q, tags) = gen_query(rng, &t);
            let pushdown = rng.bool();
            let view_types = rng.bool();
            let tp = 1 + rng.usize(3);
            let mut cfg = SessionConfig::new().with_target_partitions(tp).with_batch_size(*rng.pick(&[2usize, 16, 8192])).with_information_schema(false);
            {
                let o = cfg.options_mut();
                o.execution.parquet.pushdown_filters = pushdown;
                o.execution.parquet.reorder_filters = rng.bool();
                o.execution.parquet.schema_force_view_types = view_types;
                o.execution.collect_statistics = rng.bool();
            }
            let opts_json = json!({"pushdown_filters": pushdown, "schema_force_view_types": view_types, "target_partitions": tp});
            let ctx = SessionContext::new_with_config(cfg);
            let reg: Result<(), DataFusionError> = async {
                if via_ddl {
                    ctx.sql(&t.ddl(&dir)).await?.collect().await?;
                } else {
                    let url = ListingTableUrl::parse(&dir)?;
                    let lo = ListingOptions::new(Arc::new(ParquetFormat::default())).with_file_extension(".parquet");
                    let config = ListingTableConfig::new(url).with_listing_options(lo).with_schema(t.schema());
                    ctx.register_table("t", Arc::new(ListingTable::try_new(config)?))?;
                }
                Ok(())
            }
            .await;
            if let Err(e) = reg {
                rep.skip("table-registration-error");
                rep.extra("registration_error_sample", json!({"ddl": t.ddl("<dir>"), "error": e.to_string().chars().take(300).collect::<String>()}));
                return;
            }
            let tschema: SchemaRef = match ctx.table("t").await {
                Ok(df) => Arc::new(df.schema().as_arrow().clone()),
                Err(_) => {
                    rep.skip("table-lookup-error");
                    return;
                }
            };
            let fp = fp_mix(fp_mix(table_fp, fp_str(&q.text(&t))), fp_str(&opts_json.to_string()));
            // ---- the oracle: adapt every raw file batch, filter, project -------------------------
            let adapted: Result<Vec<RecordBatch>, String> = files.iter().map(|f| adapt_batch(&f.batch, &tschema)).collect();
            let mut oracle_kind = "harness-evaluator";
            let expected: Result<Vec<Vec<V>>, String> = match &adapted {
                Err(e) => Err(e.clone()),
                Ok(batches) => {
                    // the harness' own evaluator when it models the whole filter ...
                    let own: Option<Vec<Vec<bool>>> = if q.st_pred.is_some() { None } else { batches.iter().map(|a| own_mask(&q, &t, a)).collect() };
                    match own {
                        Some(masks) => {
                            if q.count {
                                Ok(vec![vec![V::I(masks.iter().map(|m| m.iter().filter(|x| **x).count() as i64).sum::<i64>())]])
                            } else {
                                Ok(batches.iter().zip(masks.iter()).flat_map(|(a, m)| project_rows(a, m, &q.proj)).collect())
                            }
                        }
                        None => {
                            // ... otherwise the same filter over the adapted batches held in memory (no file, no adapter)
                            oracle_kind = "in-memory-filter-over-adapted-batches";
                            let r: Result<Vec<RecordBatch>, DataFusionError> = async {
                                let mctx = SessionContext::new_with_config(SessionConfig::new().with_target_partitions(1).with_information_schema(false));
                                let mt = datafusion::datasource::MemTable::try_new(tschema.clone(), vec![batches.clone()])?;
                                mctx.register_table("t", Arc::new(mt))?;
                                let df = mctx.table("t").await?.filter(q.filter_expr(&t))?;
                                let df = if q.count { df.aggregate(vec![], vec![count_all()])? } else { df.select(q.proj.iter().map(|p| colref(p)).collect::<Vec<_>>())? };
                                df.collect().await
                            }
                            .await;
                            r.map(|b| batches_to_rows(&b)).map_err(|e| e.to_string())
                        }
                    }
                }
            };
            // ---- the engine ----------------------------------------------------------------------
            let run: Result<Vec<RecordBatch>, DataFusionError> = async {
                let df = ctx.table("t").await?.filter(q.filter_expr(&t))?;
                let df = if q.count { df.aggregate(vec![], vec![count_all()])? } else { df.select(q.proj.iter().map(|p| colref(p)).collect::<Vec<_>>())? };
                df.collect().await
            }
            .await;
            let non_castable_present = all_kinds.contains("type:non-castable") || all_kinds.contains("struct-no-common-field");
            match (run, expected) {
                (Err(_), Err(_)) => {
                    rep.skip("rejected-by-engine-and-by-harness-adaptation");
                    if non_castable_present {
                        rep.count("non_castable_rejected", 1);
                    }
                    rep.case(fp, false);
                }
                (Err(e), Ok(exp)) => {
                    // an error is not a wrong answer; record why for triage but do not assert
                    rep.skip("engine-error-where-harness-adaptation-succeeds");
                    if rep.get_count("engine_error_samples") < 10 {
                        rep.count("engine_error_samples", 1);
                        rep.extra(&format!("engine_error_sample_{}", rep.get_count("engine_error_samples")), json!({"query": q.text(&t), "perturbations": all_kinds, "error": e.to_string().chars().take(300).collect::<String>(), "expected_rows": exp.len()}));
                    }
                    rep.case(fp, false);
                }
                (Ok(_), Err(_)) => {
                    // the harness cannot adapt (non-castable pair / failing cast) but the scan answered: the statement only
                    // covers castable pairs, and the file may legitimately never have been decoded (pruned, constant filter)
                    rep.skip("harness-adaptation-fails-engine-answers");
                    if non_castable_present {
                        rep.count("non_castable_not_rejected_or_not_scanned", 1);
                    }
                    rep.case(fp, false);
                }
                (Ok(batches), Ok(exp)) => {
                    let mut got = batches_to_rows(&batches);
                    if ctl.selftest {
                        if q.count {
                            if let Some(V::I(n)) = got.get_mut(0).and_then(|r| r.get_mut(0)) {
                                *n += 1;
                            }
                        } else if let Some(r) = got.first_mut() {
                            r[0] = V::S("corrupted".into());
                        } else {
                            got.push(vec![V::Null; q.proj.len()]);
                        }
                    }
                    let nontrivial = !all_kinds.contains("identical-schema") || all_kinds.len() > 1;
                    rep.case(fp, nontrivial && if q.count { true } else { !exp.is_empty() });
                    rep.count("compared", 1);
                    rep.count(&format!("oracle:{oracle_kind}"), 1);
                    rep.count(&format!("pushdown_filters={pushdown}"), 1);
                    rep.count(if via_ddl { "registered:create-external-table" } else { "registered:listing-table-explicit-schema" }, 1);
                    let pl = placement(&q, &t, &files);
                    for kind in &all_kinds {
                        for p in &pl {
                            rep.count(&format!("{kind} x {p} x pushdown={pushdown}"), 1);
                        }
                    }
                    for tg in &tags {
                        rep.count(&format!("shape:{tg}"), 1);
                    }
                    // schema of the result must be the table's types for the projected columns
                    if !q.count {
                        let out_schema = batches.first().map(|b| b.schema());
                        if let Some(os) = out_schema {
                            for (i, p) in q.proj.iter().enumerate() {
                                let want = tschema.field_with_name(p).map(|f| f.data_type().clone()).ok();
                                if want.as_ref() != Some(os.field(i).data_type()) {
                                    rep.violation("output-type-differs-from-table-schema", json!({"query": q.text(&t), "column": p, "observed_type": format!("{}", os.field(i).data_type()), "table_type": format!("{:?}", want), "table": table_json, "options": opts_json}));
                                }
                            }
                        }
                    }
                    if !multiset_eq(&got, &exp) {
                        // is the deviation in the scan at all? the same filter over the adapted batches held in memory
                        if oracle_kind == "harness-evaluator" {
                            if let Ok(batches) = &adapted {
                                let r: Result<Vec<RecordBatch>, DataFusionError> = async {
                                    let mctx = SessionContext::new_with_config(SessionConfig::new().with_target_partitions(1).with_information_schema(false));
                                    let mt = datafusion::datasource::MemTable::try_new(tschema.clone(), vec![batches.clone()])?;
                                    mctx.register_table("t", Arc::new(mt))?;
                                    let df = mctx.table("t").await?.filter(q.filter_expr(&t))?;
                                    let df = if q.count { df.aggregate(vec![], vec![count_all()])? } else { df.select(q.proj.iter().map(|p| colref(p)).collect::<Vec<_>>())? };
                                    df.collect().await
                                }
                                .await;
                                if let Ok(mem) = r {
                                    if multiset_eq(&got, &batches_to_rows(&mem)) && !ctl.selftest {
                                        // the engine's plain in-memory filter gives the scan's answer: expression evaluation /
                                        // simplification differs from the harness evaluator, the schema adaptation is not involved
                                        if !has_not_in_null_next_to_in(&q.pred) {
                                            // expression evaluation / simplification (C04, C33) deviates, the schema
                                            // adaptation reproduces the engine's own in-memory answer: observed only
                                            rep.count("plain_filter_differs_from_harness_evaluator_unclassified", 1);
                                            continue;
                                        }
                                        let sig = "plain-filter-differs-from-harness-evaluator/in-list-merged-with-not-in-null";
                                        rep.violation(sig, json!({"query": q.text(&t), "logical_filter": format!("{}", q.filter_expr(&t)), "adapted_rows": batches.iter().map(batch_json).collect::<Vec<_>>(), "diff": diff_note(&got, &exp),
                                            "expected": "the rows the harness' own three-valued evaluator selects from the adapted batches"}));
                                        continue;
                                    }
                                }
                            }
                        }
                        // classification: a filter on a microsecond column that a file stores in milliseconds
                        let mut pcols = BTreeSet::new();
                        q.pred.columns(&mut pcols);
                        let ms_file_col = pcols.iter().any(|c| t.cols[*c].ct == CT::Ts && files.iter().any(|f| f.cols.iter().any(|fc| fc.name == t.cols[*c].name && fc.dt == DataType::Timestamp(TimeUnit::Millisecond, None))));
                        let sig = if ms_file_col && pushdown {
                            // the pushed-down filter is rewritten to the file's unit and the literal is truncated to it
                            "scan-differs-from-adapted-rows/timestamp-literal-truncated-to-file-unit".to_string()
                        } else {
                            rep.count("unclassified_violations", 1);
                            format!("scan-differs-from-adapted-rows/pushdown_filters={pushdown}/{}", pl.iter().next().copied().unwrap_or("-"))
                        };
                        rep.violation(
                            &sig,
                            json!({"query": q.text(&t), "logical_filter": format!("{}", q.filter_expr(&t)), "table": table_json, "options": opts_json, "oracle": oracle_kind, "diff": diff_note(&got, &exp),
                                "expected": "rows in the table schema, each column taken from the same-named file column (cast), NULL for missing columns, filtered after adaptation", "self_test": ctl.selftest}),
                        );
                    } else if rep.want_sample() && nontrivial && !exp.is_empty() && all_kinds.len() >= 4 {
                        rep.sample(json!({"query": q.text(&t), "perturbations": all_kinds, "placement": pl, "options": opts_json, "rows": exp.len()}));
                    }
                }
            }

            // ---- direct calls (once per table) ----------------------------------------------------
            if qi == 0 {
                direct_calls(rep, &t, &files, &tschema, &q, &ctx, ctl, systematic);
            }
        }
    });
    drop(tmp);
}

/// BatchAdapter / DefaultPhysicalExprAdapter / nested_struct::cast_column against the harness adaptation
fn direct_calls(rep: &Report, t: &TableDef, files: &[FileDef], tschema: &SchemaRef, q: &Query, ctx: &SessionContext, ctl: &Ctl, _systematic: bool) {
    for f in files {
        let want = adapt_batch(&f.batch, tschema);
        // (1) batch adapter
        let got = vcommon::par::guard(|| BatchAdapterFactory::new(tschema.clone()).make_adapter(&f.batch.schema()).and_then(|a| a.adapt_batch(&f.batch)));
        match (got, &want) {
            (Err(p), _) => {
                // BatchAdapterFactory::make_adapter builds its PhysicalExprSimplifier over the TARGET schema although the
                // rewritten expressions reference SOURCE columns; with debug assertions the simplifier unwraps the error
                let sig = if p.contains("simplifier/mod.rs") && p.contains("input schema only has") { "panic-in-batch-adapter/simplifier-given-target-schema" } else { "panic-in-batch-adapter" };
                rep.violation(sig, json!({"panic": p, "source_schema": batch_json(&f.batch)["schema"], "target_schema": format!("{}", tschema)}))
            }
            (Ok(Ok(g)), Ok(w)) => {
                rep.count("direct:batch-adapter-compared", 1);
                let (mut gr, wr) = (batches_to_rows(&[g.clone()]), batches_to_rows(&[w.clone()]));
                if ctl.selftest && !gr.is_empty() {
                    gr[0][0] = V::S("corrupted".into());
                }
                if g.schema().fields().iter().map(|x| x.data_type().clone()).collect::<Vec<_>>() != w.schema().fields().iter().map(|x| x.data_type().clone()).collect::<Vec<_>>() || gr.len() != wr.len() || !gr.iter().zip(wr.iter()).all(|(a, b)| rows_same(a, b)) {
                    rep.violation("batch-adapter-differs-from-adapted-rows", json!({"file": batch_json(&f.batch), "perturbations": f.kinds, "observed": batch_json(&g), "expected": batch_json(w)}));
                }
            }
            (Ok(Err(_)), Err(_)) => rep.count("direct:batch-adapter-both-reject", 1),
            (Ok(Err(e)), Ok(_)) => {
                rep.count("direct:batch-adapter-rejects-castable", 1);
                if rep.get_count("direct:batch-adapter-rejects-castable") <= 3 {
                    rep.extra(&format!("batch_adapter_reject_sample_{}", rep.get_count("direct:batch-adapter-rejects-castable")), json!({"schema": format!("{}", f.batch.schema()), "error": e.to_string().chars().take(300).collect::<String>()}));
                }
            }
            (Ok(Ok(g)), Err(e)) => {
                if f.kinds.contains("type:non-castable") || f.kinds.contains("struct-no-common-field") {
                    rep.violation("non-castable-file-column-accepted/batch-adapter", json!({"file": batch_json(&f.batch), "observed": batch_json(&g), "harness_adaptation_error": e}));
                } else {
                    rep.count("direct:batch-adapter-accepts-where-harness-cast-fails", 1);
                }
            }
        }
        // (2) expression adapter: rewritten filter over the RAW batch == filter over the adapted batch
        if let Ok(w) = &want {
            // like with like: the same (unsimplified) physical expression, evaluated in memory on the adapted batch
            if let Ok(mask) = oracle_mask(q, t, w, ctx, tschema) {
                let r = vcommon::par::guard(|| -> Result<Vec<bool>, String> {
                    let df = DFSchema::try_from(tschema.as_ref().clone()).map_err(|e| e.to_string())?;
                    let phys = ctx.create_physical_expr(q.filter_expr(t), &df).map_err(|e| e.to_string())?;
                    let adapter = DefaultPhysicalExprAdapterFactory.create(tschema.clone(), f.batch.schema()).map_err(|e| e.to_string())?;
                    let rewritten = adapter.rewrite(phys).map_err(|e| e.to_string())?;
                    let v = rewritten.evaluate(&f.batch).map_err(|e| e.to_string())?;
                    let arr = v.into_array(f.batch.num_rows()).map_err(|e| e.to_string())?;
                    let b = arr.as_any().downcast_ref::<BooleanArray>().ok_or("not boolean")?;
                    Ok((0..b.len()).map(|i| b.is_valid(i) && b.value(i)).collect())
                });
                match r {
                    Err(p) => rep.violation("panic-in-expr-adapter", json!({"panic": p, "filter": q.text(t), "file": batch_json(&f.batch)})),
                    Ok(Err(_)) => rep.count("direct:expr-adapter-error", 1),
                    Ok(Ok(mut m)) => {
                        rep.count("direct:expr-adapter-compared", 1);
                        if ctl.selftest && !m.is_empty() {
                            m[0] = !m[0];
                        }
                        if m != mask {
                            let bad: Vec<usize> = (0..m.len()).filter(|i| m[*i] != mask[*i]).take(8).collect();
                            rep.violation("rewritten-filter-selects-other-rows", json!({"filter": q.text(t), "logical_filter": format!("{}", q.filter_expr(t)), "file": batch_json(&f.batch), "perturbations": f.kinds, "table_schema": format!("{}", tschema), "row_indices_that_differ": bad,
                                "expected": "the filter rewritten against the file schema selects the rows that the filter selects on the adapted batch"}));
                        }
                    }
                }
            }
        }
        // (3) nested_struct::cast_column on the struct column
        if let (Some((idx, _)), Ok(tf)) = (&f.st, tschema.field_with_name(STRUCT_COL)) {
            let src = f.batch.column(*idx).clone();
            let want = adapt_array(&src, tf.data_type());
            let got = vcommon::par::guard(|| cast_column(&src, tf.data_type(), &CastOptions { safe: false, ..Default::default() }));
            match (got, want) {
                (Err(p), _) => rep.violation("panic-in-cast_column", json!({"panic": p})),
                (Ok(Ok(g)), Ok(w)) => {
                    rep.count("direct:cast_column-compared", 1);
                    let gs: Vec<V> = (0..g.len()).map(|i| cell(g.as_ref(), i)).collect();
                    let ws: Vec<V> = (0..w.len()).map(|i| cell(w.as_ref(), i)).collect();
                    if g.data_type() != w.data_type() || gs.len() != ws.len() || !gs.iter().zip(ws.iter()).all(|(a, b)| a.same(b)) {
                        rep.violation("cast_column-differs-from-by-name-adaptation", json!({"source_type": format!("{}", src.data_type()), "target_type": format!("{}", tf.data_type()), "observed": gs.iter().map(|v| v.to_json()).collect::<Vec<_>>(), "expected": ws.iter().map(|v| v.to_json()).collect::<Vec<_>>()}));
                    }
                }
                (Ok(Err(_)), Err(_)) => rep.count("direct:cast_column-both-reject", 1),
                (Ok(Err(_)), Ok(_)) => rep.count("direct:cast_column-rejects", 1),
                (Ok(Ok(_)), Err(_)) => {
                    if f.kinds.contains("struct-no-common-field") {
                        rep.violation("struct-without-common-field-accepted/cast_column", json!({"source_type": format!("{}", src.data_type()), "target_type": format!("{}", tf.data_type())}));
                    }
                }
            }
        }
    }
}

fn run(args: &Args) -> i32 {
    let rep = Report::new("C44", "exploration", args);
    rep.set_rule("case = (table schema of 6-9 primitive columns [+ a struct column], 2-4 Parquet files each with its own perturbation of that schema [permutation, missing / extra columns, castable type changes, struct fields added / removed / reordered / retyped], filter, projection, pushdown on/off) scanned through a listing table with an explicit schema and compared with the harness-side adaptation (by-name arrow cast + NULL fill) of the raw file batches followed by the filter; distinct = hash(table + files, query, options); non-trivial = at least one file is perturbed and the expected answer is non-empty");
    rep.assume("arrow's cast kernel defines the value mapping of a castable type change; the raw batches handed to the Parquet writer are the file contents (write/read fidelity is C25)");
    rep.assume("filters the harness' own evaluator does not model (struct fields, some casts / arithmetic) are decided by evaluating the physical expression in memory on the adapted batch");
    let ctl = Ctl { selftest: args.opt_u64("selftest", 0) == 1, preds: args.bound("predicates", 5, 8) };
    let scale = match args.stage.as_str() {
        "miri" => 100,
        "memcheck" => 10,
        _ => 1,
    };
    let n_sys = args.bound("systematic", 60, 200) / scale;
    vcommon::par::run(args.workers, 0..n_sys, |i| {
        let mut rng = Rng::derive(0xC44, &[0, i]);
        if let Err(p) = vcommon::par::guard(|| one_table(&rep, &mut rng, &ctl, true)) {
            rep.violation("panic", json!({"panic": p, "part": "systematic", "index": i}));
        }
    });
    for kind in ["columns-permuted", "column-missing", "column-extra", "type:int-width", "type:float32-to-float64", "type:string-encoding", "type:date-or-ms-to-timestamp", "type:decimal-widening", "struct-fields-reordered", "struct-field-removed", "struct-field-added"] {
        let seen = ["predicate-on-present-column", "predicate-on-missing-column", "predicate-on-cast-column", "predicate-on-struct-field"].iter().any(|p| [true, false].iter().any(|pd| rep.get_count(&format!("{kind} x {p} x pushdown={pd}")) > 0));
        rep.obligation(&format!("perturbation:{kind}"), seen, "every perturbation kind must be compared at least once in the systematic part");
    }
    let n_rand = args.bound("tables", 340, 9000) / scale;
    vcommon::par::run(args.workers, 0..n_rand, |i| {
        if rep.get_count("unclassified_violations") > 30 {
            return;
        }
        let mut rng = Rng::derive(args.seed, &[44, 1, i]);
        if let Err(p) = vcommon::par::guard(|| one_table(&rep, &mut rng, &ctl, false)) {
            rep.violation("panic", json!({"panic": p, "part": "random", "seed": args.seed, "index": i}));
        }
    });
    for p in ["predicate-on-present-column", "predicate-on-missing-column", "predicate-on-cast-column", "predicate-on-struct-field"] {
        for pd in [true, false] {
            let n: u64 = ["columns-permuted", "column-missing", "type:int-width", "type:string-encoding", "struct-fields-reordered", "identical-schema", "column-extra"].iter().map(|k| rep.get_count(&format!("{k} x {p} x pushdown={pd}"))).sum();
            rep.obligation(&format!("{p}/pushdown={pd}"), n > 0, "every predicate placement must be compared with pushdown on and off");
        }
    }
    rep.obligation("direct-expr-adapter", rep.get_count("direct:expr-adapter-compared") > 0, "DefaultPhysicalExprAdapter rewriting must be compared");
    rep.obligation("direct-batch-adapter", rep.get_count("direct:batch-adapter-compared") > 0, "BatchAdapter must be compared");
    rep.obligation("direct-cast_column", rep.get_count("direct:cast_column-compared") > 0, "nested_struct::cast_column must be compared");
    let total = rep.get_count("compared");
    rep.obligation("compared-share", total * 100 >= (n_sys + n_rand) * ctl.preds * 40, "at least 40% of the generated queries must be compared");
    rep.finish()
}

fn main() {
    let args = Args::parse();
    vcommon::par::quiet_panics();
    std::process::exit(run(&args));
}
