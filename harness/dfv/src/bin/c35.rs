//! C35 — logical plans, expressions and scalar values survive protobuf serialization (binary + JSON).

use datafusion::logical_expr::{Expr, LogicalPlan};
use datafusion::prelude::*;
use datafusion_proto::bytes::{logical_plan_from_bytes, logical_plan_from_json, logical_plan_to_bytes, logical_plan_to_json, Serializeable};
use dfv::canon::compare;
use dfv::cases::Case;
use dfv::diffrun::*;
use vcommon::{fp_mix, fp_str, json, Args, Report, Rng};

fn node_kinds(plan: &LogicalPlan) -> Vec<String> {
    use datafusion::common::tree_node::TreeNode;
    let mut v = vec![];
    let _ = plan.apply(|n| {
        v.push(format!("{}", n.display()).split(|c: char| c == ':' || c == ' ').next().unwrap_or("").to_string());
        Ok(datafusion::common::tree_node::TreeNodeRecursion::Continue)
    });
    v
}

fn all_exprs(plan: &LogicalPlan) -> Vec<Expr> {
    use datafusion::common::tree_node::TreeNode;
    let mut v = vec![];
    let _ = plan.apply(|n| {
        v.extend(n.expressions());
        Ok(datafusion::common::tree_node::TreeNodeRecursion::Continue)
    });
    v
}

fn one_case(rep: &Report, case: &Case, _rng: &mut Rng) {
    let fp = case.fingerprint();
    let dir = match tempfile::tempdir() {
        Ok(d) => d,
        Err(_) => return,
    };
    let sql = case.sql.clone();
    let res = block(async {
        let ctx1 = SessionContext::new_with_config(base_config());
        register_db_parquet(&ctx1, &case.db, &case.layout, dir.path()).await?;
        // planning and running the ORIGINAL plan is not this property's subject: a panic there is a skip
        let orig = guarded(async {
            let unopt = ctx1.state().create_logical_plan(&sql).await?;
            let opt = ctx1.state().optimize(&unopt)?;
            let base = exec_logical(&ctx1, unopt.clone()).await?;
            Ok::<_, datafusion::error::DataFusionError>((unopt, opt, base))
        })
        .await;
        let (unopt, opt, base) = match orig {
            Err(p) => return Ok((vec![], vec![(format!("original-plan-panics/{}", p.rsplit(" @ ").next().unwrap_or("").rsplit('/').next().unwrap_or("")), false)], 0, vec![])),
            Ok(r) => r?,
        };
        let mut findings: Vec<(String, vcommon::Json)> = vec![];
        let mut stats: Vec<(String, bool)> = vec![];
        for (form, plan) in [("unoptimized", &unopt), ("optimized", &opt)] {
            for wire in ["binary", "json"] {
                let text0 = format!("{}", plan.display_indent_schema());
                let decoded: Result<LogicalPlan, String> = {
                    let ctx2 = SessionContext::new_with_config(base_config());
                    register_db_parquet(&ctx2, &case.db, &case.layout, dir.path()).await?;
                    let r = if wire == "binary" {
                        match logical_plan_to_bytes(plan) {
                            Err(e) => Err(format!("ENCODE:{e}")),
                            Ok(b) => logical_plan_from_bytes(&b, &ctx2.task_ctx()).map_err(|e| format!("DECODE:{e}")),
                        }
                    } else {
                        match logical_plan_to_json(plan) {
                            Err(e) => Err(format!("ENCODE:{e}")),
                            Ok(b) => logical_plan_from_json(&b, &ctx2.task_ctx()).map_err(|e| format!("DECODE:{e}")),
                        }
                    };
                    match r {
                        Ok(p) => {
                            // the decoded plan must also execute in the fresh session, with the same rows
                            let text1 = format!("{}", p.display_indent_schema());
                            if text1 != text0 {
                                findings.push((format!("plan-text-differs/{form}/{wire}"), json!({"sql": sql, "before": text0, "after": text1})));
                            }
                            match exec_logical(&ctx2, p.clone()).await {
                                Ok(out) => {
                                    if let Err(d) = compare(&out.rows, &base.rows, &case.mode) {
                                        findings.push((format!("decoded-plan-results-differ/{form}/{wire}"), json!({"case": case.witness(Some(&out.rows), Some(&base.rows), &d), "plan": text0})));
                                    }
                                }
                                Err(e) => findings.push((format!("decoded-plan-fails/{form}/{wire}"), json!({"sql": sql, "error": e.to_string().chars().take(300).collect::<String>(), "plan": text0}))),
                            }
                            Ok(p)
                        }
                        Err(e) => Err(e),
                    }
                };
                match decoded {
                    Ok(_) => stats.push((format!("roundtrip/{form}/{wire}"), true)),
                    Err(e) if e.starts_with("ENCODE:") => stats.push((format!("encode-rejected/{}", e.chars().skip(7).take(50).collect::<String>()), false)),
                    Err(e) => findings.push((format!("decode-fails/{form}/{wire}"), json!({"sql": sql, "error": e.chars().take(300).collect::<String>(), "plan": text0}))),
                }
            }
        }
        // expressions (and the scalar literals inside them)
        let mut n_expr = 0u64;
        for e in all_exprs(&opt).into_iter().chain(all_exprs(&unopt)) {
            if let Ok(b) = e.to_bytes() {
                n_expr += 1;
                match Expr::from_bytes_with_ctx(&b, &ctx1.task_ctx()) {
                    Ok(back) => {
                        if back != e {
                            findings.push(("expr-differs".into(), json!({"sql": sql, "before": format!("{e:?}"), "after": format!("{back:?}")})));
                        }
                    }
                    Err(err) => {
                        // subquery expressions cannot be decoded without a plan codec: documented limitation
                        let m = err.to_string();
                        if !m.contains("ubquery") && !m.contains("not supported") && !m.contains("Unsupported") {
                            findings.push(("expr-decode-fails".into(), json!({"sql": sql, "expr": format!("{e}"), "error": m.chars().take(200).collect::<String>()})));
                        }
                    }
                }
            }
        }
        Ok::<_, datafusion::error::DataFusionError>((findings, stats, n_expr, node_kinds(&opt)))
    });
    match res {
        Err(p) => {
            rep.case(fp, true);
            rep.violation("panic", case.witness(None, None, &format!("panic during round trip: {p}")));
        }
        Ok(Err(e)) => {
            rep.case(fp, false);
            rep.skip(&format!("original-plan-fails/{}", skip_class(&e)));
        }
        Ok(Ok((findings, stats, n_expr, kinds))) => {
            let ok = stats.iter().filter(|s| s.1).count();
            rep.case(fp_mix(fp, fp_str(&kinds.join(","))), ok > 0);
            rep.count("exprs_roundtripped", n_expr);
            for (s, good) in &stats {
                if *good {
                    rep.count(s, 1);
                } else {
                    rep.skip(s);
                }
            }
            if ok > 0 {
                for k in kinds {
                    rep.seen("plan_node_kinds_roundtripped", &k);
                }
            }
            for (sig, w) in findings {
                rep.violation(&refine(&sig, &w), w);
            }
            if rep.want_sample() && ok == 4 {
                rep.sample(json!({"sql": case.sql, "roundtrips": ok}));
            }
        }
    }
}

/// Known root cause keyed by its own signature: the EmptyRelation message carries no schema, so an
/// `EmptyRelation: rows=0 [cols..]` left by the optimizer decodes as `[]`; parents that still
/// reference its columns then fail to decode ("No field named ...").
fn refine(sig: &str, w: &vcommon::Json) -> String {
    let s = |k: &str| w.get(k).and_then(|v| v.as_str()).unwrap_or("").to_string();
    let has_typed_empty = |plan: &str| plan.lines().any(|l| l.contains("EmptyRelation") && !l.trim_end().ends_with("[]"));
    if sig.starts_with("plan-text-differs/") {
        let (b, a) = (s("before"), s("after"));
        let strip = |t: &str| t.lines().filter(|l| !l.contains("EmptyRelation")).collect::<Vec<_>>().join("\n");
        if has_typed_empty(&b) && strip(&b) == strip(&a) {
            return "empty-relation-schema-not-serialized/plan-text-differs".into();
        }
    }
    if (sig.starts_with("decode-fails/") || sig.starts_with("decoded-plan-fails/")) && has_typed_empty(&s("plan")) && s("error").contains("No field named") {
        return "empty-relation-schema-not-serialized/decode-fails".into();
    }
    sig.to_string()
}

fn run(args: &Args) -> i32 {
    let rep = Report::new("C35", "exploration", args);
    rep.set_rule("case = generated query over Parquet listing tables; its unoptimized and optimized logical plans are encoded (binary and JSON), decoded in a fresh session with the same tables, compared by display_indent_schema text and by differential execution; every expression of the plan is round-tripped through Expr::to_bytes/from_bytes and compared with ==; distinct = hash(case, plan node kinds); non-trivial = at least one successful round trip");
    rep.assume("encode failures are skips (the property is conditional) and are counted by reason");
    let cfg = gen_cfg_from(args, "simple");
    rep.extra("generator_fragment", json!(format!("{cfg:?}")));
    for_each_case(args, &rep, 0xC35, args.bound("systematic", 300, 2000), args.bound("random", 300, 8000), &cfg, |case, rng, _| one_case(&rep, case, rng));
    rep.obligation("roundtrips", rep.get_count("roundtrip/optimized/binary") > 100, "plans must actually round-trip");
    rep.finish()
}

fn main() {
    let args = Args::parse();
    vcommon::par::quiet_panics();
    std::process::exit(run(&args));
}
