//! C06 — grouped aggregation is exact under every aggregation strategy.
//!
//! (a) SQL GROUP BY over generated, typed MemTables under configurations selecting each strategy,
//! (b) `AggregateExec::try_new(mode, ..)` pipelines built directly over in-memory sources.
//! Oracle: independent sorted-map grouping over logical `Value` rows (query.rs).

mod data;
mod exec;
mod query;

use data::*;
use dfv::ast::AggFn;
use dfv::engine::{ErrClass, classify, current_thread_rt};
use dfv::value::{Row, rows_to_json};
use exec::*;
use query::*;
use std::collections::BTreeSet;
use vcommon::{Args, Json, Report, Rng, fp_mix, fp_str, json};

#[derive(Clone, Debug)]
enum Kind {
    Sql(Query),
    Direct { shape: Shape, keys: Vec<usize>, aggs: Vec<Agg> },
}

#[derive(Clone, Debug)]
struct Case {
    tab: Tab,
    layout: Layout,
    sort: Vec<SortKey>,
    cfg: Cfg,
    kind: Kind,
    /// seed of the physical array shapes (dictionaries)
    arrays_seed: u64,
    /// what the generator was aiming at (evidence only; coverage counts what really ran)
    intent: &'static str,
}

// ---- JSON (witness / replay) ---------------------------------------------------------------

fn agg_to_json(a: &Agg) -> Json {
    json!({"f": format!("{:?}", a.f), "col": a.col, "distinct": a.distinct, "filter": a.filter})
}

fn agg_from_json(j: &Json) -> Option<Agg> {
    let f = match j.get("f")?.as_str()? {
        "CountStar" => AggFn::CountStar,
        "Count" => AggFn::Count,
        "Sum" => AggFn::Sum,
        "Min" => AggFn::Min,
        "Max" => AggFn::Max,
        "Avg" => AggFn::Avg,
        _ => return None,
    };
    Some(Agg { f, col: j.get("col")?.as_u64()? as usize, distinct: j.get("distinct")?.as_bool()?, filter: j.get("filter").and_then(|x| x.as_i64()) })
}

fn usizes(j: &Json) -> Option<Vec<usize>> {
    j.as_array()?.iter().map(|x| x.as_u64().map(|x| x as usize)).collect()
}

fn kind_to_json(k: &Kind) -> Json {
    match k {
        Kind::Sql(Query::Group { keys, kind, aggs }) => {
            let (kn, sets) = match kind {
                GroupKind::Plain => ("plain", json!(null)),
                GroupKind::Rollup => ("rollup", json!(null)),
                GroupKind::Cube => ("cube", json!(null)),
                GroupKind::Sets(s) => ("sets", json!(s)),
            };
            json!({"type": "group", "keys": keys, "grouping": kn, "sets": sets, "aggs": aggs.iter().map(agg_to_json).collect::<Vec<_>>()})
        }
        Kind::Sql(Query::TopK { keys, agg, desc, nulls_first, n }) => json!({"type": "topk", "keys": keys, "agg": agg_to_json(agg), "desc": desc, "nulls_first": nulls_first, "n": n}),
        Kind::Sql(Query::TopKey { keys, desc, nulls_first, n }) => json!({"type": "topkey", "keys": keys, "desc": desc, "nulls_first": nulls_first, "n": n}),
        Kind::Sql(Query::DistinctLimit { keys, n }) => json!({"type": "distinct-limit", "keys": keys, "n": n}),
        Kind::Direct { shape, keys, aggs } => json!({"type": "direct", "shape": shape.name(), "keys": keys, "aggs": aggs.iter().map(agg_to_json).collect::<Vec<_>>()}),
    }
}

fn kind_from_json(j: &Json) -> Option<Kind> {
    let keys = usizes(j.get("keys")?)?;
    let aggs = |j: &Json| -> Option<Vec<Agg>> { j.get("aggs")?.as_array()?.iter().map(agg_from_json).collect() };
    Some(match j.get("type")?.as_str()? {
        "group" => {
            let kind = match j.get("grouping")?.as_str()? {
                "plain" => GroupKind::Plain,
                "rollup" => GroupKind::Rollup,
                "cube" => GroupKind::Cube,
                _ => GroupKind::Sets(serde_json::from_value(j.get("sets")?.clone()).ok()?),
            };
            Kind::Sql(Query::Group { keys, kind, aggs: aggs(j)? })
        }
        "topk" => Kind::Sql(Query::TopK { keys, agg: agg_from_json(j.get("agg")?)?, desc: j.get("desc")?.as_bool()?, nulls_first: j.get("nulls_first")?.as_bool()?, n: j.get("n")?.as_u64()? as usize }),
        "topkey" => Kind::Sql(Query::TopKey { keys, desc: j.get("desc")?.as_bool()?, nulls_first: j.get("nulls_first")?.as_bool()?, n: j.get("n")?.as_u64()? as usize }),
        "distinct-limit" => Kind::Sql(Query::DistinctLimit { keys, n: j.get("n")?.as_u64()? as usize }),
        "direct" => Kind::Direct { shape: Shape::from_name(j.get("shape")?.as_str()?)?, keys, aggs: aggs(j)? },
        _ => return None,
    })
}

impl Case {
    fn to_json(&self) -> Json {
        json!({
            "what": match &self.kind { Kind::Sql(q) => q.sql(), Kind::Direct { shape, .. } => format!("AggregateExec::try_new pipeline {}", shape.name()) },
            "case": kind_to_json(&self.kind),
            "config": self.cfg.to_json(),
            "table": self.tab.to_json(),
            "layout_partitions_batches_rows": self.layout,
            "declared_sort_order": self.sort.iter().map(|(c, d, n)| json!({"key": c, "desc": d, "nulls_first": n})).collect::<Vec<_>>(),
            "arrays_seed": self.arrays_seed,
            "intent": self.intent,
        })
    }
    fn from_json(j: &Json) -> Option<Case> {
        let sort = j.get("declared_sort_order")?.as_array()?.iter().map(|s| Some((s.get("key")?.as_u64()? as usize, s.get("desc")?.as_bool()?, s.get("nulls_first")?.as_bool()?))).collect::<Option<Vec<_>>>()?;
        Some(Case {
            tab: Tab::from_json(j.get("table")?)?,
            layout: serde_json::from_value(j.get("layout_partitions_batches_rows")?.clone()).ok()?,
            sort,
            cfg: Cfg::from_json(j.get("config")?)?,
            kind: kind_from_json(j.get("case")?)?,
            arrays_seed: j.get("arrays_seed")?.as_u64()?,
            intent: "replay",
        })
    }
    fn fingerprint(&self) -> u64 {
        fp_str(&self.to_json().to_string())
    }
    fn query(&self) -> Query {
        match &self.kind {
            Kind::Sql(q) => q.clone(),
            Kind::Direct { keys, aggs, .. } => Query::Group { keys: keys.clone(), kind: GroupKind::Plain, aggs: aggs.clone() },
        }
    }
}

// ---- case construction ---------------------------------------------------------------------

#[derive(Clone, Copy, Debug, PartialEq)]
enum Strat {
    Single,
    TwoPhase,
    Sorted,
    PartSorted,
    SkipPartial,
    TopK,
    Spill,
    GroupingSets,
    DistinctFilter,
    Legacy,
    LimitDistinct,
    Direct(Shape, bool),
}

const SQL_STRATS: &[Strat] = &[
    Strat::Single,
    Strat::TwoPhase,
    Strat::Sorted,
    Strat::PartSorted,
    Strat::SkipPartial,
    Strat::TopK,
    Strat::Spill,
    Strat::GroupingSets,
    Strat::DistinctFilter,
    Strat::Legacy,
    Strat::LimitDistinct,
];

/// (rows, key domain, batch size)
const SHAPES: &[(usize, usize, usize)] = &[(0, 1, 1), (1, 1, 1), (40, 3, 2), (200, 8, 7), (200, 200, 8192), (120, 40, 7), (9, 9, 1), (64, 2, 8192)];

fn std_aggs(variant: usize) -> Vec<Agg> {
    match variant % 3 {
        0 => vec![Agg::new(AggFn::CountStar, 0), Agg::new(AggFn::Sum, 0), Agg::new(AggFn::Min, 1), Agg::new(AggFn::Max, 2), Agg::new(AggFn::Avg, 1)],
        1 => vec![Agg::new(AggFn::Count, 2), Agg::new(AggFn::Sum, 1), Agg::new(AggFn::Max, 0), Agg::new(AggFn::Min, 2), Agg::new(AggFn::Avg, 0)],
        _ => vec![Agg::new(AggFn::Count, 0), Agg::new(AggFn::Min, 0), Agg::new(AggFn::Max, 1), Agg::new(AggFn::Sum, 0), Agg::new(AggFn::CountStar, 0)],
    }
}

/// Memory limits tried in increasing order for a spill case until the engine stops answering
/// ResourcesExhausted (the window in which an aggregate spills instead of failing is narrow and
/// depends on key type, batch size and stream implementation; see `--opt probe=spill`).
const SPILL_LADDER: &[usize] = &[6_000, 9_000, 13_000, 18_000, 24_000, 32_000, 44_000, 60_000, 90_000, 140_000, 250_000];

fn spill_limit(n_rows: usize, variant: usize) -> usize {
    let base = [10_000usize, 16_000, 24_000, 40_000][variant % 4];
    base + n_rows * 8
}

fn make_case(rng: &mut Rng, key_types: &[KT], strat: Strat, shape: (usize, usize, usize), variant: usize, arrays_seed: u64) -> Case {
    let (mut n_rows, mut domain, batch) = shape;
    let mut keys_t: Vec<KT> = key_types.to_vec();
    let intent: &'static str;
    let mut cfg = Cfg::new(1, batch);
    let mut nparts = 1usize;
    let mut sort: Vec<SortKey> = vec![];
    let mut contiguous = false;
    let all_keys = |t: &[KT]| (0..t.len()).collect::<Vec<usize>>();
    let kind: Kind;
    match strat {
        Strat::Single => {
            intent = "single";
            kind = Kind::Sql(Query::Group { keys: all_keys(&keys_t), kind: GroupKind::Plain, aggs: std_aggs(variant) });
        }
        Strat::TwoPhase => {
            intent = "partial-final";
            cfg.target_partitions = 3;
            nparts = 2 + variant % 3;
            kind = Kind::Sql(Query::Group { keys: all_keys(&keys_t), kind: GroupKind::Plain, aggs: std_aggs(variant) });
        }
        Strat::Sorted => {
            intent = "sorted-input";
            if variant % 2 == 1 {
                cfg.target_partitions = 3;
                nparts = 3;
            }
            sort = (0..keys_t.len()).map(|c| (c, rng.bool(), rng.bool())).collect();
            kind = Kind::Sql(Query::Group { keys: all_keys(&keys_t), kind: GroupKind::Plain, aggs: std_aggs(variant) });
        }
        Strat::PartSorted => {
            intent = "partially-sorted-input";
            if keys_t.len() < 2 {
                keys_t.push(KT::I32);
            }
            if variant % 2 == 1 {
                cfg.target_partitions = 3;
                nparts = 3;
            }
            // declared order covers one of the grouping columns only
            let c = if variant % 4 < 2 { 0 } else { keys_t.len() - 1 };
            sort = vec![(c, rng.bool(), rng.bool())];
            kind = Kind::Sql(Query::Group { keys: all_keys(&keys_t), kind: GroupKind::Plain, aggs: std_aggs(variant) });
        }
        Strat::SkipPartial => {
            intent = "skip-partial";
            cfg.target_partitions = 3;
            cfg.skip_partial = true;
            nparts = 2 + variant % 2;
            if batch > 64 {
                cfg.batch_size = 16; // several input batches are needed for the probe to lock
            }
            let mut aggs = std_aggs(variant);
            if variant % 2 == 0 {
                // FILTERed aggregates (one with a literal argument) through the skipped partial stage:
                // rows converted straight to states must still honour the FILTER mask
                aggs.push(Agg { f: AggFn::CountStar, col: 0, distinct: false, filter: Some(0) });
                aggs.push(Agg { f: AggFn::Count, col: 0, distinct: false, filter: Some(3) });
            }
            kind = Kind::Sql(Query::Group { keys: all_keys(&keys_t), kind: GroupKind::Plain, aggs });
        }
        Strat::TopK => {
            intent = "topk";
            if variant % 2 == 1 {
                cfg.target_partitions = 3;
                nparts = 3;
            }
            let f = if variant % 4 < 2 { AggFn::Max } else { AggFn::Min };
            let agg = Agg::new(f, variant % 3);
            let n = [1, 2, 5, 300][(variant / 2) % 4];
            // the engine bounds the aggregation only when direction matches the function and NULLs sort last
            let matching = variant % 7 != 6;
            let desc = (f == AggFn::Max) == matching;
            let nulls_first = variant % 11 == 10;
            kind = if variant % 5 == 4 { Kind::Sql(Query::TopKey { keys: vec![0], desc: variant % 2 == 0, nulls_first: variant % 3 == 0, n }) } else { Kind::Sql(Query::TopK { keys: vec![0], agg, desc, nulls_first, n }) };
        }
        Strat::Spill => {
            intent = "spill";
            if variant % 2 == 1 {
                cfg.target_partitions = 2;
                nparts = 2;
            }
            // spilling needs many groups: these tables are larger than the 200-row default
            if n_rows >= 40 {
                n_rows = [300, 700, 1500][variant % 3];
                domain = if variant % 4 == 3 { n_rows / 3 } else { n_rows };
            }
            cfg.mem_limit = Some(SPILL_LADDER[0]);
            kind = Kind::Sql(Query::Group { keys: all_keys(&keys_t), kind: GroupKind::Plain, aggs: std_aggs(variant) });
        }
        Strat::GroupingSets => {
            intent = "grouping-sets";
            if keys_t.len() < 2 {
                keys_t.push(KT::I32);
            }
            n_rows = n_rows.max(1); // the () grouping set over an empty input is not asserted
            if variant % 2 == 1 {
                cfg.target_partitions = 3;
                nparts = 2;
            }
            let n = keys_t.len();
            let gk = match variant % 3 {
                0 => GroupKind::Rollup,
                1 => GroupKind::Cube,
                _ => {
                    let mut sets: Vec<Vec<bool>> = vec![(0..n).map(|i| i == 0).collect(), (0..n).map(|i| i == n - 1).collect(), vec![false; n]];
                    if variant % 2 == 0 || n > 2 {
                        sets.push(vec![true; n]);
                    }
                    GroupKind::Sets(sets)
                }
            };
            kind = Kind::Sql(Query::Group { keys: all_keys(&keys_t), kind: gk, aggs: std_aggs(variant) });
        }
        Strat::DistinctFilter => {
            intent = "distinct-filter-args";
            if variant % 2 == 1 {
                cfg.target_partitions = 3;
                nparts = 3;
            }
            let mut aggs = vec![Agg::new(AggFn::Count, 0), Agg::new(AggFn::Sum, 0), Agg::new(AggFn::Count, 2), Agg::new(AggFn::Max, 1)];
            match variant % 4 {
                0 => {
                    aggs[0].distinct = true;
                    aggs[1].filter = Some(0);
                }
                1 => {
                    // only DISTINCT aggregates over the same argument (single_distinct_to_groupby applies)
                    aggs = vec![Agg { f: AggFn::Count, col: 0, distinct: true, filter: None }, Agg { f: AggFn::Sum, col: 0, distinct: true, filter: None }];
                }
                2 => {
                    aggs[0].filter = Some(-5);
                    aggs[2].distinct = true;
                    aggs[3].filter = Some(10);
                }
                _ => {
                    aggs[1].distinct = true;
                    aggs[1].filter = Some(-10);
                    aggs.push(Agg { f: AggFn::CountStar, col: 0, distinct: false, filter: Some(3) });
                }
            }
            kind = Kind::Sql(Query::Group { keys: all_keys(&keys_t), kind: GroupKind::Plain, aggs });
        }
        Strat::Legacy => {
            intent = "legacy-stream";
            cfg.migration = false;
            if variant % 2 == 1 {
                cfg.target_partitions = 3;
                nparts = 3;
            }
            if variant % 4 >= 2 {
                sort = (0..keys_t.len()).map(|c| (c, rng.bool(), rng.bool())).collect();
            }
            kind = Kind::Sql(Query::Group { keys: all_keys(&keys_t), kind: GroupKind::Plain, aggs: std_aggs(variant) });
        }
        Strat::LimitDistinct => {
            intent = "distinct-limit";
            if variant % 2 == 1 {
                cfg.target_partitions = 3;
                nparts = 3;
            }
            kind = Kind::Sql(Query::DistinctLimit { keys: all_keys(&keys_t), n: [1, 3, 10, 500][variant % 4] });
        }
        Strat::Direct(shape, sorted) => {
            intent = "direct-aggregate-exec";
            cfg.target_partitions = 1 + variant % 3;
            nparts = 1 + (variant / 3) % 3;
            cfg.migration = variant % 5 != 4;
            if sorted {
                sort = (0..keys_t.len()).map(|c| (c, rng.bool(), rng.bool())).collect();
                if keys_t.len() > 1 && variant % 3 == 2 {
                    sort.truncate(1);
                }
            }
            if variant % 7 == 6 {
                cfg.skip_partial = true;
            }
            let mut aggs = std_aggs(variant);
            if variant % 4 == 3 {
                aggs[0] = Agg { f: AggFn::Count, col: 0, distinct: true, filter: None };
                aggs[1].filter = Some(0);
            }
            kind = Kind::Direct { shape, keys: all_keys(&keys_t), aggs };
        }
    }
    if !sort.is_empty() {
        contiguous = rng.bool();
    }
    let tab = gen_tab(rng, &keys_t, &TabCfg { n_rows, domain, null_pm: if variant % 5 == 4 { 0 } else { 150 } });
    let mut order: Vec<usize> = (0..tab.rows.len()).collect();
    if !sort.is_empty() {
        order.sort_by(|a, b| cmp_rows_on(&tab.rows[*a], &tab.rows[*b], &sort, &tab.keys));
    } else if rng.bool() {
        rng.shuffle(&mut order);
    }
    let layout = layout_from_order(&order, nparts, batch, contiguous, rng);
    Case { tab, layout, sort, cfg, kind, arrays_seed, intent }
}

/// Random tail: free mixes of key columns, strategies and configuration switches.
fn random_case(rng: &mut Rng, arrays_seed: u64) -> Case {
    let nk = 1 + rng.weighted(&[5, 3, 1]);
    let keys_t: Vec<KT> = (0..nk).map(|_| *rng.pick(ALL_KT)).collect();
    let strat = if rng.chance(1, 4) { Strat::Direct(*rng.pick(ALL_SHAPES), rng.bool()) } else { *rng.pick(SQL_STRATS) };
    let shape = (rng.pick_cloned(&[0usize, 1, 2, 5, 17, 50, 100, 200]), rng.pick_cloned(&[1usize, 2, 3, 8, 40, 200]), rng.pick_cloned(&[1usize, 2, 7, 8192]));
    let variant = rng.usize(840);
    let mut c = make_case(rng, &keys_t, strat, shape, variant, arrays_seed);
    // extra switches on top of the strategy's own configuration
    if rng.chance(1, 6) {
        c.cfg.migration = !c.cfg.migration;
    }
    if rng.chance(1, 8) {
        c.cfg.skip_partial = true;
    }
    if rng.chance(1, 10) && c.cfg.mem_limit.is_none() {
        c.cfg.mem_limit = Some(spill_limit(c.tab.rows.len(), rng.usize(4)) * (1 + rng.usize(3)));
    }
    if let Kind::Sql(Query::Group { aggs, kind, .. }) = &mut c.kind {
        if rng.chance(1, 3) {
            let n = 1 + rng.usize(5);
            *aggs = gen_aggs(rng, n, true, true);
        }
        if *kind == GroupKind::Plain && rng.chance(1, 10) && nk >= 2 && !c.tab.rows.is_empty() {
            // explicit sets incl. a duplicated set
            let mut sets: Vec<Vec<bool>> = (0..1 + rng.usize(3)).map(|_| (0..nk).map(|_| rng.bool()).collect()).collect();
            if rng.chance(1, 3) {
                sets.push(sets[0].clone());
            }
            if (0..nk).any(|c| sets.iter().all(|s| !s[c])) {
                sets.push(vec![true; nk]); // every selected column must be grouped somewhere
            }
            *kind = GroupKind::Sets(sets);
        }
    }
    c
}

// ---- execution + oracle --------------------------------------------------------------------

fn key_labels(tab: &Tab) -> Vec<String> {
    let mut v: Vec<String> = tab.keys.iter().map(|k| k.name().to_string()).collect::<BTreeSet<_>>().into_iter().collect();
    if tab.keys.len() > 1 {
        v.push("multi-column".into());
    }
    v
}

/// Strategy labels that REALLY ran, read off the executed plan's aggregate nodes and metrics.
fn strategy_labels(case: &Case, aggs: &[AggObs]) -> BTreeSet<String> {
    let mut s = BTreeSet::new();
    let modes: BTreeSet<&str> = aggs.iter().map(|a| a.mode.as_str()).collect();
    for a in aggs {
        s.insert(format!("stream:{}/{}", a.stream, a.mode));
        if a.order != "Linear" {
            s.insert(format!("ordering_mode={}", a.order));
        }
        if a.skipped_rows > 0 {
            s.insert("skip-partial(skipped_aggregation_rows>0)".into());
        }
        if a.spill_count > 0 {
            s.insert(format!("spill(spill_count>0)/{}", a.stream));
        }
        if a.lim.is_some() {
            s.insert(if a.stream == "GroupedTopK" { "topk(lim=)".into() } else { "distinct-limit(lim=)".to_string() });
        }
        if a.grouping_sets {
            s.insert("grouping-sets-node".into());
        }
    }
    if modes.contains("Partial") && (modes.contains("Final") || modes.contains("FinalPartitioned")) {
        s.insert("two-phase(Partial+Final*)".into());
    }
    if modes.contains("Single") || modes.contains("SinglePartitioned") {
        s.insert("one-phase(Single*)".into());
    }
    if aggs.is_empty() {
        return s;
    }
    match &case.kind {
        Kind::Sql(q) => {
            if let Query::Group { kind, aggs, .. } = q {
                match kind {
                    GroupKind::Plain => {}
                    GroupKind::Rollup => {
                        s.insert("sql:ROLLUP".into());
                    }
                    GroupKind::Cube => {
                        s.insert("sql:CUBE".into());
                    }
                    GroupKind::Sets(_) => {
                        s.insert("sql:GROUPING SETS".into());
                    }
                }
                if aggs.iter().any(|a| a.distinct) {
                    s.insert("agg-arg:DISTINCT".into());
                }
                if aggs.iter().any(|a| a.filter.is_some()) {
                    s.insert("agg-arg:FILTER".into());
                }
            }
        }
        Kind::Direct { shape, aggs, .. } => {
            s.insert(format!("direct:{}", shape.name()));
            if aggs.iter().any(|a| a.distinct) {
                s.insert("agg-arg:DISTINCT".into());
            }
            if aggs.iter().any(|a| a.filter.is_some()) {
                s.insert("agg-arg:FILTER".into());
            }
        }
    }
    s.insert(format!("batch_size={}", case.cfg.batch_size));
    s
}

fn run_engine(case: &Case) -> Result<datafusion::error::Result<EngineOut>, String> {
    vcommon::par::guard(|| {
        let rt = current_thread_rt();
        rt.block_on(async {
            let parts = parts_for(&case.tab, &case.layout, case.arrays_seed);
            let fut = async {
                match &case.kind {
                    Kind::Sql(q) => run_sql(&case.tab, parts, &case.sort, &case.cfg, &q.sql()).await,
                    Kind::Direct { shape, keys, aggs } => run_direct(&case.tab, parts, &case.sort, &case.cfg, *shape, keys, aggs).await,
                }
            };
            match tokio::time::timeout(std::time::Duration::from_secs(120), fut).await {
                Ok(r) => r,
                Err(_) => Err(datafusion::error::DataFusionError::Execution("C06-WATCHDOG".into())),
            }
        })
    })
}

fn compare(case: &Case, engine: &[Row], expected: &[Row]) -> Result<(), Diff> {
    let q = case.query();
    let nk = q.keys().len();
    match &q {
        Query::Group { aggs, .. } => compare_full(engine, expected, if q.has_grouping_sets() { 2 * nk } else { nk }, aggs),
        Query::TopK { agg, desc, nulls_first, n, .. } => compare_topk(engine, expected, nk, agg, *desc, *nulls_first, *n),
        Query::TopKey { desc, nulls_first, n, .. } => compare_topkey(engine, expected, nk, *desc, *nulls_first, *n),
        Query::DistinctLimit { n, .. } => compare_distinct_limit(engine, expected, nk, *n),
    }
}

/// selftest: damage the OBSERVED rows the way a broken aggregation would
fn corrupt(rows: &mut Vec<Row>, rng: &mut Rng) {
    use dfv::value::Value;
    if rows.is_empty() {
        return;
    }
    let i = rng.usize(rows.len());
    match rng.usize(3) {
        0 => {
            rows.remove(i); // lost group
        }
        1 => {
            let r = rows[i].clone();
            rows.push(r); // group emitted twice
        }
        _ => {
            let last = rows[i].len() - 1;
            rows[i][last] = match &rows[i][last] {
                Value::Int(x) => Value::Int(x + 1),
                Value::Float(x) => Value::Float(x + 1.0),
                Value::Null => Value::Int(0),
                Value::Str(s) => Value::Str(format!("{s}x")),
                Value::Bool(b) => Value::Bool(!b),
            };
        }
    }
}

static MATRIX: std::sync::Mutex<std::collections::BTreeMap<String, std::collections::BTreeMap<String, u64>>> = std::sync::Mutex::new(std::collections::BTreeMap::new());

static FRESH: std::sync::atomic::AtomicU64 = std::sync::atomic::AtomicU64::new(0);

/// Genuine engine defect (reported): the grouped TopK hash table compares float keys with `==`, so
/// NaN keys never match themselves (duplicate NaN groups, `unreachable!()` when one is evicted).
/// Classified only when (a) the query is the TopK shape over a float key column containing NaN,
/// (b) the same case agrees with the reference once enable_topk_aggregation = false.
fn classify_topk_nan(case: &Case) -> bool {
    use dfv::value::Value;
    let (Kind::Sql(Query::TopK { keys, .. }) | Kind::Sql(Query::TopKey { keys, .. })) = &case.kind else { return false };
    if !case.cfg.topk {
        return false;
    }
    let nan_key = keys.iter().any(|k| matches!(case.tab.keys[*k], KT::F32 | KT::F64) && case.tab.rows.iter().any(|r| matches!(&r[*k], Value::Float(f) if f.is_nan())));
    if !nan_key {
        return false;
    }
    let mut c2 = case.clone();
    c2.cfg.topk = false;
    c2.cfg.mem_limit = None; // the localisation run must not fail for an unrelated reason
    match run_engine(&c2) {
        Ok(Ok(o)) => compare(&c2, &o.rows, &reference(&c2.tab, &c2.query())).is_ok(),
        _ => false,
    }
}

static CLASSIFIED: std::sync::atomic::AtomicU64 = std::sync::atomic::AtomicU64::new(0);

fn violation(rep: &Report, sig: &str, w: Json) {
    if sig != "topk-nan-group-key" {
        FRESH.fetch_add(1, std::sync::atomic::Ordering::Relaxed);
    } else if CLASSIFIED.fetch_add(1, std::sync::atomic::Ordering::Relaxed) >= 2 {
        // two witnesses of the classified defect are enough; leave the report's slots to new ones
        rep.count("further_occurrences:topk-nan-group-key", 1);
        return;
    }
    rep.violation(sig, w);
}

#[derive(PartialEq)]
enum Outcome {
    Compared,
    ResourcesExhausted,
    Other,
}

/// Spill cases climb the memory-limit ladder until the engine answers; every answer is compared.
fn check_case(rep: &Report, case: &Case, systematic: bool, mut selftest: Option<&mut Rng>) {
    if case.intent != "spill" {
        check_one(rep, case, systematic, selftest);
        return;
    }
    for lim in SPILL_LADDER {
        let mut c = case.clone();
        c.cfg.mem_limit = Some(*lim);
        if check_one(rep, &c, systematic, selftest.as_deref_mut()) != Outcome::ResourcesExhausted {
            return;
        }
    }
}

fn check_one(rep: &Report, case: &Case, systematic: bool, selftest: Option<&mut Rng>) -> Outcome {
    let fp = case.fingerprint();
    let expected = reference(&case.tab, &case.query());
    let out = match run_engine(case) {
        Err(panic) => {
            rep.case(fp, true);
            let sig = if panic.contains("topk/hash_table.rs") && classify_topk_nan(case) { "topk-nan-group-key" } else { "engine-panic" };
            violation(rep, sig, json!({"case": case.to_json(), "panic": panic, "expected_rows": rows_to_json(&expected)}));
            return Outcome::Other;
        }
        Ok(Err(e)) => {
            rep.case(fp, false);
            let msg = e.to_string();
            if msg.contains("C06-WATCHDOG") {
                rep.inconclusive("a case exceeded the 120 s wall-clock guard");
                return Outcome::Other;
            }
            if std::env::var("C06_DEBUG").is_ok() {
                eprintln!("ERR {} :: {} :: {}", case.to_json()["what"], case.tab.keys.iter().map(|k| k.name()).collect::<Vec<_>>().join(","), msg.chars().take(300).collect::<String>());
            }
            if msg.contains("panicked with message") {
                // a panic inside a spawned partition task surfaces as a JoinError
                rep.nontrivial(fp);
                let sig = if msg.contains("entered unreachable code") && classify_topk_nan(case) { "topk-nan-group-key" } else { "engine-panic" };
                violation(rep, sig, json!({"case": case.to_json(), "panic": msg.chars().take(400).collect::<String>(), "expected_rows": rows_to_json(&expected)}));
                return Outcome::Other;
            }
            match classify(&e) {
                ErrClass::ResourcesExhausted if case.cfg.mem_limit.is_some() => {
                    rep.skip("resources-exhausted-under-memory-limit");
                    return Outcome::ResourcesExhausted;
                }
                ErrClass::NotImplemented => rep.skip("engine-not-implemented"),
                ErrClass::Plan => rep.skip("engine-plan-error"),
                cls => {
                    // an aggregation over valid input that fails although a memory limit is not the cause
                    if case.cfg.mem_limit.is_some() && msg.contains("Resources exhausted") {
                        rep.skip("resources-exhausted-under-memory-limit");
                        return Outcome::ResourcesExhausted;
                    } else {
                        violation(rep, &format!("engine-error/{cls:?}"), json!({"case": case.to_json(), "error": msg.chars().take(600).collect::<String>(), "expected_rows": rows_to_json(&expected)}));
                    }
                }
            }
            return Outcome::Other;
        }
        Ok(Ok(o)) => o,
    };
    let mut engine_rows = out.rows.clone();
    if let Some(rng) = selftest {
        corrupt(&mut engine_rows, rng);
    }
    let labels = strategy_labels(case, &out.aggs);
    let nontrivial = !expected.is_empty() && !out.aggs.is_empty();
    rep.case(fp, nontrivial);
    rep.count(if systematic { "compared_systematic" } else { "compared_random" }, 1);
    if out.aggs.is_empty() {
        rep.count("plans_without_aggregate_node", 1);
    }
    for l in &labels {
        rep.seen(if systematic { "strategies_systematic" } else { "strategies_random" }, l);
        let mut m = MATRIX.lock().unwrap_or_else(|e| e.into_inner());
        for k in key_labels(&case.tab) {
            *m.entry(l.clone()).or_default().entry(k).or_insert(0) += 1;
        }
    }
    rep.count(&format!("intent:{}", case.intent), 1);
    if let Err(d) = compare(case, &engine_rows, &expected) {
        let sig = if out.aggs.iter().any(|a| a.stream == "GroupedTopK") && classify_topk_nan(case) { "topk-nan-group-key".to_string() } else { d.kind.clone() };
        violation(
            rep,
            &sig,
            json!({"case": case.to_json(), "difference": d.text, "strategies_observed": labels, "aggregate_nodes": out.aggs.iter().map(|a| a.to_json()).collect::<Vec<_>>(),
                   "physical_plan": out.plan_text, "engine_rows": rows_to_json(&engine_rows), "expected_rows": rows_to_json(&expected)}),
        );
    } else if rep.want_sample() && nontrivial && labels.len() >= 4 && case.tab.rows.len() <= 40 {
        rep.sample(json!({"what": case.to_json()["what"], "keys": case.tab.keys.iter().map(|k| k.name()).collect::<Vec<_>>(), "rows_in": case.tab.rows.len(), "groups_out": expected.len(),
                          "strategies_observed": labels, "aggregate_nodes": out.aggs.iter().map(|a| a.to_json()).collect::<Vec<_>>()}));
    }
    Outcome::Compared
}

const REQUIRED: &[&str] = &[
    "one-phase(Single*)",
    "two-phase(Partial+Final*)",
    "ordering_mode=Sorted",
    "ordering_mode=PartiallySorted",
    "skip-partial(skipped_aggregation_rows>0)",
    "topk(lim=)",
    "distinct-limit(lim=)",
    "sql:ROLLUP",
    "sql:CUBE",
    "sql:GROUPING SETS",
    "agg-arg:DISTINCT",
    "agg-arg:FILTER",
    "stream:PartialHash/Partial",
    "stream:FinalHash/FinalPartitioned",
    "stream:FinalHash/Final",
    "stream:SingleHash/Single",
    "stream:SingleHash/SinglePartitioned",
    "stream:OrderedPartial/Partial",
    "stream:OrderedFinal/FinalPartitioned",
    "stream:OrderedSingle/Single",
    "stream:PartialReduceHash/PartialReduce",
    "stream:GroupedTopK/Partial",
    "stream:GroupedHash(legacy)/Partial",
    "stream:GroupedHash(legacy)/FinalPartitioned",
    "stream:GroupedHash(legacy)/Single",
    "direct:Single",
    "direct:Repartition>SinglePartitioned",
    "direct:Partial>Final",
    "direct:Partial>Repartition>FinalPartitioned",
    "direct:Partial>PartialReduce>Final",
    "batch_size=1",
    "batch_size=2",
    "batch_size=7",
    "batch_size=8192",
];

fn systematic_cases(reduced: bool) -> Vec<(Vec<KT>, Strat, (usize, usize, usize), usize)> {
    let mut v = vec![];
    let mixes: &[&[KT]] = &[&[KT::I32, KT::Utf8], &[KT::Utf8View, KT::Bool, KT::I64], &[KT::DictUtf8, KT::Dec128], &[KT::Binary, KT::Date32], &[KT::U8, KT::F64, KT::LargeUtf8], &[KT::TsNs, KT::DictI64]];
    let mut key_sets: Vec<Vec<KT>> = ALL_KT.iter().map(|k| vec![*k]).collect();
    key_sets.extend(mixes.iter().map(|m| m.to_vec()));
    for (ki, ks) in key_sets.iter().enumerate() {
        for (si, st) in SQL_STRATS.iter().enumerate() {
            for (hi, sh) in SHAPES.iter().enumerate() {
                // memcheck stage: ~200 small cases (<= 64 rows, no spill ladder)
                if reduced && ((hi + ki + si) % 12 != 0 || sh.0 > 64 || *st == Strat::Spill) {
                    continue;
                }
                v.push((ks.clone(), *st, *sh, ki + 3 * si + 5 * hi));
            }
        }
        for (di, d) in ALL_SHAPES.iter().enumerate() {
            for sorted in [false, true] {
                for (hi, sh) in SHAPES.iter().enumerate() {
                    if hi == 0 && sorted {
                        continue;
                    }
                    if reduced && ((hi + ki + di) % 12 != 0 || sh.0 > 64) {
                        continue;
                    }
                    v.push((ks.clone(), Strat::Direct(*d, sorted), *sh, ki + 2 * di + 3 * hi + sorted as usize));
                }
            }
        }
    }
    v
}

fn run(args: &Args) -> i32 {
    let rep = Report::new("C06", "exploration", args);
    rep.set_rule(
        "case = (typed table of 0-200 rows with NULL/duplicate-heavy keys, partition/batch layout, declared sort order, session configuration, GROUP BY query or AggregateExec pipeline) executed by the engine and by an independent sorted-map grouping; distinct = hash of the whole case; non-trivial = the reference result has at least one group and the executed plan contains an AggregateExec",
    );
    rep.assume("reference grouping: one output row per distinct key tuple (NULL its own group, NaN one value), aggregates folded with dfv::refint::fold_agg over exactly the group's rows; dyadic floats so sums are exact, avg compared with 1e-9 relative tolerance");
    rep.assume("the stream implementation of an AggregateExec node is re-derived from its public state (mode, input_order_mode, limit_options, grouping sets) and enable_migration_aggregate exactly as AggregateExec::execute_typed does; skip-partial / spill are read from the node's metrics after execution");
    rep.assume("the () grouping set over an EMPTY input is not asserted (generator keeps >= 1 row for GROUPING SETS/ROLLUP/CUBE)");
    if let Some(p) = &args.replay {
        return replay(p);
    }
    let selftest = args.opt_u64("selftest", 0) == 1;
    let reduced = args.stage == "memcheck";
    if let Some(p) = args.opt_str("probe") {
        return probe(p, args);
    }

    // systematic, seed independent
    let sys = systematic_cases(reduced);
    let n_sys = sys.len() as u64;
    vcommon::par::run(args.workers, sys.into_iter().enumerate(), |(i, (ks, st, sh, variant))| {
        let mut rng = Rng::derive(0xC06, &[0, i as u64]);
        let case = make_case(&mut rng, &ks, st, sh, variant, fp_mix(0xC06, i as u64));
        let mut st_rng = Rng::derive(0xC06, &[7, i as u64]);
        check_case(&rep, &case, true, if selftest && i % 3 == 0 { Some(&mut st_rng) } else { None });
    });
    for r in REQUIRED.iter().filter(|_| !reduced) {
        rep.obligation(&format!("strategy:{r}"), rep.has_seen("strategies_systematic", r), "strategy must REALLY run (plan text / metrics) at least once in the systematic part");
    }
    let spilled = ["SingleHash", "FinalHash", "GroupedHash(legacy)", "PartialHash", "OrderedSingle", "OrderedFinal", "OrderedPartial"]
        .iter()
        .any(|s| rep.has_seen("strategies_systematic", &format!("spill(spill_count>0)/{s}")));
    rep.obligation("strategy:spill(spill_count>0)", spilled || reduced, "a memory-limited aggregate must report spill_count > 0 at least once in the systematic part");

    // seeded random tail
    let n_rand = if reduced { 40 } else { args.bound("random", 3000, 150_000) };
    vcommon::par::run(args.workers, 0..n_rand, |i| {
        if FRESH.load(std::sync::atomic::Ordering::Relaxed) > 40 {
            return;
        }
        let mut rng = Rng::derive(args.seed, &[0xC06, 1, i]);
        let case = random_case(&mut rng, fp_mix(args.seed, i));
        check_case(&rep, &case, false, None);
    });
    let compared = rep.get_count("compared_systematic") + rep.get_count("compared_random");
    rep.obligation("compared-share", compared * 100 >= (n_sys + n_rand) * 80, "at least 80% of the generated cases must be executed and compared");

    // strategy x key-type matrix (observed counts)
    rep.extra("strategy_x_keytype_matrix", json!(*MATRIX.lock().unwrap_or_else(|e| e.into_inner())));
    rep.extra("key_types", json!(ALL_KT.iter().map(|k| k.name()).collect::<Vec<_>>()));
    rep.finish()
}

/// `--opt probe=spill`: print which memory limits make which shapes spill (tuning aid).
fn probe(what: &str, args: &Args) -> i32 {
    if what != "spill" {
        return 2;
    }
    for n_rows in [100usize, 200] {
        for lim in [2_000usize, 4_000, 6_000, 8_000, 10_000, 16_000, 24_000, 32_000, 64_000, 128_000] {
            for (tp, mig) in [(1usize, true), (2, true), (1, false), (2, false)] {
                let mut rng = Rng::derive(args.seed, &[9, n_rows as u64, lim as u64]);
                let mut c = make_case(&mut rng, &[KT::I64], Strat::Spill, (n_rows, n_rows, 7), 0, 1);
                c.cfg.mem_limit = Some(lim);
                c.cfg.target_partitions = tp;
                c.cfg.migration = mig;
                let r = run_engine(&c);
                let s = match r {
                    Ok(Ok(o)) => format!("ok spill={:?}", o.aggs.iter().map(|a| (a.stream, a.mode.clone(), a.spill_count)).collect::<Vec<_>>()),
                    Ok(Err(e)) => format!("err {}", e.to_string().chars().take(90).collect::<String>()),
                    Err(p) => format!("panic {p}"),
                };
                println!("rows={n_rows} limit={lim} tp={tp} migration={mig}: {s}");
            }
        }
    }
    0
}

fn replay(p: &std::path::Path) -> i32 {
    let Ok(text) = std::fs::read_to_string(p) else { return 2 };
    let Ok(j) = serde_json::from_str::<Json>(&text) else { return 2 };
    let Some(case) = j.get("witness").and_then(|w| w.get("case")).and_then(Case::from_json) else {
        println!("cannot load witness {}", p.display());
        return 2;
    };
    println!("{}", case.to_json()["what"]);
    let expected = reference(&case.tab, &case.query());
    match run_engine(&case) {
        Ok(Ok(o)) => {
            println!("{}", o.plan_text);
            println!("engine:   {}", rows_to_json(&o.rows));
            println!("expected: {}", rows_to_json(&expected));
            match compare(&case, &o.rows, &expected) {
                Ok(()) => {
                    println!("REPLAY: engine now agrees with the reference grouping");
                    0
                }
                Err(d) => {
                    println!("VIOLATION property=C06 replay={} signature={} ({})", p.display(), d.kind, d.text);
                    1
                }
            }
        }
        Ok(Err(e)) => {
            println!("engine error: {e}");
            1
        }
        Err(p) => {
            println!("engine panic: {p}");
            1
        }
    }
}

fn main() {
    let args = Args::parse();
    vcommon::par::quiet_panics();
    std::process::exit(run(&args));
}
