//! Engine side of C06: session construction, SQL execution with plan/metric observation and
//! directly constructed `AggregateExec` pipelines.

use crate::data::*;
use crate::query::*;
use arrow::datatypes::SchemaRef;
use arrow::record_batch::RecordBatch;
use datafusion::datasource::MemTable;
use datafusion::error::{DataFusionError, Result};
use datafusion::execution::TaskContext;
use datafusion::execution::runtime_env::{RuntimeEnv, RuntimeEnvBuilder};
use datafusion::physical_expr::aggregate::AggregateExprBuilder;
use datafusion::physical_expr::expressions::{binary, col, lit};
use datafusion::physical_expr::{LexOrdering, PhysicalExpr, PhysicalSortExpr};
use datafusion::physical_plan::aggregates::{AggregateExec, AggregateMode, PhysicalGroupBy};
use datafusion::physical_plan::coalesce_partitions::CoalescePartitionsExec;
use datafusion::physical_plan::repartition::RepartitionExec;
use datafusion::physical_plan::sorts::sort_preserving_merge::SortPreservingMergeExec;
use datafusion::physical_plan::{ExecutionPlan, ExecutionPlanProperties, InputOrderMode, Partitioning, collect, displayable};
use datafusion::prelude::*;
use datafusion_datasource::memory::MemorySourceConfig;
use datafusion_datasource::source::DataSourceExec;
use dfv::ast::AggFn;
use dfv::value::Row;
use std::sync::Arc;
use vcommon::{Json, Rng, json};

#[derive(Clone, Debug)]
pub struct Cfg {
    pub target_partitions: usize,
    pub batch_size: usize,
    /// `datafusion.execution.enable_migration_aggregate` (false = legacy GroupedHashAggregateStream)
    pub migration: bool,
    /// skip_partial_aggregation_probe_{rows_threshold=1, ratio_threshold=0.0..}
    pub skip_partial: bool,
    pub mem_limit: Option<usize>,
    pub topk: bool,
}

impl Cfg {
    pub fn new(target_partitions: usize, batch_size: usize) -> Cfg {
        Cfg { target_partitions, batch_size, migration: true, skip_partial: false, mem_limit: None, topk: true }
    }
    pub fn to_json(&self) -> Json {
        json!({"target_partitions": self.target_partitions, "batch_size": self.batch_size, "enable_migration_aggregate": self.migration,
               "skip_partial_thresholds_tiny": self.skip_partial, "memory_limit": self.mem_limit, "enable_topk_aggregation": self.topk})
    }
    pub fn from_json(j: &Json) -> Option<Cfg> {
        Some(Cfg {
            target_partitions: j.get("target_partitions")?.as_u64()? as usize,
            batch_size: j.get("batch_size")?.as_u64()? as usize,
            migration: j.get("enable_migration_aggregate")?.as_bool()?,
            skip_partial: j.get("skip_partial_thresholds_tiny")?.as_bool()?,
            mem_limit: j.get("memory_limit").and_then(|m| m.as_u64()).map(|m| m as usize),
            topk: j.get("enable_topk_aggregation")?.as_bool()?,
        })
    }
    pub fn session_config(&self) -> SessionConfig {
        let mut c = SessionConfig::new().with_target_partitions(self.target_partitions).with_batch_size(self.batch_size).with_information_schema(false);
        let o = c.options_mut();
        o.execution.enable_migration_aggregate = self.migration;
        o.optimizer.enable_topk_aggregation = self.topk;
        if self.skip_partial {
            o.execution.skip_partial_aggregation_probe_rows_threshold = 1;
            o.execution.skip_partial_aggregation_probe_ratio_threshold = 0.01;
        }
        c
    }
    pub fn runtime(&self) -> Result<Arc<RuntimeEnv>> {
        match self.mem_limit {
            Some(m) => RuntimeEnvBuilder::new().with_memory_limit(m, 1.0).build_arc(),
            None => RuntimeEnvBuilder::new().build_arc(),
        }
    }
}

/// What one `AggregateExec` node of the executed plan looked like and did.
#[derive(Clone, Debug)]
pub struct AggObs {
    pub mode: String,
    /// Linear / Sorted / PartiallySorted
    pub order: &'static str,
    pub lim: Option<usize>,
    /// which stream implementation `execute` selected (re-derived from the node's public state + config)
    pub stream: &'static str,
    pub grouping_sets: bool,
    pub skipped_rows: usize,
    pub spill_count: usize,
    pub text: String,
}

impl AggObs {
    pub fn to_json(&self) -> Json {
        json!({"node": self.text, "stream": self.stream, "skipped_aggregation_rows": self.skipped_rows, "spill_count": self.spill_count})
    }
}

fn stream_kind(a: &AggregateExec, cfg: &Cfg) -> &'static str {
    // mirrors AggregateExec::execute_typed using only public accessors
    let g = a.group_expr();
    if g.is_true_no_grouping() {
        return "AggregateStream";
    }
    let unordered_distinct = a.is_unordered_unfiltered_group_by_distinct();
    if a.limit_options().is_some() && !unordered_distinct {
        return "GroupedTopK";
    }
    let linear = *a.input_order_mode() == InputOrderMode::Linear;
    let lim_ok = a.limit_options().is_none() || unordered_distinct;
    if cfg.migration && g.is_single() {
        match a.mode() {
            AggregateMode::Partial if lim_ok => return if linear { "PartialHash" } else { "OrderedPartial" },
            AggregateMode::PartialReduce if linear && a.limit_options().is_none() && cfg.mem_limit.is_none() => return "PartialReduceHash",
            AggregateMode::Final | AggregateMode::FinalPartitioned if lim_ok => return if linear { "FinalHash" } else { "OrderedFinal" },
            AggregateMode::Single | AggregateMode::SinglePartitioned if a.limit_options().is_none() => return if linear { "SingleHash" } else { "OrderedSingle" },
            _ => {}
        }
    }
    "GroupedHash(legacy)"
}

pub fn observe(plan: &Arc<dyn ExecutionPlan>, cfg: &Cfg, out: &mut Vec<AggObs>) {
    if let Some(a) = plan.downcast_ref::<AggregateExec>() {
        let text = format!("{}", displayable(a).one_line()).trim().to_string();
        let m = a.metrics();
        let skipped_rows = m.as_ref().and_then(|m| m.sum_by_name("skipped_aggregation_rows")).map(|v| v.as_usize()).unwrap_or(0);
        let spill_count = m.as_ref().and_then(|m| m.spill_count()).unwrap_or(0);
        let order = match a.input_order_mode() {
            InputOrderMode::Linear => "Linear",
            InputOrderMode::Sorted => "Sorted",
            InputOrderMode::PartiallySorted(_) => "PartiallySorted",
        };
        // the display text is the authority the task names; keep both views consistent
        let order = if order != "Linear" && !text.contains(&format!("ordering_mode={order}")) { "Linear" } else { order };
        let lim = a.limit_options().map(|l| l.limit()).filter(|_| text.contains("lim=["));
        out.push(AggObs {
            mode: format!("{:?}", a.mode()),
            order,
            lim,
            stream: stream_kind(a, cfg),
            grouping_sets: a.group_expr().has_grouping_set(),
            skipped_rows,
            spill_count,
            text,
        });
    }
    for c in plan.children() {
        observe(c, cfg, out);
    }
}

pub struct EngineOut {
    pub rows: Vec<Row>,
    pub aggs: Vec<AggObs>,
    pub plan_text: String,
}

pub fn sort_exprs_logical(sort: &[SortKey]) -> Vec<datafusion::logical_expr::SortExpr> {
    sort.iter().map(|(c, desc, nf)| datafusion::prelude::col(format!("k{c}")).sort(!*desc, *nf)).collect()
}

/// Register `t` with the recorded layout (and declared sort order) and run the SQL text.
pub async fn run_sql(tab: &Tab, parts: Vec<Vec<RecordBatch>>, sort: &[SortKey], cfg: &Cfg, sql: &str) -> Result<EngineOut> {
    let ctx = SessionContext::new_with_config_rt(cfg.session_config(), cfg.runtime()?);
    let mut mt = MemTable::try_new(tab.schema(), parts)?;
    if !sort.is_empty() {
        mt = mt.with_sort_order(vec![sort_exprs_logical(sort)]);
    }
    ctx.register_table("t", Arc::new(mt))?;
    let df = ctx.sql(sql).await?;
    let plan = df.create_physical_plan().await?;
    let batches = collect(plan.clone(), ctx.task_ctx()).await?;
    let mut aggs = vec![];
    observe(&plan, cfg, &mut aggs);
    Ok(EngineOut { rows: batches_to_rows(&batches), aggs, plan_text: format!("{}", displayable(plan.as_ref()).indent(false)) })
}

// ------------------------------------------------------------------------------------------
// (b) AggregateExec::try_new pipelines

#[derive(Clone, Copy, Debug, PartialEq, Eq)]
pub enum Shape {
    Single,
    SinglePartitioned,
    PartialFinal,
    PartialFinalPartitioned,
    PartialReduceFinal,
}

pub const ALL_SHAPES: &[Shape] = &[Shape::Single, Shape::SinglePartitioned, Shape::PartialFinal, Shape::PartialFinalPartitioned, Shape::PartialReduceFinal];

impl Shape {
    pub fn name(&self) -> &'static str {
        match self {
            Shape::Single => "Single",
            Shape::SinglePartitioned => "Repartition>SinglePartitioned",
            Shape::PartialFinal => "Partial>Final",
            Shape::PartialFinalPartitioned => "Partial>Repartition>FinalPartitioned",
            Shape::PartialReduceFinal => "Partial>PartialReduce>Final",
        }
    }
    pub fn from_name(s: &str) -> Option<Shape> {
        ALL_SHAPES.iter().copied().find(|x| x.name() == s)
    }
}

fn udaf(f: AggFn) -> Arc<datafusion::logical_expr::AggregateUDF> {
    use datafusion::functions_aggregate::{average::avg_udaf, count::count_udaf, min_max::max_udaf, min_max::min_udaf, sum::sum_udaf};
    match f {
        AggFn::CountStar | AggFn::Count => count_udaf(),
        AggFn::Sum => sum_udaf(),
        AggFn::Min => min_udaf(),
        AggFn::Max => max_udaf(),
        AggFn::Avg => avg_udaf(),
    }
}

fn source(parts: &[Vec<RecordBatch>], schema: &SchemaRef, sort: &[SortKey]) -> Result<Arc<dyn ExecutionPlan>> {
    let mut src = MemorySourceConfig::try_new(parts, schema.clone(), None)?;
    if !sort.is_empty() {
        src = src.try_with_sort_information(vec![lex(sort, schema)?])?;
    }
    Ok(DataSourceExec::from_data_source(src))
}

fn lex(sort: &[SortKey], schema: &SchemaRef) -> Result<LexOrdering> {
    let v: Vec<PhysicalSortExpr> = sort
        .iter()
        .map(|(c, desc, nf)| Ok(PhysicalSortExpr::new(col(&format!("k{c}"), schema)?, arrow::compute::SortOptions { descending: *desc, nulls_first: *nf })))
        .collect::<Result<_>>()?;
    LexOrdering::new(v).ok_or_else(|| DataFusionError::Internal("empty ordering".into()))
}

/// Build and run `shape` over an in-memory source. Ordered sources keep their order through the
/// pipeline (order-preserving repartition / sort-preserving merge) so the ordered streams run.
pub async fn run_direct(tab: &Tab, parts: Vec<Vec<RecordBatch>>, sort: &[SortKey], cfg: &Cfg, shape: Shape, keys: &[usize], aggs: &[Agg]) -> Result<EngineOut> {
    let schema = tab.schema();
    let src = source(&parts, &schema, sort)?;
    let gexprs: Vec<(Arc<dyn PhysicalExpr>, String)> = keys.iter().map(|k| Ok((col(&format!("k{k}"), &schema)?, format!("k{k}")))).collect::<Result<_>>()?;
    let group_by = PhysicalGroupBy::new_single(gexprs.clone());
    let mut aexprs = vec![];
    let mut filters: Vec<Option<Arc<dyn PhysicalExpr>>> = vec![];
    for (i, a) in aggs.iter().enumerate() {
        let arg: Arc<dyn PhysicalExpr> = if a.f == AggFn::CountStar {
            lit(1i64)
        } else if a.f == AggFn::Avg && a.col == 0 {
            // what the SQL planner's signature coercion does for avg(BIGINT)
            datafusion::physical_expr::expressions::cast(col("vi", &schema)?, &schema, arrow::datatypes::DataType::Float64)?
        } else {
            col(V_NAMES[a.col], &schema)?
        };
        let mut b = AggregateExprBuilder::new(udaf(a.f), vec![arg]).schema(schema.clone()).alias(format!("a{i}"));
        if a.distinct {
            b = b.distinct();
        }
        aexprs.push(Arc::new(b.build()?));
        filters.push(match a.filter {
            Some(c) => Some(binary(col("vi", &schema)?, datafusion::logical_expr::Operator::Gt, lit(c), &schema)?),
            None => None,
        });
    }
    let nparts = cfg.target_partitions.max(1);
    let hash_on = |plan: Arc<dyn ExecutionPlan>, exprs: Vec<Arc<dyn PhysicalExpr>>| -> Result<Arc<dyn ExecutionPlan>> {
        let r = RepartitionExec::try_new(plan, Partitioning::Hash(exprs, nparts))?;
        Ok(if sort.is_empty() { Arc::new(r) } else { Arc::new(r.with_preserve_order()) })
    };
    let single_partition = |plan: Arc<dyn ExecutionPlan>| -> Arc<dyn ExecutionPlan> {
        if plan.output_partitioning().partition_count() <= 1 {
            return plan;
        }
        match plan.output_ordering() {
            Some(o) if !sort.is_empty() => Arc::new(SortPreservingMergeExec::new(o.clone(), plan)),
            _ => Arc::new(CoalescePartitionsExec::new(plan)),
        }
    };
    let plan: Arc<dyn ExecutionPlan> = match shape {
        Shape::Single => Arc::new(AggregateExec::try_new(AggregateMode::Single, group_by, aexprs, filters, single_partition(src), schema.clone())?),
        Shape::SinglePartitioned => {
            let input = hash_on(src, gexprs.iter().map(|g| g.0.clone()).collect())?;
            Arc::new(AggregateExec::try_new(AggregateMode::SinglePartitioned, group_by, aexprs, filters, input, schema.clone())?)
        }
        Shape::PartialFinal | Shape::PartialFinalPartitioned | Shape::PartialReduceFinal => {
            let partial = Arc::new(AggregateExec::try_new(AggregateMode::Partial, group_by, aexprs, filters.clone(), src, schema.clone())?);
            let aexprs = partial.aggr_expr().to_vec();
            let final_gb = partial.group_expr().as_final();
            let final_keys: Vec<Arc<dyn PhysicalExpr>> = final_gb.expr().iter().map(|g| g.0.clone()).collect();
            match shape {
                Shape::PartialFinal => Arc::new(AggregateExec::try_new(AggregateMode::Final, final_gb, aexprs, filters, single_partition(partial), schema.clone())?),
                Shape::PartialFinalPartitioned => {
                    let input = hash_on(partial, final_keys)?;
                    Arc::new(AggregateExec::try_new(AggregateMode::FinalPartitioned, final_gb, aexprs, filters, input, schema.clone())?)
                }
                _ => {
                    // tree reduce: hash-split the partial states, reduce each part, then one Final
                    let input = hash_on(partial, final_keys)?;
                    let reduce = Arc::new(AggregateExec::try_new(AggregateMode::PartialReduce, final_gb.clone(), aexprs.clone(), filters.clone(), input, schema.clone())?);
                    Arc::new(AggregateExec::try_new(AggregateMode::Final, final_gb, aexprs, filters, single_partition(reduce), schema.clone())?)
                }
            }
        }
    };
    let task = Arc::new(TaskContext::default().with_session_config(cfg.session_config()).with_runtime(cfg.runtime()?));
    let batches = collect(plan.clone(), task).await?;
    let mut obs = vec![];
    observe(&plan, cfg, &mut obs);
    Ok(EngineOut { rows: batches_to_rows(&batches), aggs: obs, plan_text: format!("{}", displayable(plan.as_ref()).indent(false)) })
}

pub fn parts_for(tab: &Tab, layout: &Layout, seed: u64) -> Vec<Vec<RecordBatch>> {
    // dictionary shapes are a function of (seed, layout) so a witness replays bit-identically
    let mut rng = Rng::derive(seed, &[0xD1C7]);
    partitions_of(tab, layout, &mut rng)
}
