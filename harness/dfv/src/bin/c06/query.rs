//! Query model (what is aggregated), SQL rendering and the independent reference grouping.

use crate::data::*;
use dfv::ast::AggFn;
use dfv::refint::fold_agg;
use dfv::value::{Row, Value, cmp_f64};
use std::cmp::Ordering;
use std::collections::BTreeMap;
use vcommon::Rng;

#[derive(Clone, Debug, PartialEq)]
pub struct Agg {
    pub f: AggFn,
    /// value column 0 = vi, 1 = vf, 2 = vs (ignored for count(*))
    pub col: usize,
    pub distinct: bool,
    /// FILTER (WHERE vi > c)
    pub filter: Option<i64>,
}

impl Agg {
    pub fn new(f: AggFn, col: usize) -> Agg {
        Agg { f, col, distinct: false, filter: None }
    }
    pub fn fn_name(&self) -> &'static str {
        match self.f {
            AggFn::CountStar | AggFn::Count => "count",
            AggFn::Sum => "sum",
            AggFn::Min => "min",
            AggFn::Max => "max",
            AggFn::Avg => "avg",
        }
    }
    pub fn label(&self) -> String {
        format!("{}{}{}", self.fn_name(), if self.distinct { "-distinct" } else { "" }, if self.filter.is_some() { "-filter" } else { "" })
    }
    pub fn sql(&self) -> String {
        let arg = if self.f == AggFn::CountStar { "*".to_string() } else { format!("{}{}", if self.distinct { "DISTINCT " } else { "" }, V_NAMES[self.col]) };
        let filt = self.filter.map(|c| format!(" FILTER (WHERE vi > {c})")).unwrap_or_default();
        format!("{}({arg}){filt}", self.fn_name())
    }
    pub fn approx(&self) -> bool {
        self.f == AggFn::Avg
    }
}

#[derive(Clone, Debug, PartialEq)]
pub enum GroupKind {
    Plain,
    Rollup,
    Cube,
    /// explicit sets: masks over the key list (true = column is grouped)
    Sets(Vec<Vec<bool>>),
}

#[derive(Clone, Debug)]
pub enum Query {
    /// SELECT keys.., [grouping(k)..,] aggs.. GROUP BY ..
    Group { keys: Vec<usize>, kind: GroupKind, aggs: Vec<Agg> },
    /// SELECT k, agg FROM t GROUP BY k ORDER BY agg [DESC] LIMIT n
    TopK { keys: Vec<usize>, agg: Agg, desc: bool, nulls_first: bool, n: usize },
    /// SELECT k FROM t GROUP BY k ORDER BY k [DESC] NULLS .. LIMIT n   (TopK on the group key itself)
    TopKey { keys: Vec<usize>, desc: bool, nulls_first: bool, n: usize },
    /// SELECT DISTINCT keys FROM t LIMIT n   (limit pushed into the hash aggregation)
    DistinctLimit { keys: Vec<usize>, n: usize },
}

impl Query {
    pub fn keys(&self) -> &[usize] {
        match self {
            Query::Group { keys, .. } | Query::TopK { keys, .. } | Query::TopKey { keys, .. } | Query::DistinctLimit { keys, .. } => keys,
        }
    }
    pub fn sets(&self) -> Vec<Vec<bool>> {
        let n = self.keys().len();
        match self {
            Query::Group { kind: GroupKind::Rollup, .. } => (0..=n).rev().map(|p| (0..n).map(|i| i < p).collect()).collect(),
            Query::Group { kind: GroupKind::Cube, .. } => (0..1usize << n).rev().map(|m| (0..n).map(|i| m >> (n - 1 - i) & 1 == 1).collect()).collect(),
            Query::Group { kind: GroupKind::Sets(s), .. } => s.clone(),
            _ => vec![vec![true; n]],
        }
    }
    pub fn has_grouping_sets(&self) -> bool {
        matches!(self, Query::Group { kind, .. } if *kind != GroupKind::Plain)
    }
    pub fn sql(&self) -> String {
        let kn = |ks: &[usize]| ks.iter().map(|k| format!("k{k}")).collect::<Vec<_>>();
        match self {
            Query::Group { keys, kind, aggs } => {
                let names = kn(keys);
                let mut sel = names.clone();
                if *kind != GroupKind::Plain {
                    sel.extend(names.iter().map(|k| format!("grouping({k})")));
                }
                sel.extend(aggs.iter().map(|a| a.sql()));
                let gb = match kind {
                    GroupKind::Plain => names.join(", "),
                    GroupKind::Rollup => format!("ROLLUP({})", names.join(", ")),
                    GroupKind::Cube => format!("CUBE({})", names.join(", ")),
                    GroupKind::Sets(s) => format!(
                        "GROUPING SETS ({})",
                        s.iter().map(|m| format!("({})", m.iter().zip(names.iter()).filter(|(b, _)| **b).map(|(_, n)| n.clone()).collect::<Vec<_>>().join(", "))).collect::<Vec<_>>().join(", ")
                    ),
                };
                format!("SELECT {} FROM t GROUP BY {gb}", sel.join(", "))
            }
            Query::TopK { keys, agg, desc, nulls_first, n } => {
                let names = kn(keys);
                format!(
                    "SELECT {}, {a} FROM t GROUP BY {} ORDER BY {a}{} NULLS {} LIMIT {n}",
                    names.join(", "),
                    names.join(", "),
                    if *desc { " DESC" } else { "" },
                    if *nulls_first { "FIRST" } else { "LAST" },
                    a = agg.sql()
                )
            }
            Query::TopKey { keys, desc, nulls_first, n } => {
                let names = kn(keys);
                let ob: Vec<String> = names.iter().map(|k| format!("{k}{} NULLS {}", if *desc { " DESC" } else { "" }, if *nulls_first { "FIRST" } else { "LAST" })).collect();
                format!("SELECT {} FROM t GROUP BY {} ORDER BY {} LIMIT {n}", names.join(", "), names.join(", "), ob.join(", "))
            }
            Query::DistinctLimit { keys, n } => format!("SELECT DISTINCT {} FROM t LIMIT {n}", kn(keys).join(", ")),
        }
    }
    pub fn aggs(&self) -> Vec<Agg> {
        match self {
            Query::Group { aggs, .. } => aggs.clone(),
            Query::TopK { agg, .. } => vec![agg.clone()],
            Query::DistinctLimit { .. } | Query::TopKey { .. } => vec![],
        }
    }
}

/// Injective text form of a logical key (NULL distinct from every value; NaN one value).
pub fn canon(v: &Value) -> String {
    match v {
        Value::Null => "N".into(),
        Value::Int(i) => format!("i{i}"),
        Value::Float(f) => {
            if f.is_nan() {
                "fNaN".into()
            } else {
                format!("f{:016x}", (if *f == 0.0 { 0.0f64 } else { *f }).to_bits())
            }
        }
        Value::Str(s) => format!("s{}:{s}", s.len()),
        Value::Bool(b) => format!("b{b}"),
    }
}

pub fn canon_key(vals: &[Value]) -> String {
    vals.iter().map(canon).collect::<Vec<_>>().join("|")
}

fn agg_value(a: &Agg, tab: &Tab, members: &[usize]) -> Value {
    let nk = tab.nk();
    let pass: Vec<usize> = members
        .iter()
        .copied()
        .filter(|i| match a.filter {
            None => true,
            Some(c) => matches!(&tab.rows[*i][nk], Value::Int(x) if *x > c),
        })
        .collect();
    let mut vals: Vec<Value> = if a.f == AggFn::CountStar { vec![] } else { pass.iter().map(|i| tab.rows[*i][nk + a.col].clone()).filter(|v| !v.is_null()).collect() };
    if a.distinct {
        let mut seen = std::collections::BTreeSet::new();
        vals.retain(|v| seen.insert(canon(v)));
    }
    fold_agg(a.f, &vals, pass.len() as i64)
}

/// Reference: the full (un-limited) grouped result. Output row = keys (NULL when not in the set),
/// [grouping flags,] aggregate values. Sorted-map grouping on the injective key text.
pub fn reference(tab: &Tab, q: &Query) -> Vec<Row> {
    let keys = q.keys();
    let aggs = q.aggs();
    let mut out = vec![];
    for set in q.sets() {
        let mut groups: BTreeMap<String, (Vec<Value>, Vec<usize>)> = BTreeMap::new();
        for (i, r) in tab.rows.iter().enumerate() {
            let kv: Vec<Value> = keys.iter().zip(set.iter()).map(|(k, on)| if *on { r[*k].clone() } else { Value::Null }).collect();
            groups.entry(canon_key(&kv)).or_insert_with(|| (kv, vec![])).1.push(i);
        }
        // a grouping set without columns over an empty input still yields one (global) row
        if groups.is_empty() && set.iter().all(|b| !*b) && q.has_grouping_sets() {
            groups.insert(String::new(), (vec![Value::Null; keys.len()], vec![]));
        }
        for (_, (kv, members)) in groups {
            let mut row = kv;
            if q.has_grouping_sets() {
                row.extend(set.iter().map(|on| Value::Int(if *on { 0 } else { 1 })));
            }
            for a in &aggs {
                row.push(agg_value(a, tab, &members));
            }
            out.push(row);
        }
    }
    out
}

fn exact_eq(a: &Value, b: &Value) -> bool {
    match (a, b) {
        (Value::Null, Value::Null) => true,
        (Value::Int(x), Value::Int(y)) => x == y,
        (Value::Str(x), Value::Str(y)) => x == y,
        (Value::Bool(x), Value::Bool(y)) => x == y,
        (Value::Float(x), Value::Float(y)) => (x.is_nan() && y.is_nan()) || x == y,
        (Value::Int(x), Value::Float(y)) | (Value::Float(y), Value::Int(x)) => *x as f64 == *y,
        _ => false,
    }
}

fn approx_eq(a: &Value, b: &Value) -> bool {
    match (a.as_f64(), b.as_f64()) {
        (Some(x), Some(y)) if !a.is_null() && !b.is_null() => {
            if x.is_nan() || y.is_nan() {
                return x.is_nan() && y.is_nan();
            }
            x == y || (x - y).abs() <= 1e-9 * x.abs().max(y.abs())
        }
        _ => exact_eq(a, b),
    }
}

#[derive(Debug)]
pub struct Diff {
    /// short kind: missing-group, duplicate-group, spurious-group, wrong-aggregate/<fn>, ...
    pub kind: String,
    pub text: String,
}

/// Compare a complete grouped result (no limit). `n_id` = number of identifying columns
/// (keys + grouping flags); the remaining columns are the aggregates.
pub fn compare_full(engine: &[Row], expected: &[Row], n_id: usize, aggs: &[Agg]) -> Result<(), Diff> {
    let mut exp: BTreeMap<String, (usize, &Row)> = BTreeMap::new();
    for r in expected {
        exp.entry(canon_key(&r[..n_id])).or_insert((0, r)).0 += 1;
    }
    let mut got: BTreeMap<String, usize> = BTreeMap::new();
    for r in engine {
        if r.len() != n_id + aggs.len() {
            return Err(Diff { kind: "column-count".into(), text: format!("engine row has {} columns, expected {}", r.len(), n_id + aggs.len()) });
        }
        let k = canon_key(&r[..n_id]);
        let Some((mult, e)) = exp.get(&k) else {
            return Err(Diff { kind: "spurious-group".into(), text: format!("engine returned group {:?} that no input row belongs to", &r[..n_id]) });
        };
        let g = got.entry(k).or_insert(0);
        *g += 1;
        if *g > *mult {
            return Err(Diff { kind: "duplicate-group".into(), text: format!("group {:?} returned {} times, expected {}", &r[..n_id], *g, mult) });
        }
        for (j, a) in aggs.iter().enumerate() {
            let (x, y) = (&r[n_id + j], &e[n_id + j]);
            let ok = if a.approx() { approx_eq(x, y) } else { exact_eq(x, y) };
            if !ok {
                return Err(Diff { kind: format!("wrong-aggregate/{}", a.label()), text: format!("group {:?}: {} = {:?}, expected {:?}", &r[..n_id], a.sql(), x, y) });
            }
        }
    }
    for (k, (mult, e)) in &exp {
        if got.get(k).copied().unwrap_or(0) < *mult {
            return Err(Diff { kind: "missing-group".into(), text: format!("group {:?} missing from the engine result ({} of {} present)", &e[..n_id], got.get(k).copied().unwrap_or(0), mult) });
        }
    }
    Ok(())
}

/// ORDER BY comparison of two values under explicit DESC / NULLS FIRST options.
fn order_cmp(a: &Value, b: &Value, desc: bool, nulls_first: bool) -> Ordering {
    match (a.is_null(), b.is_null()) {
        (true, true) => Ordering::Equal,
        (true, false) => {
            if nulls_first {
                Ordering::Less
            } else {
                Ordering::Greater
            }
        }
        (false, true) => {
            if nulls_first {
                Ordering::Greater
            } else {
                Ordering::Less
            }
        }
        _ => {
            let o = match (a, b) {
                (Value::Str(x), Value::Str(y)) => x.as_bytes().cmp(y.as_bytes()),
                (Value::Int(x), Value::Int(y)) => x.cmp(y),
                (Value::Bool(x), Value::Bool(y)) => x.cmp(y),
                _ => cmp_f64(a.as_f64().unwrap_or(0.0), b.as_f64().unwrap_or(0.0)),
            };
            if desc { o.reverse() } else { o }
        }
    }
}

/// Valid-top-k rule: n' = min(n, #groups) rows; every row is a true (key, agg) pair; keys distinct;
/// output sorted; the multiset of agg values equals that of the first n' reference rows (ties free).
pub fn compare_topk(engine: &[Row], expected_all: &[Row], nk: usize, agg: &Agg, desc: bool, nulls_first: bool, n: usize) -> Result<(), Diff> {
    let want = n.min(expected_all.len());
    if engine.len() != want {
        return Err(Diff { kind: "topk-row-count".into(), text: format!("engine returned {} rows, expected {}", engine.len(), want) });
    }
    let exp: BTreeMap<String, &Row> = expected_all.iter().map(|r| (canon_key(&r[..nk]), r)).collect();
    let mut seen = std::collections::BTreeSet::new();
    for r in engine {
        if r.len() != nk + 1 {
            return Err(Diff { kind: "column-count".into(), text: format!("engine row has {} columns", r.len()) });
        }
        let k = canon_key(&r[..nk]);
        let Some(e) = exp.get(&k) else {
            return Err(Diff { kind: "spurious-group".into(), text: format!("engine returned group {:?} that no input row belongs to", &r[..nk]) });
        };
        if !seen.insert(k) {
            return Err(Diff { kind: "duplicate-group".into(), text: format!("group {:?} returned twice", &r[..nk]) });
        }
        let ok = if agg.approx() { approx_eq(&r[nk], &e[nk]) } else { exact_eq(&r[nk], &e[nk]) };
        if !ok {
            return Err(Diff { kind: format!("wrong-aggregate/{}", agg.label()), text: format!("group {:?}: {} = {:?}, expected {:?}", &r[..nk], agg.sql(), r[nk], e[nk]) });
        }
    }
    for w in engine.windows(2) {
        if order_cmp(&w[0][nk], &w[1][nk], desc, nulls_first) == Ordering::Greater {
            return Err(Diff { kind: "topk-unsorted".into(), text: format!("{:?} before {:?}", w[0], w[1]) });
        }
    }
    let mut best: Vec<&Value> = expected_all.iter().map(|r| &r[nk]).collect();
    best.sort_by(|a, b| order_cmp(a, b, desc, nulls_first));
    let mut got: Vec<&Value> = engine.iter().map(|r| &r[nk]).collect();
    got.sort_by(|a, b| order_cmp(a, b, desc, nulls_first));
    for (g, b) in got.iter().zip(best.iter()) {
        if order_cmp(g, b, desc, nulls_first) != Ordering::Equal {
            return Err(Diff { kind: "topk-not-best".into(), text: format!("engine kept a group with {} = {:?} although a group with {:?} exists", agg.sql(), g, b) });
        }
    }
    Ok(())
}

/// GROUP BY k ORDER BY k LIMIT n: exactly the first n distinct keys, in order (no ties possible).
pub fn compare_topkey(engine: &[Row], expected_all: &[Row], nk: usize, desc: bool, nulls_first: bool, n: usize) -> Result<(), Diff> {
    let mut exp: Vec<&Row> = expected_all.iter().collect();
    exp.sort_by(|a, b| {
        for c in 0..nk {
            let o = order_cmp(&a[c], &b[c], desc, nulls_first);
            if o != Ordering::Equal {
                return o;
            }
        }
        Ordering::Equal
    });
    exp.truncate(n);
    if engine.len() != exp.len() {
        return Err(Diff { kind: "topk-row-count".into(), text: format!("engine returned {} rows, expected {}", engine.len(), exp.len()) });
    }
    for (i, (g, e)) in engine.iter().zip(exp.iter()).enumerate() {
        if g.len() != nk || canon_key(g) != canon_key(&e[..nk]) {
            return Err(Diff { kind: "topk-wrong-key".into(), text: format!("row {i}: engine {:?}, expected {:?}", g, &e[..nk]) });
        }
    }
    Ok(())
}

/// DISTINCT .. LIMIT n: min(n, #groups) distinct existing keys.
pub fn compare_distinct_limit(engine: &[Row], expected_all: &[Row], nk: usize, n: usize) -> Result<(), Diff> {
    let want = n.min(expected_all.len());
    if engine.len() != want {
        return Err(Diff { kind: "limit-row-count".into(), text: format!("engine returned {} rows, expected {}", engine.len(), want) });
    }
    let exp: std::collections::BTreeSet<String> = expected_all.iter().map(|r| canon_key(&r[..nk])).collect();
    let mut seen = std::collections::BTreeSet::new();
    for r in engine {
        let k = canon_key(&r[..nk.min(r.len())]);
        if !exp.contains(&k) {
            return Err(Diff { kind: "spurious-group".into(), text: format!("engine returned key {:?} that is not in the input", r) });
        }
        if !seen.insert(k) {
            return Err(Diff { kind: "duplicate-group".into(), text: format!("key {:?} returned twice", r) });
        }
    }
    Ok(())
}

// ------------------------------------------------------------------------------------------
// generators

pub fn gen_aggs(rng: &mut Rng, n: usize, allow_distinct: bool, allow_filter: bool) -> Vec<Agg> {
    let mut out: Vec<Agg> = vec![];
    while out.len() < n {
        let col = rng.usize(3);
        let f = match col {
            2 => *rng.pick(&[AggFn::Count, AggFn::Min, AggFn::Max]),
            _ => *rng.pick(&[AggFn::CountStar, AggFn::Count, AggFn::Sum, AggFn::Min, AggFn::Max, AggFn::Avg]),
        };
        let mut a = Agg::new(f, col);
        if allow_distinct && rng.chance(1, 4) && matches!(f, AggFn::Count | AggFn::Sum) && (col == 0 || f == AggFn::Count) {
            a.distinct = true;
        }
        if allow_filter && rng.chance(1, 4) {
            a.filter = Some(rng.range(-20, 20));
        }
        if !out.contains(&a) {
            out.push(a);
        }
    }
    out
}
