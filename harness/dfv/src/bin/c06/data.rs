//! Generated tables for C06: typed key columns + three value columns, physical layout, arrow
//! construction (incl. hostile dictionaries) and the array -> logical `Value` conversion.

use arrow::array::*;
use arrow::datatypes::{DataType, Field, Int8Type, Int32Type, Schema, SchemaRef, TimeUnit};
use arrow::record_batch::RecordBatch;
use dfv::value::{Row, Value, cmp_f64};
use std::cmp::Ordering;
use std::sync::Arc;
use vcommon::{Json, Rng, json};

/// Key column types (the logical value is a `Value`; Binary = hex text, Decimal = unscaled integer).
#[derive(Clone, Copy, Debug, PartialEq, Eq, Hash, PartialOrd, Ord)]
pub enum KT {
    I8,
    I16,
    I32,
    I64,
    U8,
    U16,
    U32,
    U64,
    F32,
    F64,
    Utf8,
    LargeUtf8,
    Utf8View,
    Binary,
    BinaryView,
    DictUtf8,
    DictI64,
    Bool,
    Dec128,
    Date32,
    TsNs,
    TsMs,
}

pub const ALL_KT: &[KT] = &[
    KT::I8,
    KT::I16,
    KT::I32,
    KT::I64,
    KT::U8,
    KT::U16,
    KT::U32,
    KT::U64,
    KT::F32,
    KT::F64,
    KT::Utf8,
    KT::LargeUtf8,
    KT::Utf8View,
    KT::Binary,
    KT::BinaryView,
    KT::DictUtf8,
    KT::DictI64,
    KT::Bool,
    KT::Dec128,
    KT::Date32,
    KT::TsNs,
    KT::TsMs,
];

impl KT {
    pub fn name(&self) -> &'static str {
        match self {
            KT::I8 => "Int8",
            KT::I16 => "Int16",
            KT::I32 => "Int32",
            KT::I64 => "Int64",
            KT::U8 => "UInt8",
            KT::U16 => "UInt16",
            KT::U32 => "UInt32",
            KT::U64 => "UInt64",
            KT::F32 => "Float32",
            KT::F64 => "Float64",
            KT::Utf8 => "Utf8",
            KT::LargeUtf8 => "LargeUtf8",
            KT::Utf8View => "Utf8View",
            KT::Binary => "Binary",
            KT::BinaryView => "BinaryView",
            KT::DictUtf8 => "Dict(Int32,Utf8)",
            KT::DictI64 => "Dict(Int8,Int64)",
            KT::Bool => "Boolean",
            KT::Dec128 => "Decimal128(12,2)",
            KT::Date32 => "Date32",
            KT::TsNs => "Timestamp(ns)",
            KT::TsMs => "Timestamp(ms)",
        }
    }
    pub fn from_name(s: &str) -> Option<KT> {
        ALL_KT.iter().copied().find(|k| k.name() == s)
    }
    pub fn arrow(&self) -> DataType {
        match self {
            KT::I8 => DataType::Int8,
            KT::I16 => DataType::Int16,
            KT::I32 => DataType::Int32,
            KT::I64 => DataType::Int64,
            KT::U8 => DataType::UInt8,
            KT::U16 => DataType::UInt16,
            KT::U32 => DataType::UInt32,
            KT::U64 => DataType::UInt64,
            KT::F32 => DataType::Float32,
            KT::F64 => DataType::Float64,
            KT::Utf8 => DataType::Utf8,
            KT::LargeUtf8 => DataType::LargeUtf8,
            KT::Utf8View => DataType::Utf8View,
            KT::Binary => DataType::Binary,
            KT::BinaryView => DataType::BinaryView,
            KT::DictUtf8 => DataType::Dictionary(Box::new(DataType::Int32), Box::new(DataType::Utf8)),
            KT::DictI64 => DataType::Dictionary(Box::new(DataType::Int8), Box::new(DataType::Int64)),
            KT::Bool => DataType::Boolean,
            KT::Dec128 => DataType::Decimal128(12, 2),
            KT::Date32 => DataType::Date32,
            KT::TsNs => DataType::Timestamp(TimeUnit::Nanosecond, None),
            KT::TsMs => DataType::Timestamp(TimeUnit::Millisecond, None),
        }
    }

    /// The (small) domain keys are drawn from: boundary values first, then fillers.
    pub fn domain(&self, rng: &mut Rng, size: usize) -> Vec<Value> {
        let ints = |lo: i64, hi: i64, rng: &mut Rng| -> Vec<Value> {
            let mut v: Vec<i64> = vec![0, hi, lo, 1, if lo < 0 { -1 } else { 2 }];
            while v.len() < size.max(1) {
                let x = if rng.chance(1, 3) { rng.range(lo, hi) } else { rng.range(lo.max(-100), hi.min(100)) };
                if !v.contains(&x) {
                    v.push(x);
                } else if (hi as i128 - lo as i128) < 2 * size as i128 {
                    break;
                }
            }
            v.into_iter().map(Value::Int).collect()
        };
        let strs = |rng: &mut Rng| -> Vec<Value> {
            let mut v: Vec<String> = ["", "a", "A", "NULL", "0", "ab", "a\u{e9}", "a-string-longer-than-12-bytes", "a-string-longer-than-12-bytez", " a", "b"]
                .iter()
                .map(|s| s.to_string())
                .collect();
            while v.len() < size.max(1) {
                let n = rng.usize(20);
                let s: String = (0..n).map(|_| (b'a' + rng.usize(4) as u8) as char).collect();
                let s = format!("{s}{}", v.len());
                v.push(s);
            }
            v.into_iter().map(Value::Str).collect()
        };
        let mut d = match self {
            KT::I8 => ints(i8::MIN as i64, i8::MAX as i64, rng),
            KT::I16 => ints(i16::MIN as i64, i16::MAX as i64, rng),
            KT::I32 | KT::Date32 => ints(i32::MIN as i64, i32::MAX as i64, rng),
            KT::I64 | KT::TsNs | KT::TsMs | KT::DictI64 => ints(i64::MIN, i64::MAX, rng),
            KT::U8 => ints(0, u8::MAX as i64, rng),
            KT::U16 => ints(0, u16::MAX as i64, rng),
            KT::U32 => ints(0, u32::MAX as i64, rng),
            KT::U64 => ints(0, i64::MAX, rng),
            KT::Dec128 => ints(-999_999_999_999, 999_999_999_999, rng),
            KT::F32 | KT::F64 => {
                let mut v = vec![0.0, 1.0, -1.0, f64::INFINITY, f64::NEG_INFINITY, f64::NAN, 0.5, 2f64.powi(100)];
                while v.len() < size.max(1) {
                    let x = rng.range(-4000, 4000) as f64 / 8.0;
                    if !v.contains(&x) {
                        v.push(x);
                    }
                }
                v.into_iter().map(Value::Float).collect()
            }
            KT::Utf8 | KT::LargeUtf8 | KT::Utf8View | KT::DictUtf8 => strs(rng),
            KT::Binary | KT::BinaryView => {
                let mut v: Vec<String> = ["", "00", "0000", "61", "ff", "6100", "0061", "000102030405060708090a0b0c0d", "000102030405060708090a0b0c0e"].iter().map(|s| s.to_string()).collect();
                while v.len() < size.max(1) {
                    let n = rng.usize(16);
                    let mut s: String = (0..n).map(|_| format!("{:02x}", rng.usize(3))).collect();
                    s.push_str(&format!("{:04x}", v.len()));
                    v.push(s);
                }
                v.into_iter().map(Value::Str).collect()
            }
            KT::Bool => vec![Value::Bool(false), Value::Bool(true)],
        };
        // keep the boundary prefix but not always in the same positions
        if size < d.len() && size > 0 {
            let keep = rng.usize(d.len() - size + 1);
            d = d[keep..keep + size].to_vec();
        }
        d
    }
}

pub fn hex_decode(s: &str) -> Vec<u8> {
    (0..s.len() / 2).map(|i| u8::from_str_radix(&s[2 * i..2 * i + 2], 16).unwrap_or(0)).collect()
}

pub fn hex_encode(b: &[u8]) -> String {
    b.iter().map(|x| format!("{x:02x}")).collect()
}

/// Value columns shared by every table.
pub const V_NAMES: [&str; 3] = ["vi", "vf", "vs"];

#[derive(Clone, Debug)]
pub struct Tab {
    pub keys: Vec<KT>,
    /// rows: key values, then vi (Int), vf (Float, dyadic), vs (Str)
    pub rows: Vec<Row>,
}

impl Tab {
    pub fn nk(&self) -> usize {
        self.keys.len()
    }
    pub fn schema(&self) -> SchemaRef {
        let mut f: Vec<Field> = self.keys.iter().enumerate().map(|(i, k)| Field::new(format!("k{i}"), k.arrow(), true)).collect();
        f.push(Field::new("vi", DataType::Int64, true));
        f.push(Field::new("vf", DataType::Float64, true));
        f.push(Field::new("vs", DataType::Utf8, true));
        Arc::new(Schema::new(f))
    }
    pub fn to_json(&self) -> Json {
        json!({"keys": self.keys.iter().map(|k| k.name()).collect::<Vec<_>>(), "rows": dfv::value::rows_to_json(&self.rows)})
    }
    pub fn from_json(j: &Json) -> Option<Tab> {
        let keys: Vec<KT> = j.get("keys")?.as_array()?.iter().map(|k| KT::from_name(k.as_str()?)).collect::<Option<_>>()?;
        let mut rows = vec![];
        for r in j.get("rows")?.as_array()? {
            let r = r.as_array()?;
            let mut row = vec![];
            for (c, v) in r.iter().enumerate() {
                let is_float = if c < keys.len() { matches!(keys[c], KT::F32 | KT::F64) } else { c == keys.len() + 1 };
                row.push(Value::from_json(v, if is_float { dfv::value::Ty::Float } else { dfv::value::Ty::Int }));
            }
            rows.push(row);
        }
        Some(Tab { keys, rows })
    }
}

pub struct TabCfg {
    pub n_rows: usize,
    pub domain: usize,
    /// NULL probability (per mille) of each key column
    pub null_pm: u64,
}

pub fn gen_tab(rng: &mut Rng, keys: &[KT], cfg: &TabCfg) -> Tab {
    // Dict(Int8,..) can address at most 127 dictionary entries per batch
    let doms: Vec<Vec<Value>> = keys.iter().map(|k| k.domain(rng, if *k == KT::DictI64 { cfg.domain.min(90) } else { cfg.domain })).collect();
    let vs_pool = ["", "a", "b", "ab", "B", "zz", "a-longer-string-value", "a-longer-string-valuf"];
    let mut rows = Vec::with_capacity(cfg.n_rows);
    for _ in 0..cfg.n_rows {
        let mut r: Row = doms.iter().map(|d| if rng.below(1000) < cfg.null_pm { Value::Null } else { rng.pick_cloned(d) }).collect();
        r.push(if rng.chance(1, 4) { Value::Null } else { Value::Int(rng.range(-50, 50)) });
        r.push(if rng.chance(1, 4) { Value::Null } else { Value::Float(rng.range(-512, 512) as f64 / 8.0) });
        r.push(if rng.chance(1, 4) { Value::Null } else { Value::Str(rng.pick(&vs_pool).to_string()) });
        rows.push(r);
    }
    Tab { keys: keys.to_vec(), rows }
}

/// Engine-order comparison of two logical key values of the same type (no NULLs).
pub fn cmp_key(a: &Value, b: &Value) -> Ordering {
    match (a, b) {
        (Value::Int(x), Value::Int(y)) => x.cmp(y),
        (Value::Float(x), Value::Float(y)) => cmp_f64(*x, *y),
        (Value::Str(x), Value::Str(y)) => x.as_bytes().cmp(y.as_bytes()),
        (Value::Bool(x), Value::Bool(y)) => x.cmp(y),
        _ => Ordering::Equal,
    }
}

/// Declared sort key: (column, descending, nulls_first)
pub type SortKey = (usize, bool, bool);

pub fn cmp_rows_on(a: &Row, b: &Row, keys: &[SortKey], kts: &[KT]) -> Ordering {
    for (c, desc, nf) in keys {
        let (x, y) = (&a[*c], &b[*c]);
        let o = match (x.is_null(), y.is_null()) {
            (true, true) => Ordering::Equal,
            (true, false) => {
                if *nf {
                    Ordering::Less
                } else {
                    Ordering::Greater
                }
            }
            (false, true) => {
                if *nf {
                    Ordering::Greater
                } else {
                    Ordering::Less
                }
            }
            _ => {
                // binary keys are hex text: byte order == hex text order
                let _ = kts;
                let o = cmp_key(x, y);
                if *desc { o.reverse() } else { o }
            }
        };
        if o != Ordering::Equal {
            return o;
        }
    }
    Ordering::Equal
}

/// partitions -> batches -> row indices
pub type Layout = Vec<Vec<Vec<usize>>>;

/// Spread `order` (a permutation of row indices) over `nparts` partitions preserving the relative
/// order inside each partition, then cut each partition into batches of 1..=max_batch rows.
pub fn layout_from_order(order: &[usize], nparts: usize, max_batch: usize, contiguous: bool, rng: &mut Rng) -> Layout {
    let nparts = nparts.max(1);
    let mut parts: Vec<Vec<usize>> = vec![vec![]; nparts];
    let n = order.len();
    for (pos, &i) in order.iter().enumerate() {
        let p = if contiguous || !rng.chance(1, 3) { pos * nparts / n.max(1) } else { rng.usize(nparts) };
        parts[p.min(nparts - 1)].push(i);
    }
    parts
        .into_iter()
        .map(|rows| {
            let mut out = vec![];
            let mut i = 0;
            for c in rng.chunks(rows.len(), max_batch.max(1)) {
                out.push(rows[i..i + c].to_vec());
                i += c;
                if rng.chance(1, 12) {
                    out.push(vec![]); // explicit empty batch
                }
            }
            out
        })
        .collect()
}

fn dict_array<K: arrow::datatypes::ArrowDictionaryKeyType>(vals: &[&Value], rng: &mut Rng, mk_values: &dyn Fn(&[Option<&Value>]) -> ArrayRef, max_entries: usize) -> ArrayRef
where
    K::Native: TryFrom<usize>,
{
    // hostile dictionary: duplicated entries, unused entries, NULL as a dictionary *value* and as a NULL key;
    // every distinct value gets an entry first so the (possibly tiny) key type can always address it
    let mut entries: Vec<Option<&Value>> = vec![];
    for v in vals {
        if !v.is_null() && !entries.iter().any(|e| e.map(|e| e == *v).unwrap_or(false)) {
            entries.push(Some(v));
        }
    }
    assert!(entries.len() <= max_entries, "harness: dictionary key type too small for the domain");
    let distinct = entries.len();
    let extra = (max_entries - entries.len()).min(1 + distinct / 3);
    for _ in 0..rng.usize(extra + 1) {
        if rng.chance(1, 5) || distinct == 0 {
            entries.push(None); // NULL as a dictionary value
        } else {
            let d = entries[rng.usize(distinct)];
            entries.push(d); // duplicate (possibly unused) entry
        }
    }
    rng.shuffle(&mut entries);
    let mut keys: Vec<Option<usize>> = vec![];
    for v in vals {
        let cands: Vec<usize> = entries.iter().enumerate().filter(|(_, e)| if v.is_null() { e.is_none() } else { e.map(|e| e == *v).unwrap_or(false) }).map(|(i, _)| i).collect();
        if v.is_null() && (cands.is_empty() || rng.bool()) {
            keys.push(None);
        } else {
            keys.push(Some(*rng.pick(&cands)));
        }
    }
    let values = mk_values(&entries);
    let keys: PrimitiveArray<K> = keys.into_iter().map(|k| k.map(|k| K::Native::try_from(k).ok().expect("harness: dictionary key overflow"))).collect();
    Arc::new(DictionaryArray::<K>::try_new(keys, values).expect("harness dictionary"))
}

/// Build one key column.
pub fn key_array(kt: KT, vals: &[&Value], rng: &mut Rng) -> ArrayRef {
    let int = |v: &Value| if let Value::Int(i) = v { Some(*i) } else { None };
    let flt = |v: &Value| if let Value::Float(f) = v { Some(*f) } else { None };
    let st = |v: &Value| if let Value::Str(s) = v { Some(s.clone()) } else { None };
    match kt {
        KT::I8 => Arc::new(Int8Array::from_iter(vals.iter().map(|v| int(v).map(|x| x as i8)))),
        KT::I16 => Arc::new(Int16Array::from_iter(vals.iter().map(|v| int(v).map(|x| x as i16)))),
        KT::I32 => Arc::new(Int32Array::from_iter(vals.iter().map(|v| int(v).map(|x| x as i32)))),
        KT::I64 => Arc::new(Int64Array::from_iter(vals.iter().map(|v| int(v)))),
        KT::U8 => Arc::new(UInt8Array::from_iter(vals.iter().map(|v| int(v).map(|x| x as u8)))),
        KT::U16 => Arc::new(UInt16Array::from_iter(vals.iter().map(|v| int(v).map(|x| x as u16)))),
        KT::U32 => Arc::new(UInt32Array::from_iter(vals.iter().map(|v| int(v).map(|x| x as u32)))),
        KT::U64 => Arc::new(UInt64Array::from_iter(vals.iter().map(|v| int(v).map(|x| x as u64)))),
        KT::F32 => Arc::new(Float32Array::from_iter(vals.iter().map(|v| flt(v).map(|x| x as f32)))),
        KT::F64 => Arc::new(Float64Array::from_iter(vals.iter().map(|v| flt(v)))),
        KT::Utf8 => Arc::new(StringArray::from_iter(vals.iter().map(|v| st(v)))),
        KT::LargeUtf8 => Arc::new(LargeStringArray::from_iter(vals.iter().map(|v| st(v)))),
        KT::Utf8View => Arc::new(StringViewArray::from_iter(vals.iter().map(|v| st(v)))),
        KT::Binary => Arc::new(BinaryArray::from_iter(vals.iter().map(|v| st(v).map(|s| hex_decode(&s))))),
        KT::BinaryView => Arc::new(BinaryViewArray::from_iter(vals.iter().map(|v| st(v).map(|s| hex_decode(&s))))),
        KT::Bool => Arc::new(BooleanArray::from_iter(vals.iter().map(|v| v.as_bool()))),
        KT::Dec128 => Arc::new(Decimal128Array::from_iter(vals.iter().map(|v| int(v).map(|x| x as i128))).with_precision_and_scale(12, 2).expect("decimal")),
        KT::Date32 => Arc::new(Date32Array::from_iter(vals.iter().map(|v| int(v).map(|x| x as i32)))),
        KT::TsNs => Arc::new(TimestampNanosecondArray::from_iter(vals.iter().map(|v| int(v)))),
        KT::TsMs => Arc::new(TimestampMillisecondArray::from_iter(vals.iter().map(|v| int(v)))),
        KT::DictUtf8 => dict_array::<Int32Type>(
            vals,
            rng,
            &|e| Arc::new(StringArray::from_iter(e.iter().map(|v| v.and_then(|v| if let Value::Str(s) = v { Some(s.clone()) } else { None })))),
            1 << 20,
        ),
        KT::DictI64 => dict_array::<Int8Type>(vals, rng, &|e| Arc::new(Int64Array::from_iter(e.iter().map(|v| v.and_then(|v| if let Value::Int(i) = v { Some(*i) } else { None })))), 127),
    }
}

pub fn batch_of(tab: &Tab, schema: &SchemaRef, idx: &[usize], rng: &mut Rng) -> RecordBatch {
    let nk = tab.nk();
    let mut cols: Vec<ArrayRef> = vec![];
    for (c, kt) in tab.keys.iter().enumerate() {
        let vals: Vec<&Value> = idx.iter().map(|i| &tab.rows[*i][c]).collect();
        cols.push(key_array(*kt, &vals, rng));
    }
    cols.push(Arc::new(Int64Array::from_iter(idx.iter().map(|i| if let Value::Int(x) = &tab.rows[*i][nk] { Some(*x) } else { None }))));
    cols.push(Arc::new(Float64Array::from_iter(idx.iter().map(|i| if let Value::Float(x) = &tab.rows[*i][nk + 1] { Some(*x) } else { None }))));
    cols.push(Arc::new(StringArray::from_iter(idx.iter().map(|i| if let Value::Str(x) = &tab.rows[*i][nk + 2] { Some(x.clone()) } else { None }))));
    RecordBatch::try_new(schema.clone(), cols).expect("harness batch")
}

pub fn partitions_of(tab: &Tab, layout: &Layout, rng: &mut Rng) -> Vec<Vec<RecordBatch>> {
    let schema = tab.schema();
    layout.iter().map(|p| p.iter().map(|b| batch_of(tab, &schema, b, rng)).collect()).collect()
}

/// Logical value of an output cell (Binary -> hex text, Decimal128 -> unscaled integer).
pub fn cell(arr: &dyn Array, i: usize) -> Value {
    if arr.is_null(i) {
        return Value::Null;
    }
    match arr.data_type() {
        DataType::Binary => Value::Str(hex_encode(arr.as_binary::<i32>().value(i))),
        DataType::LargeBinary => Value::Str(hex_encode(arr.as_binary::<i64>().value(i))),
        DataType::BinaryView => Value::Str(hex_encode(arr.as_binary_view().value(i))),
        DataType::Decimal128(_, _) => {
            let x = arr.as_primitive::<arrow::datatypes::Decimal128Type>().value(i);
            Value::Int(x as i64)
        }
        DataType::Dictionary(_, _) => {
            let d = arr.as_any_dictionary();
            let k = d.normalized_keys()[i];
            cell(d.values().as_ref(), k)
        }
        _ => dfv::engine::cell(arr, i),
    }
}

pub fn batches_to_rows(batches: &[RecordBatch]) -> Vec<Row> {
    let mut out = vec![];
    for b in batches {
        for i in 0..b.num_rows() {
            out.push((0..b.num_columns()).map(|c| cell(b.column(c).as_ref(), i)).collect());
        }
    }
    out
}
