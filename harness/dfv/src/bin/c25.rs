//! C25 — written files read back to the data that was written.
//!
//! Generated MemTables are written through COPY / INSERT INTO a listing table / DataFrame::write_*
//! as Parquet, CSV, NDJSON and Arrow IPC (compression, file roll-over, hive partitioning), then the
//! location is read back in a FRESH session as an external table declared with the written schema
//! and compared with the source rows as a multiset.
//!
//! CSV: the documented encoding has one spelling for NULL and the empty string (NULL is written as
//! the empty field unless `null_value` is given; an empty field reads as NULL unless `null_regex`
//! says otherwise), so for CSV the expectation maps '' to NULL in string columns — nothing else.
//! Newlines inside quoted values are only promised with `newlines_in_values = true`, which the
//! read-back always sets.

use datafusion::dataframe::DataFrameWriteOptions;
use datafusion::datasource::MemTable;
use datafusion::prelude::*;
use dfv::engine::{batches_to_rows, classify, current_thread_rt, ErrClass};
use dfv::filetab::{batch_of, schema_of, sql_str, Cols, CT};
use dfv::value::{rows_to_json, Row, Value};
use std::collections::BTreeSet;
use std::sync::Arc;
use vcommon::{fp_bytes, json, Args, Json, Report, Rng};

#[derive(Clone, Copy, Debug, PartialEq, Eq)]
enum Fmt {
    Parquet,
    Csv,
    Json,
    Arrow,
}

impl Fmt {
    fn sql(&self) -> &'static str {
        match self {
            Fmt::Parquet => "PARQUET",
            Fmt::Csv => "CSV",
            Fmt::Json => "JSON",
            Fmt::Arrow => "ARROW",
        }
    }
    fn ext(&self) -> &'static str {
        match self {
            Fmt::Parquet => "parquet",
            Fmt::Csv => "csv",
            Fmt::Json => "json",
            Fmt::Arrow => "arrow",
        }
    }
}

#[derive(Clone, Copy, Debug, PartialEq, Eq)]
enum Writer {
    CopyQuery,
    CopyTable,
    Insert,
    DataFrame,
}

#[derive(Clone, Debug)]
struct CsvVariant {
    header: bool,
    delimiter: char,
    quote: char,
    escape: Option<char>,
    /// Some((null_value, null_regex)): NULL and '' get distinct spellings
    null_spelling: Option<(String, String)>,
}

#[derive(Clone, Debug)]
struct Case {
    idx: u64,
    fmt: Fmt,
    writer: Writer,
    compression: Option<String>,
    single_file: bool,
    soft_max_rows: usize,
    min_parallel_files: usize,
    target_partitions: usize,
    batch_size: usize,
    keep_partition_cols: bool,
    csv: CsvVariant,
    cols: Cols,
    part_by: Vec<usize>,
    rows: Vec<Row>,
    /// source MemTable layout: partitions → batches → row indices
    layout: Vec<Vec<Vec<usize>>>,
}

const HOSTILE: &[&str] = &[
    "a", "b c", "x/y", "k=v", "50%", "a+b", "h#1", "it's", "\"q\"", "é€😀", "", " lead", "trail ", "%2F", "a%20b", "?", "a\\b", "..", ".", "a:b", "*", "ÄÖ", "tab\tx", "a,b", "a;b", "a|b",
    "__HIVE_DEFAULT_PARTITION__", "A", "null", "NULL",
];
const HOSTILE_DATA: &[&str] = &[
    "line\nfeed", "cr\rhere", "crlf\r\nx", "\n", "\"", "\"\"", "a\"b,c\nd", " ", "  two  ", "\\N", "\\", "a\\\"b", "#c", "true", "123", "1e5", "'", "''", "\t", "x\u{0}y", "{\"k\":1}", "[1,2]", "\\n", "\\u0041", "\u{feff}bom",
    "\u{2028}", "very-long-",
];

fn gen_value(rng: &mut Rng, ty: CT, partition: bool, null_ok: bool) -> Value {
    if null_ok && rng.chance(1, if partition { 12 } else { 7 }) {
        return Value::Null;
    }
    match ty {
        CT::I64 => Value::Int(if partition { *rng.pick(&[-3, 0, 7, 10, 2024, i64::MAX, i64::MIN + 1]) } else { *rng.pick(&[0, 1, -1, 42, i64::MAX, i64::MIN, 1 << 53, (1 << 53) + 1, -999_999_999_999]) }),
        CT::I32 => Value::Int(*rng.pick(&[0, 1, -1, 12, i32::MAX as i64, i32::MIN as i64, 2024, 7])),
        CT::F64 => Value::Float(*rng.pick(&[0.0, -0.0, 1.0, -1.5, 0.1, 1.0 / 3.0, 1e-300, 1.7976931348623157e308, -2.2250738585072014e-308, 5e-324, 123456789.125, 1e21, 1e-7])),
        CT::Bool => Value::Bool(rng.bool()),
        CT::Date => Value::Int(*rng.pick(&[0, -1, 19727, 19722, 10650, 19782, -25567, 47482, 2932896, -141427])),
        CT::Str => {
            if partition {
                Value::Str(rng.pick(HOSTILE).to_string())
            } else if rng.chance(1, 2) {
                let s = *rng.pick(HOSTILE_DATA);
                Value::Str(if s == "very-long-" { "very-long-".repeat(900) } else { s.to_string() })
            } else {
                Value::Str(rng.pick(HOSTILE).to_string())
            }
        }
    }
}

fn gen_case(idx: u64, rng: &mut Rng) -> Case {
    let fmt = [Fmt::Parquet, Fmt::Csv, Fmt::Json, Fmt::Arrow][(idx % 4) as usize];
    let writer = [Writer::CopyQuery, Writer::Insert, Writer::DataFrame, Writer::CopyTable, Writer::CopyQuery][((idx / 4) % 5) as usize];
    let writer = if writer == Writer::DataFrame && fmt == Fmt::Arrow { Writer::CopyQuery } else { writer };
    let n_part = ((idx / 20) % 3) as usize;
    let compression = match fmt {
        Fmt::Csv | Fmt::Json => [None, Some("gzip"), Some("zstd"), Some("bzip2"), Some("xz"), None][rng.usize(6)].map(String::from),
        Fmt::Parquet => [None, Some("snappy"), Some("gzip(6)"), Some("zstd(3)"), Some("lz4"), Some("brotli(4)"), Some("lz4_raw"), Some("uncompressed")][rng.usize(8)].map(String::from),
        Fmt::Arrow => None,
    };
    let mut cols: Cols = vec![("id".into(), CT::I64), ("i".into(), CT::I64), ("j".into(), CT::I32), ("f".into(), CT::F64), ("s".into(), CT::Str), ("b".into(), CT::Bool), ("d".into(), CT::Date)];
    // drop a few data columns at random (but keep id and at least one more)
    while cols.len() > 3 && rng.chance(1, 3) {
        let k = 1 + rng.usize(cols.len() - 1);
        cols.remove(k);
    }
    let mut part_by = vec![];
    for k in 0..n_part {
        let ty = *rng.pick(&[CT::Str, CT::Str, CT::Str, CT::I64, CT::I32, CT::Date, CT::Bool]);
        // partition columns are placed at random positions of the source table
        let pos = 1 + rng.usize(cols.len());
        cols.insert(pos, (format!("p{k}"), ty));
    }
    for k in 0..n_part {
        part_by.push(cols.iter().position(|(n, _)| *n == format!("p{k}")).unwrap());
    }
    if rng.bool() {
        part_by.reverse();
    }
    let n_rows = match rng.below(10) {
        0 => 0,
        1 => 1,
        2..=6 => 2 + rng.usize(14),
        _ => 20 + rng.usize(60),
    };
    let null_parts = rng.chance(1, 4);
    // a small per-case domain for each partition column keeps the number of directories bounded
    let pdomains: Vec<Vec<Value>> = part_by.iter().map(|&c| (0..2 + rng.usize(3)).map(|_| gen_value(rng, cols[c].1, true, null_parts)).collect()).collect();
    let rows: Vec<Row> = (0..n_rows)
        .map(|r| {
            cols.iter()
                .enumerate()
                .map(|(c, (n, ty))| {
                    if n == "id" {
                        Value::Int(r as i64 + 1)
                    } else if let Some(k) = part_by.iter().position(|&p| p == c) {
                        rng.pick_cloned(&pdomains[k])
                    } else {
                        gen_value(rng, *ty, false, true)
                    }
                })
                .collect()
        })
        .collect();
    let nparts = 1 + rng.usize(3);
    let mut layout: Vec<Vec<Vec<usize>>> = vec![vec![]; nparts];
    let mut i = 0;
    for c in rng.chunks(n_rows, 7) {
        let p = rng.usize(nparts);
        layout[p].push((i..i + c).collect());
        i += c;
    }
    if rng.chance(1, 4) {
        layout[0].push(vec![]); // an empty batch
    }
    let csv = CsvVariant {
        header: rng.chance(3, 4),
        delimiter: *rng.pick(&[',', ',', ';', '|', '\t']),
        quote: *rng.pick(&['"', '"', '"', '\'']),
        escape: if rng.chance(1, 6) { Some('\\') } else { None },
        null_spelling: if rng.chance(1, 8) { Some(("NULLX".into(), "^NULLX$".into())) } else { None },
    };
    let partitioned = !part_by.is_empty();
    Case {
        idx,
        fmt,
        writer,
        compression,
        single_file: !partitioned && writer != Writer::Insert && rng.chance(1, 3),
        soft_max_rows: *rng.pick(&[1usize, 3, 10, 50_000_000]),
        min_parallel_files: *rng.pick(&[1usize, 2, 4]),
        target_partitions: 1 + rng.usize(4),
        batch_size: *rng.pick(&[2usize, 5, 8192]),
        keep_partition_cols: partitioned && writer != Writer::Insert && rng.chance(1, 4),
        csv,
        cols,
        part_by,
        rows,
        layout,
    }
}

// ------------------------------------------------------------------------------------------

fn format_options(c: &Case, for_read: bool, for_table: bool) -> Vec<(String, String)> {
    let mut o: Vec<(String, String)> = vec![];
    if let Some(z) = &c.compression {
        // parquet: the codec is a writer property of COPY / DataFrame::write_parquet; an external
        // table takes it from the session (`execution.parquet.compression`), not from OPTIONS
        if c.fmt != Fmt::Parquet || !for_table {
            o.push(("format.compression".into(), z.clone()));
        }
    }
    if c.fmt == Fmt::Csv {
        o.push(("format.has_header".into(), c.csv.header.to_string()));
        if c.csv.delimiter != ',' {
            o.push(("format.delimiter".into(), c.csv.delimiter.to_string()));
        }
        if c.csv.quote != '"' {
            o.push(("format.quote".into(), c.csv.quote.to_string()));
        }
        if let Some(e) = c.csv.escape {
            o.push(("format.escape".into(), e.to_string()));
            o.push(("format.double_quote".into(), "false".into()));
        }
        if let Some((nv, nr)) = &c.csv.null_spelling {
            o.push(("format.null_value".into(), nv.clone()));
            if for_read {
                o.push(("format.null_regex".into(), nr.clone()));
            }
        }
        if for_read {
            o.push(("format.newlines_in_values".into(), "true".into()));
        }
    }
    o
}

fn options_sql(o: &[(String, String)]) -> String {
    if o.is_empty() { String::new() } else { format!(" OPTIONS ({})", o.iter().map(|(k, v)| format!("{} {}", sql_str(k), sql_str(v))).collect::<Vec<_>>().join(", ")) }
}

fn table_cols(c: &Case, partitioned_table: bool) -> Vec<usize> {
    // column order of an external table over the written location: non-partition columns in
    // source order, then the partition columns in PARTITIONED BY order
    if partitioned_table {
        let mut v: Vec<usize> = (0..c.cols.len()).filter(|i| !c.part_by.contains(i)).collect();
        v.extend(c.part_by.iter().copied());
        v
    } else {
        (0..c.cols.len()).collect()
    }
}

fn create_external(c: &Case, name: &str, loc: &str, partitioned_table: bool, for_read: bool) -> String {
    let order = table_cols(c, partitioned_table);
    let cols = order.iter().map(|&i| format!("{} {}", c.cols[i].0, c.cols[i].1.sql())).collect::<Vec<_>>().join(", ");
    let part = if partitioned_table && !c.part_by.is_empty() { format!(" PARTITIONED BY ({})", c.part_by.iter().map(|&i| c.cols[i].0.clone()).collect::<Vec<_>>().join(", ")) } else { String::new() };
    format!("CREATE EXTERNAL TABLE {name} ({cols}) STORED AS {} LOCATION {}{part}{}", c.fmt.sql(), sql_str(loc), options_sql(&format_options(c, for_read, true)))
}

struct Outcome {
    statements: Vec<String>,
    rows_fresh: Vec<Row>,
    rows_same_session: Option<Vec<Row>>,
    files: Vec<String>,
}

enum Fail {
    Write(datafusion::error::DataFusionError),
    Read(datafusion::error::DataFusionError),
    Harness(String),
}

fn walk(dir: &std::path::Path, base: &std::path::Path, out: &mut Vec<String>) {
    if let Ok(rd) = std::fs::read_dir(dir) {
        for e in rd.flatten() {
            let p = e.path();
            if p.is_dir() {
                walk(&p, base, out);
            } else {
                out.push(p.strip_prefix(base).unwrap_or(&p).to_string_lossy().into_owned());
            }
        }
    }
}

async fn run_case(c: &Case, root: &std::path::Path, stmts: &mut Vec<String>) -> Result<Outcome, Fail> {
    let cfg = SessionConfig::new()
        .with_target_partitions(c.target_partitions)
        .with_batch_size(c.batch_size)
        .with_information_schema(false)
        .set_str("datafusion.execution.soft_max_rows_per_output_file", &c.soft_max_rows.to_string())
        .set_str("datafusion.execution.minimum_parallel_output_files", &c.min_parallel_files.to_string())
        .set_str("datafusion.execution.keep_partition_by_columns", &c.keep_partition_cols.to_string());
    stmts.push(format!(
        "-- session: target_partitions={} batch_size={} soft_max_rows_per_output_file={} minimum_parallel_output_files={} keep_partition_by_columns={}",
        c.target_partitions, c.batch_size, c.soft_max_rows, c.min_parallel_files, c.keep_partition_cols
    ));
    let cfg = match (&c.compression, c.fmt, c.writer) {
        (Some(z), Fmt::Parquet, Writer::Insert) => {
            stmts.push(format!("-- session: datafusion.execution.parquet.compression={z}"));
            cfg.set_str("datafusion.execution.parquet.compression", z)
        }
        _ => cfg,
    };
    let ctx = SessionContext::new_with_config(cfg);
    let schema = schema_of(&c.cols, &["id"]);
    let parts: Vec<Vec<_>> = c.layout.iter().map(|p| p.iter().map(|b| batch_of(&schema, &c.cols, &b.iter().map(|i| &c.rows[*i]).collect::<Vec<_>>())).collect()).collect();
    let mt = MemTable::try_new(schema.clone(), parts).map_err(|e| Fail::Harness(e.to_string()))?;
    ctx.register_table("src", Arc::new(mt)).map_err(|e| Fail::Harness(e.to_string()))?;
    let dir = root.join("out");
    let loc = if c.single_file { format!("{}/data.{}", dir.display(), c.fmt.ext()) } else { format!("{}/", dir.display()) };
    if c.single_file || c.writer == Writer::Insert {
        std::fs::create_dir_all(&dir).map_err(|e| Fail::Harness(e.to_string()))?;
    }
    let partitioned = !c.part_by.is_empty();
    let pnames: Vec<String> = c.part_by.iter().map(|&i| c.cols[i].0.clone()).collect();
    let mut same_session = None;
    let run = |sql: String, stmts: &mut Vec<String>| {
        stmts.push(sql.clone());
        let ctx = ctx.clone();
        async move { ctx.sql(&sql).await?.collect().await }
    };
    match c.writer {
        Writer::CopyQuery | Writer::CopyTable => {
            let src = if c.writer == Writer::CopyQuery { "(SELECT * FROM src)" } else { "src" };
            let part = if partitioned { format!(" PARTITIONED BY ({})", pnames.join(", ")) } else { String::new() };
            let sql = format!("COPY {src} TO {} STORED AS {}{part}{}", sql_str(&loc), c.fmt.sql(), options_sql(&format_options(c, false, false)));
            run(sql, stmts).await.map_err(Fail::Write)?;
        }
        Writer::Insert => {
            run(create_external(c, "w", &loc, true, false), stmts).await.map_err(Fail::Write)?;
            let order = table_cols(c, true).iter().map(|&i| c.cols[i].0.clone()).collect::<Vec<_>>().join(", ");
            for parity in [0, 1] {
                run(format!("INSERT INTO w SELECT {order} FROM src WHERE id % 2 = {parity}"), stmts).await.map_err(Fail::Write)?;
            }
            let names = c.cols.iter().map(|(n, _)| n.clone()).collect::<Vec<_>>().join(", ");
            let out = run(format!("SELECT {names} FROM w"), stmts).await.map_err(Fail::Read)?;
            same_session = Some(batches_to_rows(&out));
        }
        Writer::DataFrame => {
            let df = ctx.table("src").await.map_err(Fail::Write)?;
            let mut o = DataFrameWriteOptions::new().with_partition_by(pnames.clone());
            if c.single_file {
                o = o.with_single_file_output(true);
            }
            stmts.push(format!("-- DataFrame::write_{}({loc:?}, partition_by={pnames:?}, single_file_output={}, format options {:?})", c.fmt.ext(), c.single_file, format_options(c, false, false)));
            let mut topts = ctx.state().default_table_options();
            topts.set_config_format(match c.fmt {
                Fmt::Parquet => datafusion::common::config::ConfigFileType::PARQUET,
                Fmt::Csv => datafusion::common::config::ConfigFileType::CSV,
                _ => datafusion::common::config::ConfigFileType::JSON,
            });
            for (k, v) in format_options(c, false, false) {
                topts.set(&k, &v).map_err(Fail::Write)?;
            }
            match c.fmt {
                Fmt::Parquet => df.write_parquet(&loc, o, Some(topts.parquet)).await,
                Fmt::Csv => df.write_csv(&loc, o, Some(topts.csv)).await,
                _ => df.write_json(&loc, o, Some(topts.json)).await,
            }
            .map_err(Fail::Write)?;
        }
    }
    let mut files = vec![];
    walk(&dir, &dir, &mut files);
    files.sort();
    // read back in a fresh session with the written schema
    let mut rcfg = SessionConfig::new().with_target_partitions(1 + (c.idx as usize % 3)).with_information_schema(false);
    // Arrow IPC files are not adapted to a declared string type: COPY / DataFrame write the MemTable's
    // Utf8, INSERT writes the listing table's declared type (VARCHAR = Utf8View by default)
    if (c.fmt == Fmt::Arrow && c.writer != Writer::Insert) || (c.fmt != Fmt::Arrow && c.idx % 3 == 0) {
        rcfg = rcfg.set_str("datafusion.sql_parser.map_string_types_to_utf8view", "false");
        stmts.push("-- fresh session: datafusion.sql_parser.map_string_types_to_utf8view=false".into());
    }
    let rctx = SessionContext::new_with_config(rcfg);
    if files.is_empty() && !dir.exists() {
        // nothing was written (no rows, partitioned / multi-file output): the location holds no data
        return Ok(Outcome { statements: stmts.clone(), rows_fresh: vec![], rows_same_session: same_session, files });
    }
    let partitioned_read = partitioned && !c.keep_partition_cols;
    let names = c.cols.iter().map(|(n, _)| n.clone()).collect::<Vec<_>>().join(", ");
    let mut rstm = vec![create_external(c, "r", &loc, partitioned_read, true), format!("SELECT {names} FROM r")];
    if !partitioned_read {
        // an unpartitioned table over hive directories has to look below the table root
        rstm.insert(0, "SET datafusion.execution.listing_table_ignore_subdirectory = false".into());
    }
    let mut last = vec![];
    for s in rstm {
        stmts.push(format!("-- fresh session\n{s}"));
        last = rctx.sql(&s).await.map_err(Fail::Read)?.collect().await.map_err(Fail::Read)?;
    }
    Ok(Outcome { statements: stmts.clone(), rows_fresh: batches_to_rows(&last), rows_same_session: same_session, files })
}

fn key(r: &Row) -> String {
    let mut s = String::new();
    for v in r {
        match v {
            Value::Null => s.push_str("N|"),
            Value::Int(i) => s.push_str(&format!("I{i}|")),
            Value::Float(f) => s.push_str(&format!("F{:016x}|", f.to_bits())),
            Value::Str(x) => s.push_str(&format!("S{}:{x}|", x.len())),
            Value::Bool(b) => s.push_str(&format!("B{b}|")),
        }
    }
    s
}

fn multiset_diff(observed: &[Row], expected: &[Row]) -> Option<&'static str> {
    let mut a: Vec<String> = observed.iter().map(key).collect();
    let mut e: Vec<String> = expected.iter().map(key).collect();
    a.sort();
    e.sort();
    if a == e {
        return None;
    }
    let ids = |rows: &[Row]| {
        let mut v: Vec<i64> = rows.iter().filter_map(|r| if let Value::Int(i) = r[0] { Some(i) } else { None }).collect();
        v.sort();
        v
    };
    let (ia, ie) = (ids(observed), ids(expected));
    if ia == ie {
        Some("values-changed")
    } else if ia.windows(2).any(|w| w[0] == w[1]) {
        Some("rows-duplicated")
    } else if ie.iter().any(|i| ia.binary_search(i).is_err()) {
        Some("rows-lost")
    } else {
        Some("rows-added")
    }
}

/// expectation under the format's documented encoding
fn expected_rows(c: &Case, null_partition_as_default: bool) -> Vec<Row> {
    c.rows
        .iter()
        .map(|r| {
            r.iter()
                .enumerate()
                .map(|(i, v)| {
                    let ty = c.cols[i].1;
                    let is_part = c.part_by.contains(&i) && !c.keep_partition_cols;
                    match v {
                        Value::Null if is_part && null_partition_as_default => match ty {
                            CT::Str => Value::Str(String::new()),
                            CT::Bool => Value::Bool(false),
                            _ => Value::Int(0),
                        },
                        // CSV: one spelling for NULL and '' (unless null_value/null_regex separate them)
                        Value::Str(s) if s.is_empty() && c.fmt == Fmt::Csv && !is_part && c.csv.null_spelling.is_none() => Value::Null,
                        v => v.clone(),
                    }
                })
                .collect()
        })
        .collect()
}

static SEED: std::sync::atomic::AtomicU64 = std::sync::atomic::AtomicU64::new(0);

fn case_json(c: &Case) -> Json {
    json!({
        "repro": format!("c25 C25 --tier quick --seed {} --opt case={} --opt verbose=1", SEED.load(std::sync::atomic::Ordering::Relaxed), c.idx),
        "format": c.fmt.sql(), "writer": format!("{:?}", c.writer), "compression": c.compression, "single_file": c.single_file,
        "soft_max_rows_per_output_file": c.soft_max_rows, "minimum_parallel_output_files": c.min_parallel_files, "target_partitions": c.target_partitions, "batch_size": c.batch_size,
        "keep_partition_by_columns": c.keep_partition_cols, "csv_options": if c.fmt == Fmt::Csv { json!(format!("{:?}", c.csv)) } else { Json::Null },
        "columns": c.cols.iter().map(|(n, t)| format!("{n} {}", t.sql())).collect::<Vec<_>>(),
        "partition_by": c.part_by.iter().map(|&i| c.cols[i].0.clone()).collect::<Vec<_>>(),
        "source_rows": rows_to_json(&c.rows), "source_layout": c.layout,
    })
}

fn trunc(rows: &[Row]) -> Json {
    let j = rows_to_json(rows);
    let s = j.to_string();
    if s.len() > 6000 { json!(format!("{}… ({} rows)", s.chars().take(6000).collect::<String>(), rows.len())) } else { j }
}

/// forward at most 3 witnesses per signature so that one root cause cannot crowd out the others
fn violation(rep: &Report, sig: &str, w: Json) {
    rep.count(&format!("violations[{sig}]"), 1);
    if rep.get_count(&format!("violations[{sig}]")) <= 3 {
        rep.violation(sig, w);
    }
}

/// CSV written with ESCAPE + DOUBLE_QUOTE=false: the writer (arrow-csv / csv-core) does not escape
/// the escape character itself, so data containing it cannot round-trip
fn escape_char_in_data(c: &Case) -> bool {
    let Some(e) = c.csv.escape else { return false };
    c.fmt == Fmt::Csv && c.rows.iter().any(|r| r.iter().any(|v| matches!(v, Value::Str(s) if s.contains(e))))
}

fn one(rep: &Report, c: &Case, selftest: bool, verbose: bool) {
    let fp = fp_bytes(format!("{c:?}").as_bytes());
    let tmp = tempfile::tempdir().expect("tempdir");
    let mut stmts: Vec<String> = vec![];
    let res = vcommon::par::guard(|| {
        let rt = current_thread_rt();
        rt.block_on(async { tokio::time::timeout(std::time::Duration::from_secs(120), run_case(c, tmp.path(), &mut stmts)).await })
    });
    let has_null_part = c.part_by.iter().any(|&p| c.rows.iter().any(|r| r[p].is_null()));
    let tag = format!("{}{}", c.fmt.sql().to_lowercase(), if c.part_by.is_empty() { "" } else { "/partitioned" });
    let wit = |note: &str, observed: Option<&[Row]>, expected: Option<&[Row]>, files: &[String]| {
        json!({"case": case_json(c), "statements": stmts, "files_written": files, "observed_rows": observed.map(trunc), "expected_rows": expected.map(trunc), "note": note})
    };
    let out = match res {
        Err(p) => {
            rep.case(fp, true);
            violation(rep, &format!("panic/{tag}"), wit(&format!("panic: {p}"), None, None, &[]));
            return;
        }
        Ok(Err(_)) => {
            rep.case(fp, false);
            rep.inconclusive("a case exceeded the 120 s wall-clock guard");
            return;
        }
        Ok(Ok(Err(Fail::Harness(e)))) => {
            rep.case(fp, false);
            rep.skip(&format!("harness: {}", e.chars().take(60).collect::<String>()));
            return;
        }
        Ok(Ok(Err(Fail::Write(e)))) => {
            rep.case(fp, false);
            let msg = e.to_string();
            let cls = classify(&e);
            if verbose {
                println!("case {} write error: {msg}", c.idx);
            }
            if c.compression.is_some() && (msg.to_lowercase().contains("compression") || msg.contains("codec") || msg.contains("feature")) {
                rep.skip(&format!("codec-rejected: {}/{}: {}", c.fmt.ext(), c.compression.as_deref().unwrap_or(""), msg.chars().take(60).collect::<String>()));
            } else if has_null_part && c.writer == Writer::Insert {
                rep.skip("insert-rejects-null-partition-value");
            } else if msg.contains("Internal error") {
                violation(rep, &format!("write-internal-error/{tag}"), wit(&format!("write failed: {}", msg.chars().take(500).collect::<String>()), None, None, &[]));
            } else {
                rep.skip(&format!("write-error/{cls:?}/{}: {}", c.fmt.ext(), msg.chars().take(70).collect::<String>()));
            }
            return;
        }
        Ok(Ok(Err(Fail::Read(e)))) => {
            let msg = e.to_string();
            if verbose {
                println!("case {} read error: {msg}", c.idx);
            }
            if matches!(classify(&e), ErrClass::NotImplemented) {
                rep.case(fp, false);
                rep.skip(&format!("read-not-implemented/{}: {}", c.fmt.ext(), msg.chars().take(70).collect::<String>()));
                return;
            }
            rep.case(fp, true);
            let sig = if escape_char_in_data(c) {
                "csv-writer-does-not-escape-the-escape-character".to_string()
            } else if c.fmt == Fmt::Csv && c.csv.null_spelling.is_some() && msg.contains("Error while parsing value 'NULLX'") {
                "csv-null-regex-not-applied-by-scan".to_string()
            } else {
                format!("readback-fails/{tag}")
            };
            violation(rep, &sig, wit(&format!("the engine wrote the files but cannot read them back with the written schema: {}", msg.chars().take(500).collect::<String>()), None, None, &[]));
            return;
        }
        Ok(Ok(Ok(o))) => o,
    };
    let _ = &out.statements;
    let mut observed = out.rows_fresh.clone();
    if selftest && !observed.is_empty() {
        let n = observed.len();
        if let Some(v) = observed[n - 1].last_mut() {
            *v = Value::Str("corrupted-by-selftest".into());
        }
    }
    let expected = expected_rows(c, false);
    rep.case(fp, !c.rows.is_empty());
    rep.count(&format!("compared[{}/{:?}]", c.fmt.ext(), c.writer), 1);
    rep.count(&format!("compression[{}/{}]", c.fmt.ext(), c.compression.as_deref().unwrap_or("none")), 1);
    rep.count(&format!("partition_columns[{}]", c.part_by.len()), 1);
    rep.count("files_written_total", out.files.len() as u64);
    rep.max("files_written_max_per_case", out.files.len() as u64);
    if out.files.len() > 1 {
        rep.count("cases_with_multiple_files", 1);
    }
    let dirs: BTreeSet<String> = out.files.iter().filter_map(|f| f.rsplit_once('/').map(|(d, _)| d.to_string())).collect();
    rep.count("partition_directories_total", dirs.len() as u64);
    if c.keep_partition_cols {
        rep.count("keep_partition_by_columns_cases", 1);
    }
    for r in &c.rows {
        for (i, v) in r.iter().enumerate() {
            if let Value::Str(s) = v {
                let set = if c.part_by.contains(&i) { "special_chars_in_partition_values" } else { "special_chars_in_data_strings" };
                for ch in s.chars().filter(|ch| !ch.is_ascii_alphanumeric()) {
                    rep.seen(set, &format!("{:?}", ch));
                }
                if s.is_empty() {
                    rep.seen(set, "(empty string)");
                }
            } else if v.is_null() && c.part_by.contains(&i) {
                rep.seen("special_chars_in_partition_values", "(NULL)");
            }
        }
    }
    for d in &dirs {
        if d.contains('%') {
            rep.count("escaped_partition_directories", 1);
        }
    }
    if rep.want_sample() && out.files.len() > 2 && !c.part_by.is_empty() {
        rep.sample(json!({"format": c.fmt.sql(), "writer": format!("{:?}", c.writer), "rows": c.rows.len(), "files_written": out.files.iter().take(6).collect::<Vec<_>>(), "statements": stmts.iter().filter(|s| !s.starts_with("--")).take(2).collect::<Vec<_>>()}));
    }
    if verbose {
        println!("case {}: {} files, {} rows read back, statements:\n{}", c.idx, out.files.len(), observed.len(), stmts.join("\n"));
    }
    if let Some(kind) = multiset_diff(&observed, &expected) {
        // classified deviations, alone or combined: (a) NULL strings written as NULL_VALUE 'NULLX' come
        // back as the string 'NULLX' (NULL_REGEX is not applied by the scan); (b) NULL partition values
        // are written as the type's default
        let with_nullx = |rows: Vec<Row>| -> Vec<Row> {
            rows.into_iter().map(|r| r.into_iter().enumerate().map(|(i, v)| if v.is_null() && c.cols[i].1 == CT::Str && !(c.part_by.contains(&i) && !c.keep_partition_cols) { Value::Str("NULLX".into()) } else { v }).collect()).collect()
        };
        let nullx_applicable = c.fmt == Fmt::Csv && c.csv.null_spelling.is_some();
        let mut classified: Option<String> = None;
        for (use_nullx, use_default) in [(true, false), (false, true), (true, true)] {
            if (use_nullx && !nullx_applicable) || (use_default && !has_null_part) {
                continue;
            }
            let mut model = expected_rows(c, use_default);
            if use_nullx {
                model = with_nullx(model);
            }
            if multiset_diff(&observed, &model).is_none() {
                let mut parts = vec![];
                if use_nullx {
                    parts.push("csv-null-regex-not-applied-by-scan");
                }
                if use_default {
                    parts.push("null-partition-value-written-as-default");
                }
                classified = Some(parts.join("+"));
                break;
            }
        }
        if escape_char_in_data(c) {
            violation(rep, "csv-writer-does-not-escape-the-escape-character", wit("CSV written with ESCAPE and DOUBLE_QUOTE=false while a string contains the escape character; read-back differs", Some(&observed), Some(&expected), &out.files));
        } else if let Some(sig) = classified {
            violation(rep, &sig, wit("read-back differs from the source rows exactly by the modelled deviation(s): NULL strings written as NULL_VALUE 'NULLX' read back as 'NULLX' although NULL_REGEX '^NULLX$' is set / a NULL partition value is written as the type's default ('' / 0 / false / 1970-01-01)", Some(&observed), Some(&expected), &out.files));
        } else {
            violation(rep, &format!("readback-{kind}/{tag}"), wit("fresh-session read-back != source rows", Some(&observed), Some(&expected), &out.files));
        }
        return;
    }
    if let Some(same) = &out.rows_same_session {
        rep.count("insert_same_session_reads", 1);
        if let Some(kind) = multiset_diff(same, &expected) {
            violation(rep, &format!("insert-then-select-same-session-{kind}/{tag}"), wit("SELECT from the listing table in the inserting session != source rows (the fresh-session read-back agrees)", Some(same), Some(&expected), &out.files));
        }
    }
}

fn run(args: &Args) -> i32 {
    let rep = Report::new("C25", "exploration", args);
    rep.set_rule(
        "case = (generated typed MemTable with hostile strings / NULLs, format, writer [COPY query | COPY table | INSERT INTO listing table x2 | DataFrame::write_*], compression, single/multiple files via soft_max_rows_per_output_file + minimum_parallel_output_files, 0-2 PARTITIONED BY columns, keep_partition_by_columns, CSV dialect); \
         distinct = hash of the whole case; non-trivial = written, read back in a fresh session and compared with >= 1 source row",
    );
    rep.assume("read-back declares the written schema explicitly (CREATE EXTERNAL TABLE with the source column types), so no inference is involved");
    rep.assume("CSV: '' and NULL share one spelling in string columns unless null_value/null_regex are set; newlines in quoted values are read with newlines_in_values=true");
    rep.assume("floats compare bit-exact, dates as day numbers, partition columns as their declared types");
    let selftest = args.opt_u64("selftest", 0) == 1;
    SEED.store(args.seed, std::sync::atomic::Ordering::Relaxed);
    let reduce = match args.stage.as_str() {
        "miri" => 100,
        "memcheck" | "tsan" => 10,
        _ => 1,
    };
    let n_sys = (args.bound("systematic", 480, 2400) / reduce).max(4);
    let n_rand = args.bound("random", 1500, 40_000) / reduce;
    // `--opt case=N [--opt verbose=1]` re-runs one generated case (same seed) and prints what happened
    let only = args.opts.get("case").and_then(|v| v.parse::<u64>().ok());
    let verbose = args.opt_u64("verbose", 0) == 1;
    vcommon::par::run(args.workers, (0..n_sys + n_rand).filter(|i| only.is_none_or(|o| o == *i)), |i| {
        let mut rng = if i < n_sys { Rng::derive(0xC25, &[0, i]) } else { Rng::derive(args.seed, &[25, 0, i]) };
        let c = gen_case(i, &mut rng);
        one(&rep, &c, selftest, verbose);
    });
    if only.is_some() {
        return if rep.finish() == 1 { 1 } else { 0 };
    }
    if reduce == 1 {
        for f in ["parquet", "csv", "json", "arrow"] {
            let n: u64 = ["CopyQuery", "CopyTable", "Insert", "DataFrame"].iter().map(|w| rep.get_count(&format!("compared[{f}/{w}]"))).sum();
            rep.obligation(&format!("format:{f}"), n > 0, "every format must be written, read back and compared");
        }
        for w in ["CopyQuery", "CopyTable", "Insert", "DataFrame"] {
            let n: u64 = ["parquet", "csv", "json", "arrow"].iter().map(|f| rep.get_count(&format!("compared[{f}/{w}]"))).sum();
            rep.obligation(&format!("writer:{w}"), n > 0, "every write path must be compared");
        }
        rep.obligation("multiple-output-files", rep.get_count("cases_with_multiple_files") > 0, "file roll-over must be observed");
        rep.obligation("partitioned-2-columns", rep.get_count("partition_columns[2]") > 0, "two partition columns must be compared");
        rep.obligation("escaped-directories", rep.get_count("escaped_partition_directories") > 0, "partition values that need escaping must reach the file system");
    }
    rep.finish()
}

fn main() {
    let args = Args::parse();
    vcommon::par::quiet_panics();
    std::process::exit(run(&args));
}
