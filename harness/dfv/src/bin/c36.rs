//! C36 — physical plans survive protobuf serialization.

use datafusion::physical_plan::{displayable, ExecutionPlan};
use datafusion::prelude::*;
use datafusion_proto::bytes::{physical_plan_from_bytes, physical_plan_to_bytes};
use dfv::canon::compare;
use dfv::cases::Case;
use dfv::diffrun::*;
use std::sync::Arc;
use vcommon::{fp_mix, fp_str, json, Args, Report, Rng};

const CONFIGS: &[&[(&str, &str)]] = &[
    &[],
    &[("datafusion.optimizer.prefer_hash_join", "false")],
    &[("datafusion.execution.target_partitions", "1")],
    &[("datafusion.optimizer.repartition_joins", "false"), ("datafusion.optimizer.enable_round_robin_repartition", "false")],
    &[("datafusion.optimizer.hash_join_single_partition_threshold", "0"), ("datafusion.optimizer.hash_join_single_partition_threshold_rows", "0")],
    &[("datafusion.optimizer.enable_window_topn", "true"), ("datafusion.execution.target_partitions", "4")],
    &[("datafusion.optimizer.enable_piecewise_merge_join", "true")],
];

fn props_text(p: &Arc<dyn ExecutionPlan>) -> String {
    let pr = p.properties();
    format!("partitioning={:?} ordering={} boundedness={:?} emission={:?}", pr.output_partitioning(), pr.equivalence_properties().oeq_class(), pr.boundedness, pr.emission_type)
}

fn all_props(p: &Arc<dyn ExecutionPlan>, out: &mut Vec<String>) {
    out.push(format!("{}: {}", p.name(), props_text(p)));
    for c in p.children() {
        all_props(c, out);
    }
}

fn one_case(rep: &Report, case: &Case, rng: &mut Rng) {
    let fp = case.fingerprint();
    let Ok(dir) = tempfile::tempdir() else { return };
    let setting = *rng.pick(CONFIGS);
    let sql = case.sql.clone();
    let res = block(async {
        let mut cfg = base_config();
        for (k, v) in setting {
            cfg.options_mut().set(k, v)?;
        }
        let ctx = SessionContext::new_with_config(cfg.clone());
        register_db_parquet(&ctx, &case.db, &case.layout, dir.path()).await?;
        // planning and running the ORIGINAL plan is not this property's subject: a panic there is a skip
        let orig = guarded(async {
            let plan = ctx.sql(&sql).await?.create_physical_plan().await?;
            let text0 = displayable(plan.as_ref()).indent(true).to_string();
            let mut props0 = vec![];
            all_props(&plan, &mut props0);
            let bytes = physical_plan_to_bytes(plan.clone());
            let base = match &bytes {
                Ok(_) => Some(exec_physical(&ctx, plan).await?),
                Err(_) => None,
            };
            Ok::<_, datafusion::error::DataFusionError>((text0, props0, bytes, base))
        })
        .await;
        let (text0, props0, bytes, base) = match orig {
            Err(p) => return Ok((Some(format!("original-plan-panics/{}", p.rsplit(" @ ").next().unwrap_or("").rsplit('/').next().unwrap_or(""))), vec![], String::new())),
            Ok(r) => r?,
        };
        let bytes = match bytes {
            Ok(b) => b,
            Err(e) => return Ok((Some(format!("encode-rejected/{}", e.to_string().chars().take(60).collect::<String>())), vec![], text0)),
        };
        let base = base.unwrap();
        let mut findings: Vec<(String, vcommon::Json)> = vec![];
        let ctx2 = SessionContext::new_with_config(cfg);
        register_db_parquet(&ctx2, &case.db, &case.layout, dir.path()).await?;
        match physical_plan_from_bytes(&bytes, &ctx2.task_ctx()) {
            Err(e) => findings.push(("decode-fails".into(), json!({"sql": sql, "error": e.to_string().chars().take(300).collect::<String>(), "plan": text0}))),
            Ok(back) => {
                let text1 = displayable(back.as_ref()).indent(true).to_string();
                let mut props1 = vec![];
                all_props(&back, &mut props1);
                if strip_run_specific(&text1) != strip_run_specific(&text0) {
                    // known root cause keyed by its own signature: ParquetSource's sort-pushdown state
                    // (sort_order_for_reorder / reverse_row_groups) has no field in the proto message
                    let sig = if strip_sort_pushdown(&strip_run_specific(&text1)) == strip_sort_pushdown(&strip_run_specific(&text0)) { "plan-text-differs/parquet-sort-pushdown-options-not-serialized" } else { "plan-text-differs" };
                    findings.push((sig.into(), json!({"sql": sql, "before": text0, "after": text1})));
                } else if props0 != props1 {
                    findings.push(("plan-properties-differ".into(), json!({"sql": sql, "before": props0, "after": props1, "plan": text0})));
                }
                match exec_physical(&ctx2, back).await {
                    Ok(out) => {
                        if let Err(d) = compare(&out.rows, &base.rows, &case.mode) {
                            findings.push(("decoded-plan-results-differ".into(), json!({"case": case.witness(Some(&out.rows), Some(&base.rows), &d), "plan": text0, "decoded_plan": text1})));
                        }
                    }
                    Err(e) => findings.push(("decoded-plan-fails".into(), json!({"sql": sql, "error": e.to_string().chars().take(300).collect::<String>(), "plan": text0}))),
                }
            }
        }
        Ok::<_, datafusion::error::DataFusionError>((None, findings, text0))
    });
    match res {
        Err(p) => {
            rep.case(fp, true);
            rep.violation("panic", case.witness(None, None, &format!("panic during physical round trip: {p}")));
        }
        Ok(Err(e)) => {
            rep.case(fp, false);
            rep.skip(&format!("original-plan-fails/{}", skip_class(&e)));
        }
        Ok(Ok((Some(skip), _, _))) => {
            rep.case(fp, false);
            rep.skip(&skip);
        }
        Ok(Ok((None, findings, text0))) => {
            rep.case(fp_mix(fp, fp_str(&text0)), true);
            rep.count("roundtrips", 1);
            for op in operators_in(&text0) {
                rep.seen("operators_roundtripped", &op);
            }
            for (sig, w) in findings {
                rep.violation(&sig, w);
            }
            if rep.want_sample() {
                rep.sample(json!({"sql": case.sql, "config": setting.iter().map(|(k, v)| format!("{k}={v}")).collect::<Vec<_>>(), "operators": operators_in(&text0)}));
            }
        }
    }
}

/// metrics / dynamic-filter state are run specific and are not part of the plan's identity
fn strip_run_specific(s: &str) -> String {
    s.lines().map(|l| l.split(", metrics=").next().unwrap_or(l).to_string()).collect::<Vec<_>>().join("\n")
}

/// remove `, sort_order_for_reorder=[...]` and `, reverse_row_groups=true` from DataSourceExec lines
fn strip_sort_pushdown(s: &str) -> String {
    let mut out = String::new();
    for l in s.lines() {
        let mut l = l.replace(", reverse_row_groups=true", "");
        if let Some(i) = l.find(", sort_order_for_reorder=[") {
            if let Some(j) = l[i..].find(']') {
                l.replace_range(i..i + j + 1, "");
            }
        }
        out.push_str(&l);
        out.push('\n');
    }
    out
}

fn run(args: &Args) -> i32 {
    let rep = Report::new("C36", "exploration", args);
    rep.set_rule("case = generated query over Parquet listing tables planned under one of 7 configurations; the physical plan is encoded with the default codec, decoded in a fresh session, compared by verbose indent text, per-node properties (partitioning, orderings, boundedness, emission) and by differential execution; distinct = hash(case, plan text); non-trivial = encoding succeeded");
    rep.assume("encode failures are skips (the property is conditional), counted by reason");
    let cfg = gen_cfg_from(args, "simple");
    rep.extra("generator_fragment", json!(format!("{cfg:?}")));
    for_each_case(args, &rep, 0xC36, args.bound("systematic", 400, 3000), args.bound("random", 400, 12000), &cfg, |case, rng, _| one_case(&rep, case, rng));
    rep.obligation("roundtrips", rep.get_count("roundtrips") > 100, "physical plans must actually round-trip");
    rep.finish()
}

fn main() {
    let args = Args::parse();
    vcommon::par::quiet_panics();
    std::process::exit(run(&args));
}
