//! Shared by C22 / C24 / C44 (included with `#[path]`): a small typed value domain, row-set ->
//! RecordBatch conversion, a predicate AST with (a) a renderer to a DataFusion logical `Expr`,
//! (b) a readable text form for witnesses and (c) the harness' OWN three-valued row evaluator for
//! the "simple" subset (it declines — `Unsup` — everything whose engine semantics it does not model).
#![allow(dead_code)]

use arrow::array::*;
use arrow::datatypes::{DataType, Field, Schema, SchemaRef, TimeUnit};
use arrow::record_batch::RecordBatch;
use datafusion_common::ScalarValue;
use datafusion_expr::expr::Like;
use datafusion_expr::{binary_expr, cast, lit, try_cast, Expr, Operator};
use std::cmp::Ordering;
use std::collections::BTreeSet;
use std::sync::Arc;
use vcommon::{json, Json, Rng};

// ------------------------------------------------------------------------------------------
// types and values
// ------------------------------------------------------------------------------------------

#[derive(Clone, Copy, Debug, PartialEq, Eq, Hash, PartialOrd, Ord)]
pub enum CT {
    I32,
    I64,
    F64,
    Str,
    Bool,
    Date,
    /// Decimal128(10, 2)
    Dec,
    /// Timestamp(Microsecond, None)   (C44 only)
    Ts,
}

pub const DEC_P: u8 = 10;
pub const DEC_S: i8 = 2;

impl CT {
    pub fn arrow(&self) -> DataType {
        match self {
            CT::I32 => DataType::Int32,
            CT::I64 => DataType::Int64,
            CT::F64 => DataType::Float64,
            CT::Str => DataType::Utf8,
            CT::Bool => DataType::Boolean,
            CT::Date => DataType::Date32,
            CT::Dec => DataType::Decimal128(DEC_P, DEC_S),
            CT::Ts => DataType::Timestamp(TimeUnit::Microsecond, None),
        }
    }
    pub fn name(&self) -> &'static str {
        match self {
            CT::I32 => "i32",
            CT::I64 => "i64",
            CT::F64 => "f64",
            CT::Str => "str",
            CT::Bool => "bool",
            CT::Date => "date",
            CT::Dec => "dec",
            CT::Ts => "ts",
        }
    }
    pub fn is_int(&self) -> bool {
        matches!(self, CT::I32 | CT::I64)
    }
    pub fn is_num(&self) -> bool {
        matches!(self, CT::I32 | CT::I64 | CT::F64 | CT::Dec)
    }
}

/// A cell. `I` carries Int32/Int64/Date32/Timestamp values, `Dec` the unscaled decimal.
#[derive(Clone, Debug)]
pub enum V {
    Null,
    I(i64),
    F(f64),
    S(String),
    B(bool),
    Dec(i128),
}

impl V {
    pub fn is_null(&self) -> bool {
        matches!(self, V::Null)
    }
    pub fn to_json(&self) -> Json {
        match self {
            V::Null => Json::Null,
            V::I(i) => json!(i),
            V::F(f) => {
                if f.is_finite() && !(*f == 0.0 && f.is_sign_negative()) {
                    json!(f)
                } else {
                    json!(format!("{f:?}"))
                }
            }
            V::S(s) => json!(s),
            V::B(b) => json!(b),
            V::Dec(d) => json!(format!("{}e-2", d)),
        }
    }
    /// identity (NULL == NULL, floats by bits)
    pub fn same(&self, o: &V) -> bool {
        match (self, o) {
            (V::Null, V::Null) => true,
            (V::I(a), V::I(b)) => a == b,
            (V::F(a), V::F(b)) => a.to_bits() == b.to_bits(),
            (V::S(a), V::S(b)) => a == b,
            (V::B(a), V::B(b)) => a == b,
            (V::Dec(a), V::Dec(b)) => a == b,
            _ => false,
        }
    }
}

/// The engine's comparison of two floats: SQL semantics `-0.0 = +0.0`, NaN equal to itself and
/// greater than everything else (arrow totalOrder after DataFusion's zero normalisation).
pub fn eng_f64_cmp(x: f64, y: f64) -> Ordering {
    match (x.is_nan(), y.is_nan()) {
        (true, true) => Ordering::Equal,
        (true, false) => Ordering::Greater,
        (false, true) => Ordering::Less,
        _ => x.partial_cmp(&y).unwrap_or(Ordering::Equal),
    }
}

/// The engine's ordering of two non-null values of the same column type (strings: bytes).
pub fn cmp_same(a: &V, b: &V) -> Ordering {
    match (a, b) {
        (V::I(x), V::I(y)) => x.cmp(y),
        (V::F(x), V::F(y)) => eng_f64_cmp(*x, *y),
        (V::S(x), V::S(y)) => x.as_bytes().cmp(y.as_bytes()),
        (V::B(x), V::B(y)) => x.cmp(y),
        (V::Dec(x), V::Dec(y)) => x.cmp(y),
        _ => Ordering::Equal,
    }
}

/// total order on cells for canonical sorting of result rows (NULL last; floats by bits)
pub fn cell_total_cmp(a: &V, b: &V) -> Ordering {
    fn rank(v: &V) -> u8 {
        match v {
            V::B(_) => 0,
            V::I(_) => 1,
            V::F(_) => 2,
            V::Dec(_) => 3,
            V::S(_) => 4,
            V::Null => 9,
        }
    }
    if rank(a) != rank(b) {
        return rank(a).cmp(&rank(b));
    }
    match (a, b) {
        (V::F(x), V::F(y)) => x.total_cmp(y),
        _ => cmp_same(a, b),
    }
}

pub fn row_total_cmp(a: &[V], b: &[V]) -> Ordering {
    for (x, y) in a.iter().zip(b.iter()) {
        let c = cell_total_cmp(x, y);
        if c != Ordering::Equal {
            return c;
        }
    }
    a.len().cmp(&b.len())
}

pub fn rows_same(a: &[V], b: &[V]) -> bool {
    a.len() == b.len() && a.iter().zip(b.iter()).all(|(x, y)| x.same(y))
}

pub fn sort_rows(rows: &mut [Vec<V>]) {
    rows.sort_by(|a, b| row_total_cmp(a, b));
}

/// multiset equality of two row sets (exact cell identity)
pub fn multiset_eq(a: &[Vec<V>], b: &[Vec<V>]) -> bool {
    if a.len() != b.len() {
        return false;
    }
    let mut x: Vec<Vec<V>> = a.to_vec();
    let mut y: Vec<Vec<V>> = b.to_vec();
    sort_rows(&mut x);
    sort_rows(&mut y);
    x.iter().zip(y.iter()).all(|(p, q)| rows_same(p, q))
}

/// is `a` a sub-multiset of `b`
pub fn sub_multiset(a: &[Vec<V>], b: &[Vec<V>]) -> bool {
    let mut x: Vec<Vec<V>> = a.to_vec();
    let mut y: Vec<Vec<V>> = b.to_vec();
    sort_rows(&mut x);
    sort_rows(&mut y);
    let mut j = 0;
    for p in &x {
        loop {
            if j >= y.len() {
                return false;
            }
            let c = row_total_cmp(&y[j], p);
            j += 1;
            if c == Ordering::Equal && rows_same(&y[j - 1], p) {
                break;
            }
            if c == Ordering::Greater {
                return false;
            }
        }
    }
    true
}

pub fn rows_json(rows: &[Vec<V>]) -> Json {
    Json::Array(rows.iter().map(|r| Json::Array(r.iter().map(|v| v.to_json()).collect())).collect())
}

pub fn scalar(v: &V, ct: CT) -> ScalarValue {
    match (v, ct) {
        (V::Null, _) => ScalarValue::try_from(&ct.arrow()).expect("typed null"),
        (V::I(i), CT::I32) => ScalarValue::Int32(Some(*i as i32)),
        (V::I(i), CT::I64) => ScalarValue::Int64(Some(*i)),
        (V::I(i), CT::Date) => ScalarValue::Date32(Some(*i as i32)),
        (V::I(i), CT::Ts) => ScalarValue::TimestampMicrosecond(Some(*i), None),
        (V::I(i), CT::F64) => ScalarValue::Float64(Some(*i as f64)),
        (V::I(i), CT::Dec) => ScalarValue::Decimal128(Some(*i as i128 * 100), DEC_P, DEC_S),
        (V::F(f), _) => ScalarValue::Float64(Some(*f)),
        (V::S(s), _) => ScalarValue::Utf8(Some(s.clone())),
        (V::B(b), _) => ScalarValue::Boolean(Some(*b)),
        (V::Dec(d), _) => ScalarValue::Decimal128(Some(*d), DEC_P, DEC_S),
        (V::I(i), _) => ScalarValue::Int64(Some(*i)),
    }
}

pub fn build_array(ct: CT, vals: &[V]) -> ArrayRef {
    let int = |v: &V| if let V::I(i) = v { Some(*i) } else { None };
    match ct {
        CT::I32 => Arc::new(Int32Array::from_iter(vals.iter().map(|v| int(v).map(|i| i as i32)))),
        CT::I64 => Arc::new(Int64Array::from_iter(vals.iter().map(int))),
        CT::Date => Arc::new(Date32Array::from_iter(vals.iter().map(|v| int(v).map(|i| i as i32)))),
        CT::Ts => Arc::new(TimestampMicrosecondArray::from_iter(vals.iter().map(int))),
        CT::F64 => Arc::new(Float64Array::from_iter(vals.iter().map(|v| if let V::F(f) = v { Some(*f) } else { None }))),
        CT::Str => Arc::new(StringArray::from_iter(vals.iter().map(|v| if let V::S(s) = v { Some(s.clone()) } else { None }))),
        CT::Bool => Arc::new(BooleanArray::from_iter(vals.iter().map(|v| if let V::B(b) = v { Some(*b) } else { None }))),
        CT::Dec => Arc::new(
            Decimal128Array::from_iter(vals.iter().map(|v| if let V::Dec(d) = v { Some(*d) } else { None }))
                .with_precision_and_scale(DEC_P, DEC_S)
                .expect("decimal"),
        ),
    }
}

#[derive(Clone, Debug)]
pub struct ColSpec {
    pub name: String,
    pub ct: CT,
}

pub fn schema_of(cols: &[ColSpec]) -> SchemaRef {
    Arc::new(Schema::new(cols.iter().map(|c| Field::new(&c.name, c.ct.arrow(), true)).collect::<Vec<_>>()))
}

pub fn rows_to_batch(schema: &SchemaRef, cols: &[ColSpec], rows: &[Vec<V>]) -> RecordBatch {
    let arrays: Vec<ArrayRef> = cols
        .iter()
        .enumerate()
        .map(|(c, spec)| {
            let vals: Vec<V> = rows.iter().map(|r| r[c].clone()).collect();
            build_array(spec.ct, &vals)
        })
        .collect();
    let opts = RecordBatchOptions::new().with_row_count(Some(rows.len()));
    RecordBatch::try_new_with_options(schema.clone(), arrays, &opts).expect("harness batch")
}

/// Logical value of an arrow cell; every string encoding -> S, Float32 widened, ints/dates/timestamps -> I.
/// Unknown types are rendered with the arrow formatter (deterministic).
pub fn cell(arr: &dyn Array, i: usize) -> V {
    if arr.is_null(i) {
        return V::Null;
    }
    macro_rules! prim {
        ($t:ty, $conv:expr) => {{
            let a = arr.as_any().downcast_ref::<$t>().unwrap();
            $conv(a.value(i))
        }};
    }
    match arr.data_type() {
        DataType::Null => V::Null,
        DataType::Boolean => prim!(BooleanArray, V::B),
        DataType::Int8 => prim!(Int8Array, |x| V::I(x as i64)),
        DataType::Int16 => prim!(Int16Array, |x| V::I(x as i64)),
        DataType::Int32 => prim!(Int32Array, |x| V::I(x as i64)),
        DataType::Int64 => prim!(Int64Array, V::I),
        DataType::UInt8 => prim!(UInt8Array, |x| V::I(x as i64)),
        DataType::UInt16 => prim!(UInt16Array, |x| V::I(x as i64)),
        DataType::UInt32 => prim!(UInt32Array, |x| V::I(x as i64)),
        DataType::UInt64 => prim!(UInt64Array, |x: u64| V::I(x as i64)),
        DataType::Float32 => prim!(Float32Array, |x| V::F(x as f64)),
        DataType::Float64 => prim!(Float64Array, V::F),
        DataType::Utf8 => prim!(StringArray, |x: &str| V::S(x.to_string())),
        DataType::LargeUtf8 => prim!(LargeStringArray, |x: &str| V::S(x.to_string())),
        DataType::Utf8View => prim!(StringViewArray, |x: &str| V::S(x.to_string())),
        DataType::Date32 => prim!(Date32Array, |x| V::I(x as i64)),
        DataType::Timestamp(TimeUnit::Second, _) => prim!(TimestampSecondArray, V::I),
        DataType::Timestamp(TimeUnit::Millisecond, _) => prim!(TimestampMillisecondArray, V::I),
        DataType::Timestamp(TimeUnit::Microsecond, _) => prim!(TimestampMicrosecondArray, V::I),
        DataType::Timestamp(TimeUnit::Nanosecond, _) => prim!(TimestampNanosecondArray, V::I),
        DataType::Decimal128(_, _) => prim!(Decimal128Array, V::Dec),
        DataType::Dictionary(_, _) => {
            let d = arr.as_any_dictionary();
            let k = d.normalized_keys()[i];
            cell(d.values().as_ref(), k)
        }
        _ => {
            let opts = arrow::util::display::FormatOptions::default().with_null("NULL");
            match arrow::util::display::ArrayFormatter::try_new(arr, &opts) {
                Ok(f) => V::S(format!("{}", f.value(i))),
                Err(_) => V::S("<unprintable>".into()),
            }
        }
    }
}

pub fn batches_to_rows(batches: &[RecordBatch]) -> Vec<Vec<V>> {
    let mut out = vec![];
    for b in batches {
        for i in 0..b.num_rows() {
            out.push((0..b.num_columns()).map(|c| cell(b.column(c).as_ref(), i)).collect());
        }
    }
    out
}

// ------------------------------------------------------------------------------------------
// value domains
// ------------------------------------------------------------------------------------------

pub const STR_POOL: &[&str] = &[
    "", "a", "ab", "abc", "abd", "b", "ba", "fo", "foo", "foobar", "fop", "f%o", "f_o", "fo\\o", "z", "zz", "A", "Foo", "é", "éa", "foo\u{10FFFF}", "\u{10FFFF}",
];

#[derive(Clone, Copy, Debug)]
pub struct Dom {
    /// allow -0.0 / inf / NaN
    pub special_floats: bool,
    /// allow integer / decimal extremes
    pub extremes: bool,
}

pub fn gen_value(rng: &mut Rng, ct: CT, d: Dom) -> V {
    match ct {
        CT::I32 => {
            if d.extremes && rng.chance(1, 14) {
                V::I(*rng.pick(&[i32::MIN as i64, i32::MAX as i64, 100, -100, 1000]))
            } else {
                V::I(rng.range(-6, 6))
            }
        }
        CT::I64 => {
            if d.extremes && rng.chance(1, 14) {
                V::I(*rng.pick(&[i64::MIN, i64::MAX, 1 << 40, -(1 << 40), 100, i32::MAX as i64 + 1]))
            } else {
                V::I(rng.range(-6, 6))
            }
        }
        CT::F64 => {
            if d.special_floats && rng.chance(1, 8) {
                V::F(*rng.pick(&[-0.0, f64::INFINITY, f64::NEG_INFINITY, f64::NAN]))
            } else {
                V::F(*rng.pick(&[-2.5, -1.0, -0.5, 0.0, 0.5, 1.0, 1.5, 2.0, 3.0, 100.25]))
            }
        }
        CT::Str => V::S(rng.pick(STR_POOL).to_string()),
        CT::Bool => V::B(rng.bool()),
        CT::Date => {
            if d.extremes && rng.chance(1, 14) {
                V::I(*rng.pick(&[19000, -719162, 2932896, 365]))
            } else {
                V::I(rng.range(-3, 3))
            }
        }
        CT::Ts => {
            if d.extremes && rng.chance(1, 14) {
                V::I(*rng.pick(&[1_600_000_000_000_000, -86_400_000_000, 86_400_000_000 * 365]))
            } else {
                V::I(rng.range(-3, 3) * 86_400_000_000 + if rng.chance(1, 3) { rng.range(0, 3) * 3_600_000_000 } else { 0 })
            }
        }
        CT::Dec => {
            if d.extremes && rng.chance(1, 14) {
                V::Dec(*rng.pick(&[9_999_999_999i128, -9_999_999_999i128, 1, -1]))
            } else {
                V::Dec(rng.range(-24, 24) as i128 * 25)
            }
        }
    }
}

// ------------------------------------------------------------------------------------------
// predicate AST
// ------------------------------------------------------------------------------------------

#[derive(Clone, Copy, Debug, PartialEq, Eq)]
pub enum CmpOp {
    Eq,
    Ne,
    Lt,
    Le,
    Gt,
    Ge,
    Distinct,
    NotDistinct,
}

impl CmpOp {
    pub fn op(&self) -> Operator {
        match self {
            CmpOp::Eq => Operator::Eq,
            CmpOp::Ne => Operator::NotEq,
            CmpOp::Lt => Operator::Lt,
            CmpOp::Le => Operator::LtEq,
            CmpOp::Gt => Operator::Gt,
            CmpOp::Ge => Operator::GtEq,
            CmpOp::Distinct => Operator::IsDistinctFrom,
            CmpOp::NotDistinct => Operator::IsNotDistinctFrom,
        }
    }
    pub fn text(&self) -> &'static str {
        match self {
            CmpOp::Eq => "=",
            CmpOp::Ne => "<>",
            CmpOp::Lt => "<",
            CmpOp::Le => "<=",
            CmpOp::Gt => ">",
            CmpOp::Ge => ">=",
            CmpOp::Distinct => "IS DISTINCT FROM",
            CmpOp::NotDistinct => "IS NOT DISTINCT FROM",
        }
    }
}

#[derive(Clone, Copy, Debug, PartialEq, Eq)]
pub enum ArOp {
    Add,
    Sub,
    Mul,
}

#[derive(Clone, Debug)]
pub enum Sx {
    Col(usize),
    Lit(V, CT),
    Cast(Box<Sx>, CT),
    TryCast(Box<Sx>, CT),
    Neg(Box<Sx>),
    Ar(Box<Sx>, ArOp, Box<Sx>),
}

#[derive(Clone, Debug)]
pub enum P {
    Cmp(Sx, CmpOp, Sx),
    In(Sx, Vec<Sx>, bool),
    Like { e: Sx, pat: String, neg: bool, ci: bool },
    IsNull(Sx, bool),
    /// a bare boolean column
    BoolCol(usize),
    Not(Box<P>),
    And(Box<P>, Box<P>),
    Or(Box<P>, Box<P>),
    Const(Option<bool>),
}

#[derive(Debug)]
pub struct Unsup;

pub fn colref(name: &str) -> Expr {
    Expr::Column(datafusion_common::Column::from_name(name))
}

impl Sx {
    pub fn expr(&self, cols: &[ColSpec]) -> Expr {
        match self {
            Sx::Col(i) => colref(&cols[*i].name),
            Sx::Lit(v, ct) => lit(scalar(v, *ct)),
            Sx::Cast(e, ct) => cast(e.expr(cols), ct.arrow()),
            Sx::TryCast(e, ct) => try_cast(e.expr(cols), ct.arrow()),
            Sx::Neg(e) => Expr::Negative(Box::new(e.expr(cols))),
            Sx::Ar(l, op, r) => {
                let op = match op {
                    ArOp::Add => Operator::Plus,
                    ArOp::Sub => Operator::Minus,
                    ArOp::Mul => Operator::Multiply,
                };
                binary_expr(l.expr(cols), op, r.expr(cols))
            }
        }
    }
    pub fn text(&self, cols: &[ColSpec]) -> String {
        match self {
            Sx::Col(i) => cols[*i].name.clone(),
            Sx::Lit(v, ct) => match v {
                V::Null => format!("CAST(NULL AS {})", ct.name()),
                V::I(i) => format!("{i}::{}", ct.name()),
                V::F(f) => format!("{f:?}"),
                V::S(s) => format!("'{}'", s.replace('\'', "''")),
                V::B(b) => b.to_string(),
                V::Dec(d) => format!("{}e-2::dec", d),
            },
            Sx::Cast(e, ct) => format!("CAST({} AS {})", e.text(cols), ct.name()),
            Sx::TryCast(e, ct) => format!("TRY_CAST({} AS {})", e.text(cols), ct.name()),
            Sx::Neg(e) => format!("(-{})", e.text(cols)),
            Sx::Ar(l, op, r) => format!("({} {} {})", l.text(cols), match op { ArOp::Add => "+", ArOp::Sub => "-", ArOp::Mul => "*" }, r.text(cols)),
        }
    }
    pub fn columns(&self, out: &mut BTreeSet<usize>) {
        match self {
            Sx::Col(i) => {
                out.insert(*i);
            }
            Sx::Lit(..) => {}
            Sx::Cast(e, _) | Sx::TryCast(e, _) | Sx::Neg(e) => e.columns(out),
            Sx::Ar(l, _, r) => {
                l.columns(out);
                r.columns(out);
            }
        }
    }

    /// own evaluation: value + its type
    fn eval(&self, row: &[V], cols: &[ColSpec]) -> Result<(V, CT), Unsup> {
        match self {
            Sx::Col(i) => Ok((row[*i].clone(), cols[*i].ct)),
            Sx::Lit(v, ct) => Ok((v.clone(), *ct)),
            Sx::Cast(e, to) | Sx::TryCast(e, to) => {
                let (v, from) = e.eval(row, cols)?;
                if from == *to {
                    return Ok((v, *to));
                }
                let try_ = matches!(self, Sx::TryCast(..));
                match (&v, from, *to) {
                    (V::Null, _, _) if from.is_num() && to.is_num() => Ok((V::Null, *to)),
                    (V::I(_), CT::I32, CT::I64) => Ok((v, *to)),
                    (V::I(i), CT::I64, CT::I32) => {
                        if i32::try_from(*i).is_ok() {
                            Ok((v, *to))
                        } else if try_ {
                            Ok((V::Null, *to))
                        } else {
                            Err(Unsup) // the engine raises a cast error
                        }
                    }
                    (V::I(i), CT::I32 | CT::I64, CT::F64) if i.unsigned_abs() < (1 << 52) => Ok((V::F(*i as f64), *to)),
                    (V::I(i), CT::I32 | CT::I64, CT::Dec) if i.unsigned_abs() < 10_000_000 => Ok((V::Dec(*i as i128 * 100), *to)),
                    _ => Err(Unsup),
                }
            }
            Sx::Neg(e) => {
                let (v, t) = e.eval(row, cols)?;
                match v {
                    V::Null => Ok((V::Null, t)),
                    V::I(i) if t == CT::I64 && i != i64::MIN => Ok((V::I(-i), t)),
                    V::I(i) if t == CT::I32 && i != i32::MIN as i64 => Ok((V::I(-i), t)),
                    V::F(f) => Ok((V::F(-f), t)),
                    _ => Err(Unsup),
                }
            }
            Sx::Ar(l, op, r) => {
                let (a, ta) = l.eval(row, cols)?;
                let (b, tb) = r.eval(row, cols)?;
                if !(ta.is_int() || ta == CT::F64) || !(tb.is_int() || tb == CT::F64) {
                    return Err(Unsup);
                }
                let t = if ta == CT::F64 || tb == CT::F64 {
                    CT::F64
                } else if ta == CT::I64 || tb == CT::I64 {
                    CT::I64
                } else {
                    CT::I32
                };
                if a.is_null() || b.is_null() {
                    return Ok((V::Null, t));
                }
                if t == CT::F64 {
                    let f = |v: &V| match v {
                        V::I(i) if i.unsigned_abs() < (1 << 52) => Ok(*i as f64),
                        V::F(f) => Ok(*f),
                        _ => Err(Unsup),
                    };
                    let (x, y) = (f(&a)?, f(&b)?);
                    let z = match op {
                        ArOp::Add => x + y,
                        ArOp::Sub => x - y,
                        ArOp::Mul => x * y,
                    };
                    if z.is_nan() {
                        return Err(Unsup); // NaN sign/payload of computed NaNs is not modelled
                    }
                    return Ok((V::F(z), t));
                }
                let (V::I(x), V::I(y)) = (&a, &b) else { return Err(Unsup) };
                let z = match op {
                    ArOp::Add => x.checked_add(*y),
                    ArOp::Sub => x.checked_sub(*y),
                    ArOp::Mul => x.checked_mul(*y),
                }
                .ok_or(Unsup)?;
                if t == CT::I32 && i32::try_from(z).is_err() {
                    return Err(Unsup);
                }
                Ok((V::I(z), t))
            }
        }
    }
}

/// three-valued comparison of two evaluated scalars under the engine's coercion rules (the modelled subset)
fn cmp3(a: &(V, CT), b: &(V, CT)) -> Result<Option<Ordering>, Unsup> {
    let (va, ta) = a;
    let (vb, tb) = b;
    // type compatibility first (so that a NULL operand does not hide an unsupported pair)
    let fam = |t: CT| match t {
        CT::I32 | CT::I64 => 0,
        CT::F64 => 1,
        CT::Dec => 2,
        CT::Str => 3,
        CT::Bool => 4,
        CT::Date => 5,
        CT::Ts => 6,
    };
    let (fa, fb) = (fam(*ta), fam(*tb));
    let ok = fa == fb || matches!((fa, fb), (0, 1) | (1, 0) | (0, 2) | (2, 0));
    if !ok {
        return Err(Unsup);
    }
    if va.is_null() || vb.is_null() {
        return Ok(None);
    }
    Ok(Some(match (va, vb) {
        (V::I(x), V::I(y)) => x.cmp(y),
        (V::F(x), V::F(y)) => eng_f64_cmp(*x, *y),
        (V::I(x), V::F(y)) if x.unsigned_abs() < (1 << 52) => eng_f64_cmp(*x as f64, *y),
        (V::F(x), V::I(y)) if y.unsigned_abs() < (1 << 52) => eng_f64_cmp(*x, *y as f64),
        (V::Dec(x), V::Dec(y)) => x.cmp(y),
        (V::I(x), V::Dec(y)) => (*x as i128 * 100).cmp(y),
        (V::Dec(x), V::I(y)) => x.cmp(&(*y as i128 * 100)),
        (V::S(x), V::S(y)) => x.as_bytes().cmp(y.as_bytes()),
        (V::B(x), V::B(y)) => x.cmp(y),
        _ => return Err(Unsup),
    }))
}

fn like_match(s: &[char], p: &[char]) -> bool {
    if p.is_empty() {
        return s.is_empty();
    }
    match p[0] {
        '%' => (0..=s.len()).any(|k| like_match(&s[k..], &p[1..])),
        '_' => !s.is_empty() && like_match(&s[1..], &p[1..]),
        '\\' if p.len() >= 2 => !s.is_empty() && s[0] == p[1] && like_match(&s[1..], &p[2..]),
        c => !s.is_empty() && s[0] == c && like_match(&s[1..], &p[1..]),
    }
}

impl P {
    pub fn expr(&self, cols: &[ColSpec]) -> Expr {
        match self {
            P::Cmp(l, op, r) => binary_expr(l.expr(cols), op.op(), r.expr(cols)),
            P::In(e, list, neg) => e.expr(cols).in_list(list.iter().map(|x| x.expr(cols)).collect(), *neg),
            P::Like { e, pat, neg, ci } => Expr::Like(Like::new(*neg, Box::new(e.expr(cols)), Box::new(lit(pat.clone())), None, *ci)),
            P::IsNull(e, neg) => {
                if *neg {
                    e.expr(cols).is_not_null()
                } else {
                    e.expr(cols).is_null()
                }
            }
            P::BoolCol(i) => colref(&cols[*i].name),
            P::Not(p) => Expr::Not(Box::new(p.expr(cols))),
            P::And(a, b) => a.expr(cols).and(b.expr(cols)),
            P::Or(a, b) => a.expr(cols).or(b.expr(cols)),
            P::Const(c) => lit(ScalarValue::Boolean(*c)),
        }
    }
    pub fn text(&self, cols: &[ColSpec]) -> String {
        match self {
            P::Cmp(l, op, r) => format!("{} {} {}", l.text(cols), op.text(), r.text(cols)),
            P::In(e, list, neg) => format!("{} {}IN ({})", e.text(cols), if *neg { "NOT " } else { "" }, list.iter().map(|x| x.text(cols)).collect::<Vec<_>>().join(", ")),
            P::Like { e, pat, neg, ci } => format!("{} {}{} '{}'", e.text(cols), if *neg { "NOT " } else { "" }, if *ci { "ILIKE" } else { "LIKE" }, pat),
            P::IsNull(e, neg) => format!("{} IS {}NULL", e.text(cols), if *neg { "NOT " } else { "" }),
            P::BoolCol(i) => cols[*i].name.clone(),
            P::Not(p) => format!("NOT ({})", p.text(cols)),
            P::And(a, b) => format!("({} AND {})", a.text(cols), b.text(cols)),
            P::Or(a, b) => format!("({} OR {})", a.text(cols), b.text(cols)),
            P::Const(c) => match c {
                None => "NULL".into(),
                Some(b) => b.to_string(),
            },
        }
    }
    pub fn columns(&self, out: &mut BTreeSet<usize>) {
        match self {
            P::Cmp(l, _, r) => {
                l.columns(out);
                r.columns(out);
            }
            P::In(e, list, _) => {
                e.columns(out);
                for x in list {
                    x.columns(out);
                }
            }
            P::Like { e, .. } | P::IsNull(e, _) => e.columns(out),
            P::BoolCol(i) => {
                out.insert(*i);
            }
            P::Not(p) => p.columns(out),
            P::And(a, b) | P::Or(a, b) => {
                a.columns(out);
                b.columns(out);
            }
            P::Const(_) => {}
        }
    }

    /// The harness' own SQL three-valued evaluation of the predicate on one row.
    pub fn eval(&self, row: &[V], cols: &[ColSpec]) -> Result<Option<bool>, Unsup> {
        match self {
            P::Cmp(l, op, r) => {
                let a = l.eval(row, cols)?;
                let b = r.eval(row, cols)?;
                let c = cmp3(&a, &b)?;
                Ok(match op {
                    CmpOp::Distinct | CmpOp::NotDistinct => {
                        let distinct = match (a.0.is_null(), b.0.is_null()) {
                            (true, true) => false,
                            (true, false) | (false, true) => true,
                            _ => c != Some(Ordering::Equal),
                        };
                        Some(if *op == CmpOp::Distinct { distinct } else { !distinct })
                    }
                    _ => c.map(|o| match op {
                        CmpOp::Eq => o == Ordering::Equal,
                        CmpOp::Ne => o != Ordering::Equal,
                        CmpOp::Lt => o == Ordering::Less,
                        CmpOp::Le => o != Ordering::Greater,
                        CmpOp::Gt => o == Ordering::Greater,
                        CmpOp::Ge => o != Ordering::Less,
                        _ => unreachable!(),
                    }),
                })
            }
            P::In(e, list, neg) => {
                let a = e.eval(row, cols)?;
                let mut any_null = false;
                let mut found = false;
                for x in list {
                    let b = x.eval(row, cols)?;
                    match cmp3(&a, &b)? {
                        None => any_null = true,
                        Some(Ordering::Equal) => found = true,
                        _ => {}
                    }
                }
                let r = if a.0.is_null() {
                    None
                } else if found {
                    Some(true)
                } else if any_null {
                    None
                } else {
                    Some(false)
                };
                Ok(if *neg { r.map(|b| !b) } else { r })
            }
            P::Like { e, pat, neg, ci } => {
                if *ci {
                    return Err(Unsup);
                }
                let (v, t) = e.eval(row, cols)?;
                if t != CT::Str {
                    return Err(Unsup);
                }
                Ok(match v {
                    V::Null => None,
                    V::S(s) => {
                        let sc: Vec<char> = s.chars().collect();
                        let pc: Vec<char> = pat.chars().collect();
                        let m = like_match(&sc, &pc);
                        Some(m != *neg)
                    }
                    _ => return Err(Unsup),
                })
            }
            P::IsNull(e, neg) => {
                let (v, _) = e.eval(row, cols)?;
                Ok(Some(v.is_null() != *neg))
            }
            P::BoolCol(i) => Ok(match &row[*i] {
                V::B(b) => Some(*b),
                V::Null => None,
                _ => return Err(Unsup),
            }),
            P::Not(p) => Ok(p.eval(row, cols)?.map(|b| !b)),
            P::And(a, b) => {
                let (x, y) = (a.eval(row, cols)?, b.eval(row, cols)?);
                Ok(match (x, y) {
                    (Some(false), _) | (_, Some(false)) => Some(false),
                    (Some(true), Some(true)) => Some(true),
                    _ => None,
                })
            }
            P::Or(a, b) => {
                let (x, y) = (a.eval(row, cols)?, b.eval(row, cols)?);
                Ok(match (x, y) {
                    (Some(true), _) | (_, Some(true)) => Some(true),
                    (Some(false), Some(false)) => Some(false),
                    _ => None,
                })
            }
            P::Const(c) => Ok(*c),
        }
    }

    /// rows (indices) on which the predicate is TRUE according to the own evaluator
    pub fn filter_rows(&self, rows: &[Vec<V>], cols: &[ColSpec]) -> Result<Vec<usize>, Unsup> {
        let mut out = vec![];
        for (i, r) in rows.iter().enumerate() {
            if self.eval(r, cols)? == Some(true) {
                out.push(i);
            }
        }
        Ok(out)
    }
}

/// an IN list somewhere in the predicate holds a zero literal (float zero, or an integer zero coerced to one)
pub fn has_zero_in_list(p: &P) -> bool {
    match p {
        P::In(_, list, _) => list.iter().any(|l| matches!(l, Sx::Lit(V::F(f), _) if *f == 0.0) || matches!(l, Sx::Lit(V::I(0), _))),
        P::Not(x) => has_zero_in_list(x),
        P::And(a, b) | P::Or(a, b) => has_zero_in_list(a) || has_zero_in_list(b),
        _ => false,
    }
}

/// `x NOT IN (.., NULL, ..)` occurs together with a positive IN list: the simplifier merges the two lists
/// (`x IN (A) AND x NOT IN (B)` -> `x IN (A \\ B)`) and forgets that a NULL in B makes the NOT IN never TRUE
pub fn has_not_in_null_next_to_in(p: &P) -> bool {
    fn walk(p: &P, neg_null: &mut bool, pos: &mut bool) {
        match p {
            P::In(_, list, true) if list.iter().any(|l| matches!(l, Sx::Lit(V::Null, _))) => *neg_null = true,
            P::In(_, _, false) => *pos = true,
            P::Not(x) => walk(x, neg_null, pos),
            P::And(a, b) | P::Or(a, b) => {
                walk(a, neg_null, pos);
                walk(b, neg_null, pos);
            }
            _ => {}
        }
    }
    let (mut a, mut b) = (false, false);
    walk(p, &mut a, &mut b);
    a && b
}

// ------------------------------------------------------------------------------------------
// predicate generator
// ------------------------------------------------------------------------------------------

#[derive(Clone, Debug)]
pub struct PredCfg {
    pub dom: Dom,
    pub max_depth: usize,
    /// casts / try_casts around columns
    pub casts: bool,
    /// arithmetic on columns and negation
    pub arith: bool,
    /// column-vs-column comparisons
    pub colcol: bool,
    /// ILIKE
    pub ilike: bool,
    /// IS [NOT] DISTINCT FROM
    pub distinct: bool,
    /// casts to boolean from numeric columns (non-monotone)
    pub bool_casts: bool,
    /// columns the generator may reference (indices into `cols`); empty = all
    pub allowed: Vec<usize>,
    /// per-column literal pools (actual data values); empty = domain literals only
    pub pools: Vec<Vec<V>>,
}

impl Default for PredCfg {
    fn default() -> Self {
        PredCfg { dom: Dom { special_floats: false, extremes: false }, max_depth: 3, casts: true, arith: true, colcol: true, ilike: true, distinct: true, bool_casts: false, allowed: vec![], pools: vec![] }
    }
}

pub struct PredGen<'a> {
    pub rng: &'a mut Rng,
    pub cols: &'a [ColSpec],
    pub cfg: &'a PredCfg,
    pub tags: BTreeSet<&'static str>,
    /// column the next literal is compared with
    cur: Option<usize>,
}

pub const LIKE_PATTERNS: &[&str] = &[
    "foo%", "fo%", "f%", "a%", "ab%", "%", "", "foo", "%foo", "%o%", "f\\%o", "f\\%%", "f\\_o", "f\\_%", "f_o", "f_%", "fo_", "foo%bar", "fo\\\\o", "fo\\\\%", "é%", "foo\u{10FFFF}%", "\u{10FFFF}%", "z%", "zz%", "A%", "F%", "ab_",
    "a_%",
];

impl<'a> PredGen<'a> {
    pub fn new(rng: &'a mut Rng, cols: &'a [ColSpec], cfg: &'a PredCfg) -> Self {
        PredGen { rng, cols, cfg, tags: BTreeSet::new(), cur: None }
    }

    fn pick_col(&mut self) -> usize {
        if self.cfg.allowed.is_empty() {
            self.rng.usize(self.cols.len())
        } else {
            *self.rng.pick(&self.cfg.allowed)
        }
    }

    fn pick_col_where(&mut self, f: impl Fn(CT) -> bool) -> Option<usize> {
        let cands: Vec<usize> = (0..self.cols.len()).filter(|i| (self.cfg.allowed.is_empty() || self.cfg.allowed.contains(i)) && f(self.cols[*i].ct)).collect();
        if cands.is_empty() {
            None
        } else {
            Some(*self.rng.pick(&cands))
        }
    }

    /// a literal comparable with a column of type `ct`
    fn literal_for(&mut self, ct: CT) -> Sx {
        if self.rng.chance(1, 25) {
            self.tags.insert("null-literal");
            return Sx::Lit(V::Null, ct);
        }
        let mut v = gen_value(self.rng, ct, self.cfg.dom);
        if let Some(c) = self.cur {
            if let Some(pool) = self.cfg.pools.get(c) {
                if !pool.is_empty() && self.cols[c].ct == ct && self.rng.chance(2, 3) {
                    v = self.rng.pick(pool).clone();
                }
            }
        }
        // sometimes a literal of a different but comparable type (forces a coercion cast)
        if self.cfg.casts && self.rng.chance(1, 6) {
            let to_float = self.rng.chance(1, 3);
            match (ct, &v) {
                (CT::I32 | CT::I64, V::I(i)) if to_float && i.abs() < 1000 => {
                    self.tags.insert("coerced-literal");
                    return Sx::Lit(V::F(*i as f64 + if self.rng.bool() { 0.5 } else { 0.0 }), CT::F64);
                }
                (CT::I32, V::I(i)) => {
                    self.tags.insert("coerced-literal");
                    return Sx::Lit(V::I(*i), CT::I64);
                }
                (CT::I64, V::I(i)) if i32::try_from(*i).is_ok() => {
                    self.tags.insert("coerced-literal");
                    return Sx::Lit(V::I(*i), CT::I32);
                }
                (CT::Dec, V::Dec(d)) if d.abs() < 100_000 => {
                    self.tags.insert("coerced-literal");
                    return Sx::Lit(V::I((*d / 100) as i64), CT::I64);
                }
                (CT::F64, V::F(f)) if f.is_finite() => {
                    self.tags.insert("coerced-literal");
                    return Sx::Lit(V::I(*f as i64), CT::I64);
                }
                _ => {}
            }
        }
        Sx::Lit(v, ct)
    }

    /// a scalar expression over one column (possibly wrapped) together with the type a literal should have
    fn column_side(&mut self) -> (Sx, CT) {
        let c = self.pick_col();
        self.cur = Some(c);
        let ct = self.cols[c].ct;
        let base = Sx::Col(c);
        let k = self.rng.below(100);
        if self.cfg.casts && k < 14 {
            // cast to a comparable type
            let targets: &[CT] = match ct {
                CT::I32 => &[CT::I64, CT::F64, CT::Dec],
                CT::I64 => &[CT::I32, CT::F64, CT::Dec],
                CT::F64 => &[CT::I64, CT::I32],
                CT::Dec => &[CT::F64, CT::I64],
                CT::Date => &[CT::I32, CT::I64, CT::Ts],
                CT::Ts => &[CT::Date, CT::I64],
                CT::Str => &[CT::I64],
                CT::Bool => &[CT::I32],
            };
            let mut to = *self.rng.pick(targets);
            if self.cfg.bool_casts && ct.is_num() && self.rng.chance(1, 5) {
                to = CT::Bool;
                self.tags.insert("cast-to-bool");
            }
            if self.rng.chance(1, 3) {
                self.tags.insert("try-cast");
                return (Sx::TryCast(Box::new(base), to), to);
            }
            self.tags.insert("cast");
            return (Sx::Cast(Box::new(base), to), to);
        }
        if self.cfg.arith && k < 30 && (ct.is_int() || ct == CT::F64 || ct == CT::Dec) {
            if self.rng.chance(1, 3) {
                self.tags.insert("negation");
                return (Sx::Neg(Box::new(base)), ct);
            }
            self.tags.insert("arithmetic");
            let op = *self.rng.pick(&[ArOp::Add, ArOp::Sub, ArOp::Mul]);
            // the other operand: a small literal or another numeric column
            let other = if self.cfg.colcol && self.rng.chance(1, 3) {
                match self.pick_col_where(|t| t == ct) {
                    Some(o) => {
                        self.tags.insert("multi-column");
                        Sx::Col(o)
                    }
                    None => Sx::Lit(V::I(self.rng.range(-2, 3)), if ct == CT::I32 { CT::I32 } else { CT::I64 }),
                }
            } else {
                Sx::Lit(V::I(self.rng.range(-2, 3)), if ct == CT::I32 { CT::I32 } else { CT::I64 })
            };
            let e = if self.rng.bool() { Sx::Ar(Box::new(base), op, Box::new(other)) } else { Sx::Ar(Box::new(other), op, Box::new(base)) };
            return (e, ct);
        }
        (base, ct)
    }

    fn leaf(&mut self) -> P {
        let k = self.rng.below(100);
        if k < 40 {
            // comparison
            let (lhs, ct) = self.column_side();
            let ops: &[CmpOp] = if self.cfg.distinct { &[CmpOp::Eq, CmpOp::Eq, CmpOp::Ne, CmpOp::Ne, CmpOp::Lt, CmpOp::Le, CmpOp::Gt, CmpOp::Ge, CmpOp::Distinct, CmpOp::NotDistinct] } else { &[CmpOp::Eq, CmpOp::Eq, CmpOp::Ne, CmpOp::Ne, CmpOp::Lt, CmpOp::Le, CmpOp::Gt, CmpOp::Ge] };
            let op = *self.rng.pick(ops);
            if matches!(op, CmpOp::Distinct | CmpOp::NotDistinct) {
                self.tags.insert("is-distinct-from");
            }
            let rhs = if self.cfg.colcol && self.rng.chance(1, 9) {
                match self.pick_col_where(|t| t == ct) {
                    Some(o) => {
                        self.tags.insert("multi-column");
                        Sx::Col(o)
                    }
                    None => self.literal_for(ct),
                }
            } else {
                self.literal_for(ct)
            };
            if self.rng.chance(2, 5) {
                self.tags.insert("cmp-literal-left");
                P::Cmp(rhs, op, lhs)
            } else {
                self.tags.insert("cmp-literal-right");
                P::Cmp(lhs, op, rhs)
            }
        } else if k < 58 {
            // IN list
            let (lhs, ct) = if self.rng.chance(1, 5) { self.column_side() } else { let c = self.pick_col(); self.cur = Some(c); (Sx::Col(c), self.cols[c].ct) };
            let n = if self.rng.chance(1, 12) {
                self.tags.insert("in-list-long");
                21 + self.rng.usize(4)
            } else {
                1 + self.rng.usize(4)
            };
            let mut list = vec![];
            for _ in 0..n {
                list.push(self.literal_for(ct));
            }
            let neg = self.rng.chance(2, 5);
            self.tags.insert(if neg { "not-in-list" } else { "in-list" });
            P::In(lhs, list, neg)
        } else if k < 72 {
            // LIKE
            match self.pick_col_where(|t| t == CT::Str) {
                Some(c) => {
                    let pat = self.rng.pick(LIKE_PATTERNS).to_string();
                    let neg = self.rng.chance(2, 5);
                    let ci = self.cfg.ilike && self.rng.chance(1, 10);
                    self.tags.insert(match (neg, ci) {
                        (false, false) => "like",
                        (true, false) => "not-like",
                        (_, true) => "ilike",
                    });
                    if pat.contains('\\') {
                        self.tags.insert("like-escape");
                    }
                    if pat.starts_with('%') || pat.is_empty() {
                        self.tags.insert("like-empty-prefix");
                    }
                    P::Like { e: Sx::Col(c), pat, neg, ci }
                }
                None => P::IsNull(Sx::Col(self.pick_col()), false),
            }
        } else if k < 86 {
            let neg = self.rng.bool();
            self.tags.insert(if neg { "is-not-null" } else { "is-null" });
            let e = if self.rng.chance(1, 6) { self.column_side().0 } else { Sx::Col(self.pick_col()) };
            P::IsNull(e, neg)
        } else if k < 96 {
            match self.pick_col_where(|t| t == CT::Bool) {
                Some(c) => {
                    self.tags.insert("bool-column");
                    P::BoolCol(c)
                }
                None => P::IsNull(Sx::Col(self.pick_col()), true),
            }
        } else {
            self.tags.insert("constant");
            P::Const(*self.rng.pick(&[Some(true), Some(false), None]))
        }
    }

    pub fn pred(&mut self, depth: usize) -> P {
        if depth == 0 || self.rng.chance(1, 3) {
            return self.leaf();
        }
        match self.rng.below(10) {
            0..=3 => {
                self.tags.insert("and");
                P::And(Box::new(self.pred(depth - 1)), Box::new(self.pred(depth - 1)))
            }
            4..=6 => {
                self.tags.insert("or");
                P::Or(Box::new(self.pred(depth - 1)), Box::new(self.pred(depth - 1)))
            }
            _ => {
                self.tags.insert("not");
                P::Not(Box::new(self.pred(depth - 1)))
            }
        }
    }
}
