//! C22 — statistics-based pruning never skips a container with a matching row; every literal
//! guarantee derived from a predicate holds on every row for which the predicate is true.

#[path = "pg.rs"]
mod pg;

use arrow::array::{Array, ArrayRef, BooleanArray, UInt64Array};
use arrow::datatypes::{DataType, SchemaRef};
use arrow::record_batch::RecordBatch;
use datafusion::prelude::SessionContext;
use datafusion_common::pruning::{PrunableStatistics, PruningStatistics};
use datafusion_common::stats::Precision;
use datafusion_common::{Column, ColumnStatistics, DFSchema, ScalarValue, Statistics};
use datafusion_datasource::PartitionedFile;
use datafusion_expr::simplify::SimplifyContext;
use datafusion_optimizer::simplify_expressions::ExprSimplifier;
use datafusion_physical_expr::utils::{Guarantee, LiteralGuarantee};
use datafusion_physical_expr::PhysicalExpr;
use datafusion_physical_plan::metrics::Count;
use datafusion_pruning::{FilePruner, PruningPredicate, PruningPredicateBuilder};
use pg::*;
use std::collections::{BTreeSet, HashSet};
use std::sync::Arc;
use vcommon::{fp_mix, fp_str, json, Args, Json, Report, Rng};

fn columns() -> Vec<ColSpec> {
    [("a", CT::I32), ("b", CT::I64), ("c", CT::I64), ("x", CT::F64), ("s", CT::Str), ("t", CT::Str), ("k", CT::Bool), ("d", CT::Date), ("m", CT::Dec)]
        .iter()
        .map(|(n, ct)| ColSpec { name: n.to_string(), ct: *ct })
        .collect()
}

const DOM: Dom = Dom { special_floats: true, extremes: true };

// ------------------------------------------------------------------------------------------
// containers and their statistics
// ------------------------------------------------------------------------------------------

type Rows = Vec<Vec<V>>;

fn gen_container(rng: &mut Rng, cols: &[ColSpec], partition_style: bool) -> Rows {
    let n = if partition_style {
        1 + rng.usize(4)
    } else {
        match rng.below(20) {
            0 => 0,
            1 | 2 => 1,
            _ => 2 + rng.usize(11),
        }
    };
    let mut colvals: Vec<Vec<V>> = vec![];
    for c in cols {
        let mode = if partition_style { if rng.chance(1, 6) { 0 } else { 1 } } else { rng.weighted(&[12, 15, 8, 30, 35]) };
        // values come from a narrow per-container pool most of the time, so that containers differ in range
        let pool: Vec<V> = (0..1 + rng.usize(3)).map(|_| gen_value(rng, c.ct, DOM)).collect();
        let narrow = rng.chance(3, 5);
        let single = gen_value(rng, c.ct, DOM);
        let mut vals = vec![];
        for _ in 0..n {
            let v = match mode {
                0 => V::Null,
                1 => single.clone(),
                2 => {
                    if rng.chance(1, 3) {
                        V::Null
                    } else {
                        single.clone()
                    }
                }
                3 => {
                    if narrow {
                        rng.pick(&pool).clone()
                    } else {
                        gen_value(rng, c.ct, DOM)
                    }
                }
                _ => {
                    if rng.chance(1, 4) {
                        V::Null
                    } else if narrow {
                        rng.pick(&pool).clone()
                    } else {
                        gen_value(rng, c.ct, DOM)
                    }
                }
            };
            vals.push(v);
        }
        colvals.push(vals);
    }
    (0..n).map(|r| colvals.iter().map(|cv| cv[r].clone()).collect()).collect()
}

#[derive(Clone, Debug)]
struct ColStat {
    min: Option<V>,
    max: Option<V>,
    nulls: Option<u64>,
    /// the min/max were moved outwards (still valid bounds, not attained)
    loosened: bool,
}

#[derive(Clone, Debug)]
struct CStat {
    rows: Option<u64>,
    cols: Vec<ColStat>,
    /// 0 = exact membership answers, 1 = unknown for this container
    contained_unknown: bool,
    /// answer given for an empty container (either is valid)
    empty_answer: bool,
}

fn exact_stats(rows: &Rows, ncols: usize) -> CStat {
    let mut cols = vec![];
    for c in 0..ncols {
        let nn: Vec<&V> = rows.iter().map(|r| &r[c]).filter(|v| !v.is_null()).collect();
        let min = nn.iter().copied().min_by(|a, b| cmp_same(a, b)).cloned();
        let max = nn.iter().copied().max_by(|a, b| cmp_same(a, b)).cloned();
        cols.push(ColStat { min, max, nulls: Some((rows.len() - nn.len()) as u64), loosened: false });
    }
    CStat { rows: Some(rows.len() as u64), cols, contained_unknown: false, empty_answer: false }
}

fn next_char(c: char) -> Option<char> {
    let mut u = c as u32 + 1;
    if (0xD800..=0xDFFF).contains(&u) {
        u = 0xE000;
    }
    char::from_u32(u)
}

/// a value <= v in the engine's ordering (None = give up)
fn lower(rng: &mut Rng, v: &V, ct: CT) -> Option<V> {
    Some(match (v, ct) {
        (V::I(i), CT::I32 | CT::Date) => V::I((*i - rng.range(1, 5)).max(i32::MIN as i64)),
        (V::I(i), _) => V::I(i.saturating_sub(rng.range(1, 5))),
        (V::F(f), _) => {
            let cands = [f64::NEG_INFINITY, if f.is_finite() { *f - 1.0 } else { f64::NEG_INFINITY }, if *f == 0.0 { -0.0 } else { f64::NEG_INFINITY }, -1e300];
            let c = *rng.pick(&cands);
            if c.total_cmp(f) == std::cmp::Ordering::Greater {
                return None;
            }
            V::F(c)
        }
        (V::S(s), _) => {
            // a (proper or improper) prefix sorts <= the string: models truncated minimum statistics
            let chars: Vec<char> = s.chars().collect();
            let k = rng.usize(chars.len() + 1);
            V::S(chars[..k].iter().collect())
        }
        (V::B(_), _) => V::B(false),
        (V::Dec(d), _) => V::Dec((*d - rng.range(1, 4) as i128 * 25).max(-9_999_999_999)),
        _ => return None,
    })
}

/// a value >= v in the engine's ordering
fn raise(rng: &mut Rng, v: &V, ct: CT) -> Option<V> {
    Some(match (v, ct) {
        (V::I(i), CT::I32 | CT::Date) => V::I((*i + rng.range(1, 5)).min(i32::MAX as i64)),
        (V::I(i), _) => V::I(i.saturating_add(rng.range(1, 5))),
        (V::F(f), _) => {
            let cands = [f64::INFINITY, if f.is_finite() { *f + 1.0 } else { f64::INFINITY }, f64::NAN, 1e300];
            let c = *rng.pick(&cands);
            if c.total_cmp(f) == std::cmp::Ordering::Less {
                return None;
            }
            V::F(c)
        }
        (V::S(s), _) => {
            // truncated maximum statistics: cut to k >= 1 chars and increment the last one; or append
            let chars: Vec<char> = s.chars().collect();
            if chars.is_empty() || rng.chance(1, 3) {
                let mut t = s.clone();
                t.push(*rng.pick(&['a', 'z', '\u{10FFFF}']));
                V::S(t)
            } else {
                let k = 1 + rng.usize(chars.len());
                let mut p: Vec<char> = chars[..k].to_vec();
                match next_char(p[k - 1]) {
                    Some(n) => p[k - 1] = n,
                    None => {
                        // cannot increment: keep the full string and append instead
                        let mut t = s.clone();
                        t.push('a');
                        return Some(V::S(t));
                    }
                }
                V::S(p.into_iter().collect())
            }
        }
        (V::B(_), _) => V::B(true),
        (V::Dec(d), _) => V::Dec((*d + rng.range(1, 4) as i128 * 25).min(9_999_999_999)),
        _ => return None,
    })
}

/// Random weakening; every result is still valid for the container's rows.
fn weaken(rng: &mut Rng, st: &mut CStat, cols: &[ColSpec], level: u32) {
    if level == 0 {
        return;
    }
    let p = if level == 1 { 8 } else { 3 }; // 1/p per entry
    if rng.chance(1, p) {
        st.rows = None;
    }
    if rng.chance(1, p) {
        st.contained_unknown = true;
    }
    for (c, cs) in st.cols.iter_mut().enumerate() {
        let ct = cols[c].ct;
        if rng.chance(1, p) {
            cs.min = None;
        } else if rng.chance(1, p) {
            if let Some(m) = &cs.min {
                if let Some(l) = lower(rng, m, ct) {
                    cs.loosened |= !l.same(m);
                    cs.min = Some(l);
                }
            }
        }
        if rng.chance(1, p) {
            cs.max = None;
        } else if rng.chance(1, p) {
            if let Some(m) = &cs.max {
                if let Some(h) = raise(rng, m, ct) {
                    cs.loosened |= !h.same(m);
                    cs.max = Some(h);
                }
            }
        }
        if rng.chance(1, p) {
            cs.nulls = None;
        }
    }
}

struct TestStats {
    cols: Vec<ColSpec>,
    stats: Vec<CStat>,
    rows: Vec<Rows>,
    /// `contained` answers None altogether
    contained_off: bool,
    /// columns whose statistics are entirely absent
    absent: BTreeSet<usize>,
    /// number of `contained` calls that gave a definite answer for some container
    contained_definite: std::cell::Cell<u64>,
}

impl TestStats {
    fn col_index(&self, column: &Column) -> Option<usize> {
        self.cols.iter().position(|c| c.name == column.name)
    }
    fn bound_array(&self, column: &Column, pick: impl Fn(&ColStat) -> &Option<V>) -> Option<ArrayRef> {
        let c = self.col_index(column)?;
        if self.absent.contains(&c) {
            return None;
        }
        let vals: Vec<V> = self.stats.iter().map(|s| pick(&s.cols[c]).clone().unwrap_or(V::Null)).collect();
        if vals.iter().all(|v| v.is_null()) {
            return None;
        }
        Some(build_array(self.cols[c].ct, &vals))
    }
}

impl PruningStatistics for TestStats {
    fn min_values(&self, column: &Column) -> Option<ArrayRef> {
        self.bound_array(column, |s| &s.min)
    }
    fn max_values(&self, column: &Column) -> Option<ArrayRef> {
        self.bound_array(column, |s| &s.max)
    }
    fn num_containers(&self) -> usize {
        self.stats.len()
    }
    fn null_counts(&self, column: &Column) -> Option<ArrayRef> {
        let c = self.col_index(column)?;
        if self.absent.contains(&c) {
            return None;
        }
        let v: Vec<Option<u64>> = self.stats.iter().map(|s| s.cols[c].nulls).collect();
        if v.iter().all(|x| x.is_none()) {
            return None;
        }
        Some(Arc::new(UInt64Array::from(v)))
    }
    fn row_counts(&self) -> Option<ArrayRef> {
        let v: Vec<Option<u64>> = self.stats.iter().map(|s| s.rows).collect();
        if v.iter().all(|x| x.is_none()) {
            return None;
        }
        Some(Arc::new(UInt64Array::from(v)))
    }
    fn contained(&self, column: &Column, values: &HashSet<ScalarValue>) -> Option<BooleanArray> {
        if self.contained_off {
            return None;
        }
        let c = self.col_index(column)?;
        let ct = self.cols[c].ct;
        // membership is answered only for literals of the column's own type
        if values.iter().any(|v| v.data_type() != ct.arrow()) {
            return None;
        }
        let mut out: Vec<Option<bool>> = vec![];
        for (st, rows) in self.stats.iter().zip(self.rows.iter()) {
            if st.contained_unknown {
                out.push(None);
                continue;
            }
            if rows.is_empty() {
                out.push(Some(st.empty_answer));
                continue;
            }
            let mut all_in = true; // every row non-null and a member
            let mut any_in = false;
            for r in rows {
                if r[c].is_null() {
                    all_in = false;
                    continue;
                }
                if member(values, &r[c], ct) {
                    any_in = true;
                } else {
                    all_in = false;
                }
            }
            out.push(if all_in {
                Some(true)
            } else if !any_in {
                Some(false)
            } else {
                None
            });
        }
        if out.iter().all(|x| x.is_none()) {
            return None;
        }
        self.contained_definite.set(self.contained_definite.get() + 1);
        Some(BooleanArray::from(out))
    }
}

/// membership of a row value in a literal set under the engine's equality (`-0.0 = 0.0`, NaN = NaN)
fn member(values: &HashSet<ScalarValue>, v: &V, ct: CT) -> bool {
    match v {
        V::Null => false,
        V::F(f) => values.iter().any(|l| matches!(l, ScalarValue::Float64(Some(g)) if eng_f64_cmp(*f, *g) == std::cmp::Ordering::Equal)),
        _ => values.contains(&scalar(v, ct)),
    }
}

/// the guarantee would hold under bitwise float membership (the only difference is the sign of zero)
fn zero_sign_only(values: &HashSet<ScalarValue>, v: &V, is_in: bool) -> bool {
    match v {
        V::F(f) if *f == 0.0 => {
            let bitwise = values.contains(&ScalarValue::Float64(Some(*f)));
            if is_in { bitwise } else { !bitwise }
        }
        _ => false,
    }
}

fn stat_json(st: &CStat, cols: &[ColSpec]) -> Json {
    json!({
        "row_count": st.rows,
        "contained": if st.contained_unknown { "unknown" } else { "exact" },
        "columns": cols.iter().zip(st.cols.iter()).map(|(c, s)| json!({
            "col": c.name, "min": s.min.as_ref().map(|v| v.to_json()), "max": s.max.as_ref().map(|v| v.to_json()), "null_count": s.nulls,
        })).collect::<Vec<_>>(),
    })
}

/// DataFusion `Statistics` carrying the same (weakened) knowledge; `inexact` marks entries that are
/// reported as `Precision::Inexact` (a valid bound that the adapter must ignore or treat as a bound).
fn to_statistics(st: &CStat, cols: &[ColSpec], rng: &mut Rng) -> Statistics {
    let mut cs = vec![];
    for (c, s) in cols.iter().zip(st.cols.iter()) {
        let mut col = ColumnStatistics::new_unknown();
        let prec = |v: &Option<V>, loosened: bool, rng: &mut Rng| match v {
            None => Precision::Absent,
            // a bound that is not attained is not an exact min/max in the `Statistics` vocabulary
            Some(v) if loosened || rng.chance(1, 8) => Precision::Inexact(scalar(v, c.ct)),
            Some(v) => Precision::Exact(scalar(v, c.ct)),
        };
        col.min_value = prec(&s.min, s.loosened, rng);
        col.max_value = prec(&s.max, s.loosened, rng);
        col.null_count = match s.nulls {
            None => Precision::Absent,
            Some(n) => Precision::Exact(n as usize),
        };
        cs.push(col);
    }
    Statistics {
        num_rows: match st.rows {
            None => Precision::Absent,
            Some(n) => Precision::Exact(n as usize),
        },
        total_byte_size: Precision::Absent,
        column_statistics: cs,
    }
}

// ------------------------------------------------------------------------------------------
// one case
// ------------------------------------------------------------------------------------------

struct Worker {
    ctx: SessionContext,
    cols: Vec<ColSpec>,
    schema: SchemaRef,
    dfschema: DFSchema,
}

impl Worker {
    fn new() -> Worker {
        let cols = columns();
        let schema = schema_of(&cols);
        let dfschema = DFSchema::try_from(schema.as_ref().clone()).expect("dfschema");
        Worker { ctx: SessionContext::new(), cols, schema, dfschema }
    }
}

thread_local! {
    static WORKER: Worker = Worker::new();
}

fn true_rows(phys: &Arc<dyn PhysicalExpr>, batch: &RecordBatch) -> Result<Vec<bool>, String> {
    let v = phys.evaluate(batch).map_err(|e| e.to_string())?;
    let arr = v.into_array(batch.num_rows()).map_err(|e| e.to_string())?;
    match arr.data_type() {
        DataType::Null => Ok(vec![false; batch.num_rows()]),
        DataType::Boolean => {
            let b = arr.as_any().downcast_ref::<BooleanArray>().ok_or("not boolean")?;
            Ok((0..b.len()).map(|i| b.is_valid(i) && b.value(i)).collect())
        }
        t => Err(format!("predicate evaluated to {t}")),
    }
}

struct CaseIn {
    pred: P,
    tags: BTreeSet<&'static str>,
    containers: Vec<Rows>,
    stats: Vec<CStat>,
    contained_off: bool,
    absent: BTreeSet<usize>,
    partition_style: bool,
    max_in_list: Option<usize>,
    systematic: bool,
}

fn gen_case(rng: &mut Rng, cols: &[ColSpec], pred: Option<P>, systematic: bool) -> CaseIn {
    let partition_style = rng.chance(1, 7);
    let ncont = 8;
    let containers: Vec<Rows> = (0..ncont).map(|_| gen_container(rng, cols, partition_style)).collect();
    let level = rng.weighted(&[3, 4, 3]) as u32;
    let mut stats = vec![];
    for rows in &containers {
        let mut st = exact_stats(rows, cols.len());
        st.empty_answer = rng.bool();
        weaken(rng, &mut st, cols, level);
        stats.push(st);
    }
    let mut absent = BTreeSet::new();
    if level > 0 {
        for c in 0..cols.len() {
            if rng.chance(1, 12) {
                absent.insert(c);
            }
        }
    }
    let contained_off = level > 0 && rng.chance(1, 3);
    let cfg = PredCfg { dom: DOM, max_depth: 3, bool_casts: true, ..PredCfg::default() };
    let (pred, tags) = match pred {
        Some(p) => (p, BTreeSet::from(["aimed"])),
        None => {
            let depth = rng.usize(4);
            let mut g = PredGen::new(rng, cols, &cfg);
            let p = g.pred(depth);
            (p, g.tags)
        }
    };
    let max_in_list = match rng.below(6) {
        0 => Some(3),
        1 => Some(30),
        _ => None,
    };
    CaseIn { pred, tags, containers, stats, contained_off, absent, partition_style, max_in_list, systematic }
}

fn witness(case: &CaseIn, cols: &[ColSpec], variant: &str, phys: &Arc<dyn PhysicalExpr>, pp: Option<&PruningPredicate>, ci: usize, path: &str, note: &str) -> Json {
    json!({
        "predicate": case.pred.text(cols),
        "variant": variant,
        "physical_expr": format!("{phys}"),
        "pruning_expr": pp.map(|p| format!("{}", p.predicate_expr())),
        "literal_guarantees": pp.map(|p| p.literal_guarantees().iter().map(|g| g.to_string()).collect::<Vec<_>>()),
        "path": path,
        "schema": cols.iter().map(|c| format!("{}:{}", c.name, c.ct.name())).collect::<Vec<_>>(),
        "container_rows": rows_json(&case.containers[ci]),
        "container_statistics": stat_json(&case.stats[ci], cols),
        "contained_disabled": case.contained_off,
        "columns_without_statistics": case.absent.iter().map(|c| cols[*c].name.clone()).collect::<Vec<_>>(),
        "max_in_list_size": case.max_in_list,
        "observed": note,
        "expected": "a container holding a row on which the predicate evaluates to TRUE must be kept",
    })
}

/// Precise root-cause key for a wrongly pruned container (so that distinct causes surface separately).
fn has_negation(p: &P) -> bool {
    fn sx(e: &Sx) -> bool {
        match e {
            Sx::Neg(_) => true,
            Sx::Cast(x, _) | Sx::TryCast(x, _) => sx(x),
            Sx::Ar(a, _, b) => sx(a) || sx(b),
            _ => false,
        }
    }
    match p {
        P::Cmp(a, _, b) => sx(a) || sx(b),
        P::In(e, l, _) => sx(e) || l.iter().any(sx),
        P::IsNull(e, _) | P::Like { e, .. } => sx(e),
        P::Not(x) => has_negation(x),
        P::And(a, b) | P::Or(a, b) => has_negation(a) || has_negation(b),
        _ => false,
    }
}

/// Root-cause key of a wrongly pruned container. Each key names a separately reported engine deviation; "general"
/// (= not explained by any of them) keeps the statistics adapter as its signature.
fn classify(case: &CaseIn, path: &str, ci: usize, phys: &str, pruning: &str) -> &'static str {
    let rows = &case.containers[ci];
    let has_zero = rows.iter().any(|r| r.iter().any(|v| matches!(v, V::F(f) if *f == 0.0) || matches!(v, V::Dec(0))));
    let has_int_min = rows.iter().any(|r| r.iter().any(|v| matches!(v, V::I(i) if *i == i64::MIN || *i == i32::MIN as i64)));
    let text = case.pred.text(&columns());
    if phys.contains("CAST(m@") && !pruning.contains("CAST(") && (phys.contains("AS Int64)") || phys.contains("AS Int32)")) {
        // the simplifier rewrote `CAST(decimal AS integer) <op> n` into `decimal <op> n.00`; the cast truncates,
        // so the two are not equivalent (-0.25 casts to 0)
        "decimal-to-int-cast-unwrapped-in-comparison"
    } else if text.contains("AS bool)") {
        // CAST(<numeric> AS BOOLEAN) is not monotone (negative and positive map to true, 0 to false)
        "cast-to-boolean-not-monotone"
    } else if path == "PartitionPruningStatistics" && has_zero {
        // its `contained` compares with the raw arrow `eq` kernel (bitwise), the engine's `=` has -0.0 = 0.0
        "negative-zero-membership"
    } else if has_zero && has_zero_in_list(&case.pred) {
        // InListExpr's set lookup distinguishes -0.0 from +0.0 (x NOT IN (0.0) is TRUE for -0.0) while `=`/`<>`, which the
        // min/max rewrite and exact membership answers use, treat them as equal
        "float-zero-sign-in-list-evaluation"
    } else if text.contains("TRY_CAST(") && text.contains("DISTINCT FROM") {
        // TRY_CAST(col) can be NULL for a non-NULL col (overflow); the IS [NOT] DISTINCT FROM rewrite decides
        // NULL-ness from the column's null count
        "try-cast-null-ignored-by-distinct-from-rewrite"
    } else if has_int_min && has_negation(&case.pred) {
        // -(MIN) wraps to MIN; the rewrite `-col <op> k  =>  col <flipped op> -k` assumes mathematical negation
        "negation-overflow-wraps"
    } else {
        "general"
    }
}

fn run_case(rep: &Report, w: &Worker, case: &CaseIn, selftest: bool, rng: &mut Rng) {
    let cols = &w.cols;
    let expr = case.pred.expr(cols);
    // variant 1: type-coerced only; variant 2: coerced + logical simplification (what scans do)
    let mut variants: Vec<(&str, Arc<dyn PhysicalExpr>)> = vec![];
    match w.ctx.create_physical_expr(expr.clone(), &w.dfschema) {
        Ok(p) => variants.push(("coerced", p)),
        Err(_) => {
            rep.skip("predicate-does-not-plan");
            rep.case(0, false);
            return;
        }
    }
    let sctx = SimplifyContext::builder().with_schema(Arc::new(w.dfschema.clone())).build();
    let simplifier = ExprSimplifier::new(sctx);
    if let Ok(coerced) = simplifier.coerce(expr.clone(), &w.dfschema) {
        if let Ok(simplified) = simplifier.simplify(coerced) {
            if let Ok(p) = w.ctx.create_physical_expr(simplified, &w.dfschema) {
                if format!("{p}") != format!("{}", variants[0].1) {
                    variants.push(("simplified", p));
                }
            }
        }
    }
    let batches: Vec<RecordBatch> = case.containers.iter().map(|r| rows_to_batch(&w.schema, cols, r)).collect();
    let data_fp = fp_str(&serde_json::to_string(&case.containers.iter().map(|c| rows_json(c)).collect::<Vec<_>>()).unwrap_or_default());

    for (vname, phys) in &variants {
        let fp = fp_mix(fp_mix(fp_str(&format!("{phys}")), data_fp), fp_str(&format!("{:?}", case.stats)));
        // the oracle: which rows satisfy p (physical evaluator), per container
        let truth: Vec<Option<Vec<bool>>> = batches.iter().map(|b| vcommon::par::guard(|| true_rows(phys, b)).ok().and_then(|r| r.ok())).collect();
        for t in &truth {
            if t.is_none() {
                rep.count("containers_predicate_eval_error", 1);
            }
        }
        let has_match = |ci: usize| truth[ci].as_ref().map(|t| t.iter().any(|x| *x));

        // ---- literal guarantees -------------------------------------------------------------
        let guarantees = LiteralGuarantee::analyze(phys);
        if !guarantees.is_empty() {
            rep.count("predicates_with_guarantees", 1);
        }
        for g in &guarantees {
            let Some(c) = cols.iter().position(|x| x.name == g.column.name) else { continue };
            let ct = cols[c].ct;
            if g.literals.iter().any(|l| l.data_type() != ct.arrow()) {
                rep.count("guarantee_literal_of_other_type", 1);
                continue;
            }
            for (ci, rows) in case.containers.iter().enumerate() {
                let Some(t) = &truth[ci] else { continue };
                for (ri, r) in rows.iter().enumerate() {
                    if !t[ri] {
                        continue;
                    }
                    rep.count("guarantee_row_checks", 1);
                    let member = member(&g.literals, &r[c], ct);
                    let mut holds = match g.guarantee {
                        Guarantee::In => member,
                        Guarantee::NotIn => !member,
                    };
                    if !holds && zero_sign_only(&g.literals, &r[c], matches!(g.guarantee, Guarantee::In)) {
                        // `=` treats -0.0 and +0.0 as equal, IN-list sets and `contained` implementations
                        // compare bitwise: which membership notion a guarantee means is left open
                        rep.count("guarantee_zero_sign_ambiguous", 1);
                        holds = true;
                    }
                    if selftest && case.systematic {
                        holds = false;
                    }
                    if !holds {
                        rep.count("unclassified_violations", 1);
                        rep.violation(
                            "literal-guarantee-false-on-matching-row",
                            json!({"predicate": case.pred.text(cols), "variant": vname, "physical_expr": format!("{phys}"), "guarantee": g.to_string(), "row": rows_json(&[r.clone()]), "schema": cols.iter().map(|c| c.name.clone()).collect::<Vec<_>>(),
                                "expected": "the predicate is TRUE on this row, so every derived guarantee must hold on it"}),
                        );
                    }
                }
            }
        }

        // ---- pruning with the harness' statistics -------------------------------------------
        let mut b = PruningPredicateBuilder::new().with_file_schema(w.schema.clone());
        if let Some(m) = case.max_in_list {
            b = b.with_max_in_list_size(m);
        }
        let pp = match vcommon::par::guard(|| b.try_build(phys.clone())) {
            Ok(Ok(pp)) => pp,
            Ok(Err(_)) => {
                rep.skip("pruning-predicate-does-not-build");
                rep.case(fp, false);
                continue;
            }
            Err(panic) => {
                rep.case(fp, true);
                rep.violation("panic-building-pruning-predicate", json!({"predicate": case.pred.text(cols), "physical_expr": format!("{phys}"), "panic": panic}));
                continue;
            }
        };
        if pp.always_true() {
            rep.count("pruning_predicate_always_true", 1);
        }
        let mut pruned_any = false;
        let mut kept_any = false;
        let check = |path: &str, keep: Result<Vec<bool>, String>, rep: &Report, pruned_any: &mut bool, kept_any: &mut bool| {
            let mut keep = match keep {
                Ok(k) => k,
                Err(_) => {
                    rep.count(&format!("prune_error:{path}"), 1);
                    return;
                }
            };
            if keep.len() != case.containers.len() {
                rep.violation("prune-result-length", json!({"predicate": case.pred.text(cols), "path": path, "len": keep.len()}));
                return;
            }
            if selftest {
                if let Some(ci) = (0..keep.len()).find(|ci| has_match(*ci) == Some(true)) {
                    keep[ci] = false; // corrupt the observed output
                }
            }
            for ci in 0..keep.len() {
                if keep[ci] {
                    *kept_any = true;
                    rep.count("containers_kept", 1);
                    if has_match(ci) == Some(false) {
                        rep.count("containers_kept_without_match", 1);
                    }
                } else {
                    *pruned_any = true;
                    rep.count("containers_pruned", 1);
                    rep.count(&format!("pruned_via:{path}"), 1);
                    if has_match(ci) == Some(true) {
                        let note = format!("prune() returned false (skip) for this container although {} of its {} rows satisfy the predicate", truth[ci].as_ref().map(|t| t.iter().filter(|x| **x).count()).unwrap_or(0), case.containers[ci].len());
                        let class = classify(case, path, ci, &format!("{phys}"), &format!("{}", pp.predicate_expr()));
                        // classified root causes carry their own signature; everything else is keyed by the statistics adapter
                        let sig = if class == "general" {
                            rep.count("unclassified_violations", 1);
                            format!("pruned-container-with-matching-row/{path}")
                        } else {
                            format!("pruned-container-with-matching-row/{class}")
                        };
                        rep.violation(&sig, witness(case, cols, vname, phys, Some(&pp), ci, path, &note));
                    }
                }
            }
        };

        // path 1: PruningStatistics implemented by the harness
        if !case.partition_style || rng.bool() {
            let ts = TestStats { cols: cols.clone(), stats: case.stats.clone(), rows: case.containers.clone(), contained_off: case.contained_off, absent: case.absent.clone(), contained_definite: Default::default() };
            let r = vcommon::par::guard(|| pp.prune(&ts));
            match r {
                Ok(r) => check("PruningStatistics", r.map_err(|e| e.to_string()), rep, &mut pruned_any, &mut kept_any),
                Err(panic) => rep.violation("panic-in-prune", json!({"predicate": case.pred.text(cols), "physical_expr": format!("{phys}"), "panic": panic})),
            }
            rep.count("contained_calls_with_definite_answer", ts.contained_definite.get());
        }

        // path 2: PrunableStatistics over datafusion Statistics, and FilePruner per container
        let stats: Vec<Arc<Statistics>> = case.stats.iter().map(|s| Arc::new(to_statistics(s, cols, rng))).collect();
        {
            let ps = PrunableStatistics::new(stats.clone(), w.schema.clone());
            match vcommon::par::guard(|| pp.prune(&ps)) {
                Ok(r) => check("PrunableStatistics", r.map_err(|e| e.to_string()), rep, &mut pruned_any, &mut kept_any),
                Err(panic) => rep.violation("panic-in-prune", json!({"predicate": case.pred.text(cols), "physical_expr": format!("{phys}"), "panic": panic})),
            }
        }
        {
            let mut keep = vec![];
            let mut failed = None;
            for st in &stats {
                let pf = PartitionedFile::new("container.parquet", 1).with_statistics(st.clone());
                match FilePruner::try_new(phys.clone(), &w.schema, &pf, Count::new()) {
                    None => {
                        rep.count("file_pruner_declined", 1);
                        keep.push(true);
                    }
                    Some(mut fpr) => match vcommon::par::guard(|| fpr.should_prune()) {
                        Ok(Ok(skip)) => keep.push(!skip),
                        Ok(Err(e)) => {
                            failed = Some(e.to_string());
                            break;
                        }
                        Err(panic) => {
                            rep.violation("panic-in-file-pruner", json!({"predicate": case.pred.text(cols), "physical_expr": format!("{phys}"), "panic": panic}));
                            failed = Some(panic);
                            break;
                        }
                    },
                }
            }
            check("FilePruner", match failed { None => Ok(keep), Some(e) => Err(e) }, rep, &mut pruned_any, &mut kept_any);
        }

        // path 3: partition-value statistics (every column constant per container)
        if case.partition_style {
            #[allow(deprecated)]
            {
                use datafusion_common::pruning::PartitionPruningStatistics;
                let values: Vec<Vec<ScalarValue>> = case
                    .containers
                    .iter()
                    .map(|rows| cols.iter().enumerate().map(|(c, spec)| scalar(&rows[0][c], spec.ct)).collect())
                    .collect();
                let fields = w.schema.fields().iter().cloned().collect::<Vec<_>>();
                if let Ok(pstats) = PartitionPruningStatistics::try_new(values, fields) {
                    match vcommon::par::guard(|| pp.prune(&pstats)) {
                        Ok(r) => check("PartitionPruningStatistics", r.map_err(|e| e.to_string()), rep, &mut pruned_any, &mut kept_any),
                        Err(panic) => rep.violation("panic-in-prune", json!({"predicate": case.pred.text(cols), "physical_expr": format!("{phys}"), "panic": panic})),
                    }
                }
            }
        }

        let nontrivial = pruned_any && kept_any;
        rep.case(fp, nontrivial);
        if nontrivial {
            rep.count("predicates_pruning_some_not_all", 1);
        }
        for t in &case.tags {
            rep.count(&format!("shape:{t}"), 1);
            if pruned_any {
                rep.seen("shapes_with_pruning", t);
            }
        }
        if nontrivial && rep.want_sample() && case.tags.len() >= 3 {
            rep.sample(json!({"predicate": case.pred.text(cols), "variant": vname, "pruning_expr": format!("{}", pp.predicate_expr()), "guarantees": pp.literal_guarantees().iter().map(|g| g.to_string()).collect::<Vec<_>>()}));
        }
    }
}

// ------------------------------------------------------------------------------------------
// aimed predicates (systematic part)
// ------------------------------------------------------------------------------------------

fn aimed(cols: &[ColSpec]) -> Vec<P> {
    let ix = |n: &str| cols.iter().position(|c| c.name == n).unwrap();
    let c = |n: &str| Sx::Col(ix(n));
    let li = |i: i64, ct: CT| Sx::Lit(V::I(i), ct);
    let ls = |s: &str| Sx::Lit(V::S(s.into()), CT::Str);
    let lf = |f: f64| Sx::Lit(V::F(f), CT::F64);
    let cmp = |l: Sx, op: CmpOp, r: Sx| P::Cmp(l, op, r);
    let not = |p: P| P::Not(Box::new(p));
    let and = |a: P, b: P| P::And(Box::new(a), Box::new(b));
    let or = |a: P, b: P| P::Or(Box::new(a), Box::new(b));
    let like = |n: &str, pat: &str, neg: bool| P::Like { e: c(n), pat: pat.into(), neg, ci: false };
    let inl = |n: &str, ct: CT, vs: &[i64], neg: bool| P::In(c(n), vs.iter().map(|v| li(*v, ct)).collect(), neg);
    let mut v = vec![];
    for op in [CmpOp::Eq, CmpOp::Ne, CmpOp::Lt, CmpOp::Le, CmpOp::Gt, CmpOp::Ge, CmpOp::Distinct, CmpOp::NotDistinct] {
        v.push(cmp(c("a"), op, li(1, CT::I32)));
        v.push(cmp(li(1, CT::I32), op, c("a")));
        v.push(cmp(c("b"), op, Sx::Lit(V::Null, CT::I64)));
        v.push(cmp(c("x"), op, lf(0.0)));
        v.push(cmp(c("x"), op, lf(f64::NAN)));
        v.push(cmp(c("s"), op, ls("foo")));
        v.push(cmp(c("m"), op, Sx::Lit(V::Dec(100), CT::Dec)));
        v.push(cmp(c("d"), op, li(0, CT::Date)));
        v.push(cmp(c("k"), op, Sx::Lit(V::B(true), CT::Bool)));
        v.push(cmp(Sx::Cast(Box::new(c("b")), CT::I32), op, li(1, CT::I32)));
        v.push(cmp(Sx::Cast(Box::new(c("x")), CT::I64), op, li(1, CT::I64)));
        v.push(cmp(Sx::Cast(Box::new(c("a")), CT::Bool), op, Sx::Lit(V::B(true), CT::Bool)));
        v.push(cmp(Sx::TryCast(Box::new(c("s")), CT::I64), op, li(1, CT::I64)));
        v.push(cmp(Sx::Neg(Box::new(c("a"))), op, li(1, CT::I32)));
        v.push(cmp(Sx::Ar(Box::new(c("a")), ArOp::Add, Box::new(li(1, CT::I32))), op, li(1, CT::I32)));
        // stacked order-reversing / order-preserving wrappers: each layer of the rewrite must carry the
        // comparison flip of the layers below it
        for k in [-5i64, -1, 0, 1, 5] {
            v.push(cmp(Sx::Cast(Box::new(Sx::Neg(Box::new(c("a")))), CT::I64), op, li(k, CT::I64)));
            v.push(cmp(Sx::TryCast(Box::new(Sx::Neg(Box::new(c("a")))), CT::I64), op, li(k, CT::I64)));
            v.push(cmp(Sx::Neg(Box::new(Sx::Cast(Box::new(c("a")), CT::I64))), op, li(k, CT::I64)));
            v.push(cmp(Sx::Neg(Box::new(Sx::Neg(Box::new(c("a"))))), op, li(k, CT::I32)));
        }
        v.push(cmp(c("b"), op, c("c")));
        v.push(not(cmp(c("a"), op, li(1, CT::I32))));
    }
    for neg in [false, true] {
        v.push(inl("a", CT::I32, &[1], neg));
        v.push(inl("a", CT::I32, &[1, 2], neg));
        v.push(inl("b", CT::I64, &(0..20).collect::<Vec<_>>(), neg));
        v.push(inl("b", CT::I64, &(0..21).collect::<Vec<_>>(), neg));
        v.push(P::In(c("a"), vec![li(1, CT::I32), Sx::Lit(V::Null, CT::I32)], neg));
        v.push(P::In(c("s"), vec![ls("foo"), ls("a")], neg));
        for pat in LIKE_PATTERNS {
            v.push(like("s", pat, neg));
        }
        v.push(P::IsNull(c("a"), neg));
        v.push(not(P::IsNull(c("a"), neg)));
        v.push(P::IsNull(Sx::Cast(Box::new(c("a")), CT::I64), neg));
        v.push(and(P::IsNull(c("a"), neg), cmp(c("b"), CmpOp::Gt, li(0, CT::I64))));
        v.push(or(P::IsNull(c("a"), neg), cmp(c("a"), CmpOp::Eq, li(2, CT::I32))));
    }
    v.push(P::BoolCol(ix("k")));
    v.push(not(P::BoolCol(ix("k"))));
    v.push(not(not(P::BoolCol(ix("k")))));
    v.push(not(or(cmp(c("a"), CmpOp::Lt, li(1, CT::I32)), P::IsNull(c("a"), false))));
    v.push(and(cmp(c("a"), CmpOp::Eq, li(1, CT::I32)), cmp(c("a"), CmpOp::Eq, li(2, CT::I32))));
    v.push(and(cmp(c("a"), CmpOp::Ne, li(1, CT::I32)), cmp(c("a"), CmpOp::Ne, li(2, CT::I32))));
    v.push(or(cmp(c("a"), CmpOp::Eq, li(1, CT::I32)), cmp(c("a"), CmpOp::Eq, li(2, CT::I32))));
    v.push(or(and(cmp(c("a"), CmpOp::Eq, li(1, CT::I32)), cmp(c("b"), CmpOp::Eq, li(2, CT::I64))), and(cmp(c("a"), CmpOp::Eq, li(2, CT::I32)), cmp(c("b"), CmpOp::Eq, li(3, CT::I64)))));
    v.push(or(cmp(c("a"), CmpOp::Ne, li(1, CT::I32)), cmp(c("a"), CmpOp::Ne, li(2, CT::I32))));
    v.push(P::Const(Some(false)));
    v.push(P::Const(None));
    v.push(and(P::Const(None), cmp(c("a"), CmpOp::Eq, li(1, CT::I32))));
    v
}

fn run(args: &Args) -> i32 {
    let rep = Report::new("C22", "exploration", args);
    rep.set_rule("case = (predicate variant [type-coerced | +simplified], 8 containers of 0-12 rows over 9 typed columns, statistics computed exactly from the rows and randomly weakened) pruned through PruningPredicate with the harness' PruningStatistics, PrunableStatistics, FilePruner and (constant-column containers) PartitionPruningStatistics; distinct = hash(physical predicate, rows, statistics); non-trivial = at least one container pruned and at least one kept");
    rep.assume("the physical evaluator (create_physical_expr + evaluate) decides which rows satisfy the predicate (validated by C33)");
    rep.assume("statistics are valid by construction: min/max are the extreme non-null values in the engine's ordering (IEEE totalOrder for floats, bytes for strings) or weaker bounds, counts exact or unknown, membership answers exact or unknown");
    let selftest = args.opt_u64("selftest", 0) == 1;
    let scale = match args.stage.as_str() {
        "miri" => 100,
        "memcheck" => 10,
        _ => 1,
    };
    let cols = columns();
    let aimed_preds = aimed(&cols);
    let reps = args.bound("aimed_rounds", 6, 30) / if scale > 1 { 6 } else { 1 };
    let n_aimed = aimed_preds.len() as u64 * reps.max(1);
    vcommon::par::run(args.workers, 0..n_aimed, |i| {
        WORKER.with(|w| {
            let mut rng = Rng::derive(0xC22, &[0, i]);
            let p = aimed_preds[(i % aimed_preds.len() as u64) as usize].clone();
            let case = gen_case(&mut rng, &w.cols, Some(p), true);
            if let Err(panic) = vcommon::par::guard(|| run_case(&rep, w, &case, selftest, &mut rng)) {
                rep.violation("harness-or-engine-panic", json!({"predicate": case.pred.text(&w.cols), "panic": panic}));
            }
        })
    });
    rep.obligation("aimed:some-containers-pruned", rep.get_count("containers_pruned") > 0, "the aimed predicates must prune some containers");
    rep.obligation("aimed:pruned-via-contained", rep.get_count("contained_calls_with_definite_answer") > 0, "membership answers must be exercised");
    let n_rand = args.bound("predicates", 10_000, 400_000) / scale;
    vcommon::par::run(args.workers, 0..n_rand, |i| {
        if rep.get_count("unclassified_violations") > 40 {
            return;
        }
        WORKER.with(|w| {
            let mut rng = Rng::derive(args.seed, &[22, 1, i]);
            let case = gen_case(&mut rng, &w.cols, None, false);
            if let Err(panic) = vcommon::par::guard(|| run_case(&rep, w, &case, selftest, &mut rng)) {
                rep.violation("harness-or-engine-panic", json!({"predicate": case.pred.text(&w.cols), "panic": panic}));
            }
        })
    });
    for path in ["PruningStatistics", "PrunableStatistics", "FilePruner", "PartitionPruningStatistics"] {
        rep.obligation(&format!("pruned-via:{path}"), rep.get_count(&format!("pruned_via:{path}")) > 0, "every statistics adapter must prune something");
    }
    rep.obligation("some-kept-and-some-pruned", rep.get_count("predicates_pruning_some_not_all") >= 20, "non-trivial cases (one container pruned, one kept) must occur");
    rep.obligation("guarantees-checked", rep.get_count("guarantee_row_checks") > 0, "literal guarantees must be checked on matching rows");
    rep.finish()
}

fn main() {
    let args = Args::parse();
    vcommon::par::quiet_panics();
    std::process::exit(run(&args));
}
