//! C52: qualified names round-trip through their quoted text form.
//!
//! Code under test (real, public API of datafusion-common):
//!   * `TableReference::{bare,partial,full}` -> `to_quoted_string()` -> `TableReference::parse_str`
//!   * `Column { relation: Some(..), name }` -> `quoted_flat_name()` -> `Column::from_qualified_name`
//!   * `utils::quote_identifier` (+ `parse_identifiers_normalized(.., false)`, which is `pub(crate)`
//!     and therefore reached through `parse_str` / `from_qualified_name`, its only callers)
//!
//! Oracle: identity (variant and every part equal, byte for byte).
//!
//! Domain asserted: identifiers with at least one character ("any characters and letter case").
//! The EMPTY identifier is representable (`TableReference::partial("a", "")`) but
//! `quote_identifier("")` renders it as nothing, SQL has no zero-length identifiers and neither the
//! docs nor the property statement promise anything for it: it is exercised and *counted* as an
//! observation, never reported as a violation.
//!
//! Systematic part (seed independent): exhaustive over the alphabet {a, A, ., ", space, é} for
//! identifiers of length 1..=3 and 1..=3 parts (3-part product capped in quick, complete in
//! thorough), columns with 1..=3-part relations. Then seeded random longer identifiers (keywords,
//! digits first, quotes of other kinds, control characters, non-BMP unicode).

use datafusion_common::utils::quote_identifier;
use datafusion_common::{Column, TableReference};
use std::sync::atomic::{AtomicBool, Ordering};
use vcommon::par::guard;
use vcommon::{fp_mix, fp_str, json, Args, Report, Rng, Tier};

const ALPHABET: [char; 6] = ['a', 'A', '.', '"', ' ', 'é'];

fn idents_up_to(len: usize) -> Vec<String> {
    let mut out: Vec<String> = vec![];
    let mut frontier: Vec<String> = vec![String::new()];
    for _ in 0..len {
        let mut next = vec![];
        for f in &frontier {
            for c in ALPHABET {
                let mut s = f.clone();
                s.push(c);
                next.push(s);
            }
        }
        out.extend(next.iter().cloned());
        frontier = next;
    }
    out
}

fn make_ref(parts: &[&str]) -> TableReference {
    match parts {
        [t] => TableReference::bare(*t),
        [s, t] => TableReference::partial(*s, *t),
        [c, s, t] => TableReference::full(*c, *s, *t),
        _ => unreachable!("1..=3 parts"),
    }
}

fn variant(r: &TableReference) -> &'static str {
    match r {
        TableReference::Bare { .. } => "bare",
        TableReference::Partial { .. } => "partial",
        TableReference::Full { .. } => "full",
    }
}

/// needs the quoting path (mirrors nothing in the code under test; only classifies cases)
fn plain(s: &str) -> bool {
    let mut ch = s.chars();
    match ch.next() {
        Some(c) if c.is_ascii_lowercase() || c == '_' => {}
        _ => return false,
    }
    ch.all(|c| c.is_ascii_lowercase() || c.is_ascii_digit() || c == '_')
}

#[derive(Default)]
struct Local {
    refs: [u64; 3],
    cols: [u64; 3],
    nontrivial: Vec<u64>,
    quoted_parts: u64,
    plain_parts: u64,
    empty_ok: u64,
    empty_differs: u64,
}

struct Ctx<'a> {
    rep: &'a Report,
    corrupt: &'a AtomicBool,
}

/// One table reference (1..=3 parts).
fn check_ref(cx: &Ctx, parts: &[&str], loc: &mut Local) {
    let has_empty = parts.iter().any(|p| p.is_empty());
    let r = make_ref(parts);
    let res = guard(|| {
        let text = r.to_quoted_string();
        let back = TableReference::parse_str(&text);
        (text, back)
    });
    if has_empty {
        match res {
            Ok((_, back)) if back == r => loc.empty_ok += 1,
            Ok((text, back)) => {
                loc.empty_differs += 1;
                if cx.rep.seen_count("observed (not asserted): empty identifier does not round-trip") < 12 {
                    cx.rep.seen(
                        "observed (not asserted): empty identifier does not round-trip",
                        &format!("{}: parts {:?} -> text {:?} -> {} {:?}", variant(&r), parts, text, variant(&back), back.to_vec()),
                    );
                }
            }
            Err(_) => loc.empty_differs += 1,
        }
        return;
    }
    loc.refs[parts.len() - 1] += 1;
    let any_quoted = parts.iter().any(|p| !plain(p));
    for p in parts {
        if plain(p) {
            loc.plain_parts += 1;
        } else {
            loc.quoted_parts += 1;
        }
    }
    match res {
        Ok((text, mut back)) => {
            if any_quoted && cx.corrupt.swap(false, Ordering::Relaxed) {
                // selftest: as if the quotes had been ignored when reading the text back
                back = TableReference::bare(text.to_ascii_lowercase());
            }
            if any_quoted {
                loc.nontrivial.push(fp_mix(1, fp_str(&text)));
            }
            if back != r {
                cx.rep.violation(
                    &format!("table-reference-roundtrip/{}", variant(&r)),
                    json!({"parts": parts, "variant": variant(&r), "quoted_text": text,
                           "reparsed_variant": variant(&back), "reparsed_parts": back.to_vec()}),
                );
            } else if any_quoted && parts.len() == 3 && cx.rep.want_sample() {
                cx.rep.sample(json!({"parts": parts, "quoted_text": text, "reparsed": back.to_vec()}));
            }
        }
        Err(msg) => cx.rep.violation("roundtrip-panic/table-reference", json!({"parts": parts, "variant": variant(&r), "panic": msg})),
    }
}

/// One qualified column: relation with 1..=3 parts + column name.
fn check_col(cx: &Ctx, rel: &[&str], name: &str, loc: &mut Local) {
    if name.is_empty() || rel.iter().any(|p| p.is_empty()) {
        return; // empty identifiers are observed through check_ref only
    }
    let mut col = Column::new_unqualified(name);
    col.relation = Some(make_ref(rel));
    loc.cols[rel.len() - 1] += 1;
    let any_quoted = !plain(name) || rel.iter().any(|p| !plain(p));
    let res = guard(|| {
        let text = col.quoted_flat_name();
        let back = Column::from_qualified_name(text.clone());
        (text, back)
    });
    match res {
        Ok((text, back)) => {
            if any_quoted {
                loc.nontrivial.push(fp_mix(2, fp_str(&text)));
            }
            if back.relation != col.relation || back.name != col.name {
                cx.rep.violation(
                    &format!("column-roundtrip/{}-part-relation", rel.len()),
                    json!({"relation_parts": rel, "name": name, "quoted_flat_name": text,
                           "reparsed_relation": back.relation.as_ref().map(|r| r.to_vec()), "reparsed_name": back.name}),
                );
            }
        }
        Err(msg) => cx.rep.violation("roundtrip-panic/column", json!({"relation_parts": rel, "name": name, "panic": msg})),
    }
}

const WORDS: [&str; 48] = [
    "select", "SELECT", "from", "table", "Table", "where", "null", "NULL", "true", "false", "group", "order", "by", "as", "join",
    "on", "values", "user", "current_date", "current_user", "end", "case", "all", "distinct", "interval", "timestamp",
    "_", "_x", "a_1", "x1", "1a", "9", "0x10", "1e5", "$1", "@v", "*", "count(*)", "a-b", "a--b", "a/*b*/c", "a;b", "n", "x", "e",
    "b", "u&", "r",
];
const CHARS: [char; 40] = [
    'a', 'b', 'z', 'A', 'Z', '0', '9', '_', '.', '.', '"', '"', ' ', '\t', '\n', '\'', '`', '\\', '[', ']', '(', ')', ',', ';', '-',
    '/', '*', '$', '@', '#', ':', '%', 'é', 'É', 'ß', 'İ', '漢', '😀', '\u{301}', '\u{a0}',
];

/// One representative (or a few) of many Unicode general categories: the quoting decision
/// ("may this identifier be written bare?") must agree with what the SQL tokenizer accepts in a
/// bare identifier for *every* character class, not only ASCII.
const UNICODE_CLASSES: [char; 44] = [
    '\u{0663}', '\u{ff10}', '\u{09e9}', // Nd: arabic-indic three, fullwidth zero, bengali three
    '\u{b2}', '\u{b3}', '\u{bd}', '\u{2460}', '\u{2074}', // No: superscripts, one half, circled one
    '\u{2167}', '\u{3007}', // Nl: roman numeral eight, ideographic zero
    '\u{f1}', '\u{436}', '\u{1c6}', '\u{b5}', '\u{17f}', // Ll
    '\u{416}', '\u{1c4}', '\u{130}', // Lu
    '\u{1c5}', // Lt
    '\u{2b0}', // Lm
    '\u{5d0}', '\u{6f22}', '\u{e01}', // Lo
    '\u{301}', '\u{93f}', // Mn, Mc
    '\u{203f}', '\u{ff3f}', // Pc (connector punctuation)
    '\u{2010}', '\u{2014}', // Pd
    '\u{20ac}', '\u{b1}', '\u{a9}', // Sc, Sm, So
    '\u{a0}', '\u{3000}', '\u{2003}', // Zs
    '\u{200d}', '\u{feff}', '\u{ad}', // Cf
    '\u{1f600}', '\u{1d7d8}', // astral: emoji, mathematical double-struck zero (Nd)
    '\u{2028}', '\u{85}', '\u{7f}', '\u{1}', // separators / controls
];

fn random_ident(rng: &mut Rng) -> String {
    match rng.below(12) {
        10 | 11 => {
            // plain lower-case identifier with one character of a chosen Unicode class at a chosen position
            let n = 1 + rng.usize(6);
            let mut v: Vec<char> = (0..n).map(|i| if i > 0 && rng.chance(1, 5) { (b'0' + rng.below(10) as u8) as char } else if rng.chance(1, 8) { '_' } else { (b'a' + rng.below(26) as u8) as char }).collect();
            let c = *rng.pick(&UNICODE_CLASSES);
            let pos = match rng.below(3) {
                0 => 0,
                1 => v.len(),
                _ => rng.usize(v.len() + 1),
            };
            v.insert(pos, c);
            v.into_iter().collect()
        }
        0 | 1 => rng.pick(&WORDS).to_string(),
        2 => {
            // keyword decorated with a special character
            let mut s = rng.pick(&WORDS).to_string();
            let c = *rng.pick(&CHARS);
            if rng.bool() {
                s.push(c);
            } else {
                s.insert(0, c);
            }
            s
        }
        3 => {
            // plain lower-case identifier (the unquoted path)
            let n = 1 + rng.usize(12);
            (0..n).map(|i| if i > 0 && rng.chance(1, 4) { (b'0' + rng.below(10) as u8) as char } else if rng.chance(1, 8) { '_' } else { (b'a' + rng.below(26) as u8) as char }).collect()
        }
        4 => {
            // only quotes and dots
            let n = 1 + rng.usize(8);
            (0..n).map(|_| if rng.bool() { '"' } else { '.' }).collect()
        }
        _ => {
            let n = 1 + rng.usize(24);
            (0..n).map(|_| *rng.pick(&CHARS)).collect()
        }
    }
}

enum Work {
    /// 1- and 2-part references and Bare-relation columns with first part `ids[i]`, second part from ids[..partners]
    Pairs { i: usize, partners: usize },
    /// 3-part references (and Partial-relation columns) with first part `ids[i]`, remaining parts from ids[..limit]
    Triples { i: usize, limit: usize },
    /// 3-part references where exactly one position ranges over all identifiers and the others over length-1 ones
    OneLong { pos: usize },
    /// Full-relation columns (4 identifiers) over length-1 identifiers (+ a long one per position)
    Quads { small: bool },
    /// empty identifier in every position
    Empty { small: bool },
    /// seeded random triples from the complete identifier set (quick only; thorough is complete)
    SampledTriples { chunk: u64, n: usize },
    Random { chunk: u64, n: usize },
}

fn run(args: &Args) -> i32 {
    let rep = Report::new("C52", "exploration", args);
    rep.set_rule(
        "one case = one TableReference (1..3 parts) or one qualified Column (relation of 1..3 parts + name) built with the non-normalising constructors, \
         rendered with to_quoted_string / quoted_flat_name and parsed back with parse_str / from_qualified_name; oracle = identity. \
         Systematic: all identifiers of length 1..=3 over {a, A, ., \", space, é} x 1..=3 parts (see exhaustive_blocks for what is complete in this tier), then seeded random longer identifiers. \
         distinct_nontrivial = distinct quoted texts of cases in which at least one part needs quoting (anything but [a-z_][a-z0-9_]*); all-plain references are counted in evaluations only. \
         References containing an EMPTY identifier are executed and counted (observed_sets / counters) but not asserted.",
    );
    rep.assume("oracle: identity on (variant, parts) for TableReference and on (relation, name) for Column");
    rep.assume("empty identifiers are outside the asserted domain (quote_identifier(\"\") renders nothing; no documentation promises a round trip)");
    // which parse_identifiers implementation is compiled into this binary (cargo feature `sql` of datafusion-common)
    let parser = if TableReference::parse_str("X()").table() == "X()" { "sqlparser (feature sql)" } else { "built-in fallback splitter (feature sql OFF)" };
    rep.seen("parse_identifiers implementation in this build", parser);
    rep.assume(&format!("parser implementation exercised: {parser}; datafusion-common selects it with its cargo feature `sql`"));

    let miri = args.stage == "miri";
    let reduced = !args.stage.is_empty();
    let thorough = args.tier == Tier::Thorough && !reduced;
    let selftest = args.opt_u64("selftest", 0) == 1;
    let corrupt = AtomicBool::new(selftest);
    let cx = Ctx { rep: &rep, corrupt: &corrupt };
    let seed = args.seed;

    let max_len = if miri { 2 } else { 3 };
    let ids = idents_up_to(max_len); // ordered by length: 6, 36, 216
    let n1 = 6usize;
    let n2 = 6 + 36;
    let n_all = ids.len();
    // 3-part product: complete over length<=3 in thorough, over length<=2 in quick, length<=1 under Miri
    let triple_limit = if miri { n1 } else if thorough { n_all } else { n2 };

    let mut plan: Vec<Work> = vec![];
    for i in 0..n_all {
        // Miri: second part ranges over everything only for the six one-character first parts
        plan.push(Work::Pairs { i, partners: if miri && i >= n1 { 0 } else { n_all } });
    }
    for i in 0..triple_limit {
        plan.push(Work::Triples { i, limit: triple_limit });
    }
    if !thorough && !miri {
        for pos in 0..3 {
            plan.push(Work::OneLong { pos });
        }
    }
    plan.push(Work::Quads { small: miri });
    plan.push(Work::Empty { small: miri });
    if !miri {
        if !thorough {
            let n = args.bound("sampled_triples", 120_000, 0) as usize / if reduced { 10 } else { 1 };
            for chunk in 0..n.div_ceil(5000) {
                plan.push(Work::SampledTriples { chunk: chunk as u64, n: 5000 });
            }
        }
        let n = args.bound("random", 60_000, 3_000_000) as usize / if reduced { 10 } else { 1 };
        for chunk in 0..n.div_ceil(5000) {
            plan.push(Work::Random { chunk: chunk as u64, n: 5000 });
        }
    } else {
        plan.push(Work::Random { chunk: 0, n: 60 });
    }

    let workers = if miri { 1 } else { args.workers };
    vcommon::par::run(workers, plan.into_iter(), |w| {
        let mut loc = Local::default();
        let id = |i: usize| ids[i].as_str();
        match w {
            Work::Pairs { i, partners } => {
                check_ref(&cx, &[id(i)], &mut loc);
                for j in 0..partners {
                    check_ref(&cx, &[id(i), id(j)], &mut loc);
                    check_col(&cx, &[id(i)], id(j), &mut loc);
                }
            }
            Work::Triples { i, limit } => {
                for j in 0..limit {
                    for k in 0..limit {
                        check_ref(&cx, &[id(i), id(j), id(k)], &mut loc);
                        if limit <= n2 {
                            check_col(&cx, &[id(i), id(j)], id(k), &mut loc);
                        }
                    }
                }
                if limit > n2 && i < n2 {
                    for j in 0..n2 {
                        for k in 0..n2 {
                            check_col(&cx, &[id(i), id(j)], id(k), &mut loc);
                        }
                    }
                }
            }
            Work::OneLong { pos } => {
                for l in 0..n_all {
                    for a in 0..n1 {
                        for b in 0..n1 {
                            let mut p = [id(l); 3];
                            p[(pos + 1) % 3] = id(a);
                            p[(pos + 2) % 3] = id(b);
                            check_ref(&cx, &p, &mut loc);
                            check_col(&cx, &p[..2], p[2], &mut loc);
                        }
                    }
                }
            }
            Work::Quads { small } => {
                // ids[0] = a, ids[2] = ., ids[3] = "
                let syms: Vec<usize> = if small { vec![0, 2, 3] } else { (0..n1).collect() };
                for a in &syms {
                    for b in &syms {
                        for c in &syms {
                            for d in &syms {
                                check_col(&cx, &[id(*a), id(*b), id(*c)], id(*d), &mut loc);
                            }
                        }
                    }
                }
                for pos in 0..4 {
                    for l in 0..if small { 0 } else { n_all } {
                        for a in [0usize, 2, 3] {
                            let mut p = [id(a); 4];
                            p[pos] = id(l);
                            check_col(&cx, &p[..3], p[3], &mut loc);
                        }
                    }
                }
            }
            Work::Empty { small } => {
                let some: &[&str] = if small { &["", "a", "\""] } else { &["", "a", "A", ".", "\""] };
                for a in some {
                    check_ref(&cx, &[a], &mut loc);
                    for b in some {
                        check_ref(&cx, &[a, b], &mut loc);
                        for c in some {
                            check_ref(&cx, &[a, b, c], &mut loc);
                        }
                    }
                }
            }
            Work::SampledTriples { chunk, n } => {
                let mut rng = Rng::derive(seed, &[52, 1, chunk]);
                for _ in 0..n {
                    let p = [id(rng.usize(n_all)), id(rng.usize(n_all)), id(rng.usize(n_all))];
                    check_ref(&cx, &p, &mut loc);
                }
            }
            Work::Random { chunk, n } => {
                let mut rng = Rng::derive(seed, &[52, 2, chunk]);
                for _ in 0..n {
                    let parts: Vec<String> = (0..4).map(|_| random_ident(&mut rng)).collect();
                    let p: Vec<&str> = parts.iter().map(|s| s.as_str()).collect();
                    let k = 1 + rng.usize(3);
                    check_ref(&cx, &p[..k], &mut loc);
                    let k = 1 + rng.usize(3);
                    check_col(&cx, &p[..k], p[3], &mut loc);
                }
            }
        }
        for (i, n) in loc.refs.iter().enumerate() {
            rep.count(&format!("table references/{}-part", i + 1), *n);
        }
        for (i, n) in loc.cols.iter().enumerate() {
            rep.count(&format!("qualified columns/{}-part relation", i + 1), *n);
        }
        rep.cases(loc.refs.iter().sum::<u64>() + loc.cols.iter().sum::<u64>());
        rep.count("identifier parts/needing quotes", loc.quoted_parts);
        rep.count("identifier parts/plain (unquoted path)", loc.plain_parts);
        rep.count("observed (not asserted)/empty-identifier references that round-trip", loc.empty_ok);
        rep.count("observed (not asserted)/empty-identifier references that do NOT round-trip", loc.empty_differs);
        for fp in loc.nontrivial {
            rep.nontrivial(fp);
        }
    });

    // quote_identifier on its own: one-part text must read back as exactly that identifier
    for s in ["tab.le\"name", "MyTable", "select", "a b", "é", "\"", "."] {
        let q = quote_identifier(s).to_string();
        let back = TableReference::parse_str(&q);
        if rep.want_sample() {
            rep.sample(json!({"identifier": s, "quote_identifier": q, "parse_str": back.to_vec()}));
        }
    }

    rep.extra("alphabet", json!(ALPHABET.iter().map(|c| c.to_string()).collect::<Vec<_>>()));
    rep.extra(
        "exhaustive_blocks",
        json!({
            "identifier lengths": format!("1..={max_len}"),
            "1-part x all identifiers": true,
            "2-part x all identifiers": !miri,
            "columns: 1-part relation x name, all identifiers": !miri,
            "miri subset": if miri { "2-part / 1-part-relation columns: first part of length 1 x second of length <=2" } else { "-" },
            "3-part, complete product over identifiers of length <=": if miri { 1 } else if thorough { 3 } else { 2 },
            "columns: 2-part relation x name, complete over identifiers of length <=": if miri { 1 } else { 2 },
            "columns: 3-part relation x name, complete over identifiers of length <=": 1,
        }),
    );
    let quoted = rep.get_count("identifier parts/needing quotes");
    let plainp = rep.get_count("identifier parts/plain (unquoted path)");
    rep.obligation("both the quoting and the unquoted path exercised", quoted > 0 && plainp > 0, &format!("{quoted} quoted parts, {plainp} plain parts"));
    let r3 = rep.get_count("table references/3-part");
    let c3 = rep.get_count("qualified columns/3-part relation");
    rep.obligation("3-part references and 4-identifier columns exercised", r3 > 0 && c3 > 0, &format!("{r3} full references, {c3} columns with a full relation"));
    if selftest && corrupt.load(Ordering::Relaxed) {
        rep.inconclusive("selftest corruption point was never reached");
    }
    rep.set_exhaustive(false);
    rep.finish()
}

fn main() {
    let args = Args::parse();
    vcommon::par::quiet_panics();
    std::process::exit(run(&args));
}
