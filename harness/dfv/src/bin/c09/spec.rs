//! C09 data model: the table, window specifications, SQL rendering, case generation.

use dfv::value::{Row, Value};
use vcommon::{json, Json, Rng};

#[derive(Clone, Copy, Debug, PartialEq, Eq)]
pub enum CT {
    Int,
    Float,
    /// days since epoch; Arrow Date32
    Date,
}

/// Fixed table layout: id, p, oi, of, od, v, w
pub const COLS: [(&str, CT); 7] = [("id", CT::Int), ("p", CT::Int), ("oi", CT::Int), ("of", CT::Float), ("od", CT::Date), ("v", CT::Int), ("w", CT::Float)];
pub const C_ID: usize = 0;
pub const C_P: usize = 1;
pub const C_OI: usize = 2;
pub const C_OF: usize = 3;
pub const C_OD: usize = 4;
pub const C_V: usize = 5;
pub const C_W: usize = 6;

#[derive(Clone, Debug)]
pub struct Table {
    pub rows: Vec<Row>,
}

impl Table {
    pub fn to_json(&self) -> Json {
        json!({"columns": COLS.iter().map(|(n, t)| format!("{n}:{t:?}")).collect::<Vec<_>>(), "rows": dfv::value::rows_to_json(&self.rows)})
    }
}

pub fn gen_table(rng: &mut Rng, max_rows: usize, extreme: bool) -> Table {
    let n = rng.usize(max_rows + 1);
    let nparts = 1 + rng.usize(4) as i64;
    let nkeys = *rng.pick(&[2i64, 4, 9, 30]);
    let null = |rng: &mut Rng, num: u64| rng.chance(num, 10);
    let mut rows = vec![];
    for id in 0..n {
        let oi = if null(rng, 2) {
            Value::Null
        } else if extreme && rng.chance(1, 2) {
            Value::Int(if rng.bool() { i64::MIN + rng.range(0, 6) } else { i64::MAX - rng.range(0, 6) })
        } else {
            Value::Int(rng.range(-3, nkeys))
        };
        rows.push(vec![
            Value::Int(id as i64 + 1),
            if null(rng, 1) { Value::Null } else { Value::Int(rng.range(1, nparts)) },
            oi,
            if null(rng, 2) { Value::Null } else { Value::Float(rng.range(-4, 2 * nkeys) as f64 * 0.5) },
            if null(rng, 2) { Value::Null } else { Value::Int(18262 + rng.range(0, nkeys)) },
            if null(rng, 2) { Value::Null } else { Value::Int(rng.range(-20, 40)) },
            if null(rng, 2) { Value::Null } else { Value::Float(rng.range(-40, 80) as f64 * 0.25) },
        ]);
    }
    rng.shuffle(&mut rows);
    Table { rows }
}

#[derive(Clone, Debug, PartialEq)]
pub enum Func {
    RowNumber,
    Rank,
    DenseRank,
    PercentRank,
    CumeDist,
    Ntile(u64),
    Lag { off: Option<i64>, default: Option<Value> },
    Lead { off: Option<i64>, default: Option<Value> },
    FirstValue,
    LastValue,
    NthValue(i64),
    Sum,
    Count,
    CountStar,
    Min,
    Max,
    Avg,
}

pub const FUNC_NAMES: [&str; 17] =
    ["row_number", "rank", "dense_rank", "percent_rank", "cume_dist", "ntile", "lag", "lead", "first_value", "last_value", "nth_value", "sum", "count", "count_star", "min", "max", "avg"];

impl Func {
    pub fn name(&self) -> &'static str {
        match self {
            Func::RowNumber => "row_number",
            Func::Rank => "rank",
            Func::DenseRank => "dense_rank",
            Func::PercentRank => "percent_rank",
            Func::CumeDist => "cume_dist",
            Func::Ntile(_) => "ntile",
            Func::Lag { .. } => "lag",
            Func::Lead { .. } => "lead",
            Func::FirstValue => "first_value",
            Func::LastValue => "last_value",
            Func::NthValue(_) => "nth_value",
            Func::Sum => "sum",
            Func::Count => "count",
            Func::CountStar => "count_star",
            Func::Min => "min",
            Func::Max => "max",
            Func::Avg => "avg",
        }
    }
    pub fn takes_arg(&self) -> bool {
        !matches!(self, Func::RowNumber | Func::Rank | Func::DenseRank | Func::PercentRank | Func::CumeDist | Func::Ntile(_) | Func::CountStar)
    }
    /// the value depends on the window frame
    pub fn uses_frame(&self) -> bool {
        matches!(self, Func::FirstValue | Func::LastValue | Func::NthValue(_) | Func::Sum | Func::Count | Func::CountStar | Func::Min | Func::Max | Func::Avg)
    }
    /// the value only depends on the peer-group structure (deterministic under ties)
    pub fn peer_only(&self) -> bool {
        matches!(self, Func::Rank | Func::DenseRank | Func::PercentRank | Func::CumeDist)
    }
    pub fn is_aggregate(&self) -> bool {
        matches!(self, Func::Sum | Func::Count | Func::CountStar | Func::Min | Func::Max | Func::Avg)
    }
}

#[derive(Clone, Copy, Debug, PartialEq, Eq, PartialOrd, Ord)]
pub enum Unit {
    Rows,
    Range,
    Groups,
}

impl Unit {
    pub fn sql(&self) -> &'static str {
        match self {
            Unit::Rows => "ROWS",
            Unit::Range => "RANGE",
            Unit::Groups => "GROUPS",
        }
    }
}

/// Offset of a bound: rows / groups count, or a distance on the order key (`num` × `scale`).
#[derive(Clone, Copy, Debug, PartialEq)]
pub struct Off {
    /// numerator: the offset is `num * 0.5` for float keys, `num` otherwise (rows, groups, ints, days)
    pub num: u64,
}

#[derive(Clone, Copy, Debug, PartialEq)]
pub enum Bound {
    UnboundedPreceding,
    Preceding(Off),
    CurrentRow,
    Following(Off),
    UnboundedFollowing,
}

impl Bound {
    pub fn kind(&self) -> &'static str {
        match self {
            Bound::UnboundedPreceding => "UP",
            Bound::Preceding(_) => "kP",
            Bound::CurrentRow => "CR",
            Bound::Following(_) => "kF",
            Bound::UnboundedFollowing => "UF",
        }
    }
    pub fn has_offset(&self) -> bool {
        matches!(self, Bound::Preceding(_) | Bound::Following(_))
    }
}

#[derive(Clone, Copy, Debug, PartialEq)]
pub struct Frame {
    pub unit: Unit,
    pub start: Bound,
    pub end: Bound,
}

impl Frame {
    pub fn pair(&self) -> String {
        format!("{}..{}", self.start.kind(), self.end.kind())
    }
    pub fn has_offset(&self) -> bool {
        self.start.has_offset() || self.end.has_offset()
    }
}

#[derive(Clone, Debug, PartialEq)]
pub struct OrdKey {
    pub col: usize,
    pub desc: bool,
    /// None = not written (engine default: ASC ⇒ NULLS LAST, DESC ⇒ NULLS FIRST)
    pub nulls_first: Option<bool>,
}

impl OrdKey {
    pub fn nulls_first_eff(&self) -> bool {
        self.nulls_first.unwrap_or(self.desc)
    }
    pub fn sql(&self) -> String {
        format!(
            "{}{}{}",
            COLS[self.col].0,
            if self.desc { " DESC" } else { " ASC" },
            match self.nulls_first {
                None => "",
                Some(true) => " NULLS FIRST",
                Some(false) => " NULLS LAST",
            }
        )
    }
}

#[derive(Clone, Debug, PartialEq)]
pub struct WinSpec {
    pub func: Func,
    /// argument column (functions that take one)
    pub arg: Option<usize>,
    pub partition_by: Vec<usize>,
    pub order_by: Vec<OrdKey>,
    pub frame: Option<Frame>,
}

impl WinSpec {
    pub fn total_order(&self) -> bool {
        self.order_by.iter().any(|k| k.col == C_ID)
    }
    fn off_sql(&self, o: &Off, unit: Unit) -> String {
        if unit != Unit::Range {
            return o.num.to_string();
        }
        match self.order_by.first().map(|k| COLS[k.col].1) {
            Some(CT::Float) => format!("{:?}", o.num as f64 * 0.5),
            Some(CT::Date) => format!("INTERVAL '{}' DAY", o.num),
            _ => o.num.to_string(),
        }
    }
    fn bound_sql(&self, b: &Bound, unit: Unit) -> String {
        match b {
            Bound::UnboundedPreceding => "UNBOUNDED PRECEDING".into(),
            Bound::Preceding(o) => format!("{} PRECEDING", self.off_sql(o, unit)),
            Bound::CurrentRow => "CURRENT ROW".into(),
            Bound::Following(o) => format!("{} FOLLOWING", self.off_sql(o, unit)),
            Bound::UnboundedFollowing => "UNBOUNDED FOLLOWING".into(),
        }
    }
    pub fn sql(&self) -> String {
        let a = self.arg.map(|c| COLS[c].0).unwrap_or("");
        let lit = |v: &Value| match v {
            Value::Float(f) => format!("{f:?}"),
            other => other.render(),
        };
        let call = match &self.func {
            Func::Ntile(n) => format!("ntile({n})"),
            Func::Lag { off, default } | Func::Lead { off, default } => {
                let mut s = format!("{}({a}", self.func.name());
                if let Some(o) = off {
                    s += &format!(", {o}");
                    if let Some(d) = default {
                        s += &format!(", {}", lit(d));
                    }
                }
                s + ")"
            }
            Func::NthValue(n) => format!("nth_value({a}, {n})"),
            Func::CountStar => "count(*)".into(),
            f if f.takes_arg() => format!("{}({a})", f.name()),
            f => format!("{}()", f.name()),
        };
        let mut over = vec![];
        if !self.partition_by.is_empty() {
            over.push(format!("PARTITION BY {}", self.partition_by.iter().map(|c| COLS[*c].0).collect::<Vec<_>>().join(", ")));
        }
        if !self.order_by.is_empty() {
            over.push(format!("ORDER BY {}", self.order_by.iter().map(|k| k.sql()).collect::<Vec<_>>().join(", ")));
        }
        if let Some(f) = &self.frame {
            over.push(format!("{} BETWEEN {} AND {}", f.unit.sql(), self.bound_sql(&f.start, f.unit), self.bound_sql(&f.end, f.unit)));
        }
        format!("{call} OVER ({})", over.join(" "))
    }
}

/// How the result is compared.
#[derive(Clone, Copy, Debug, PartialEq, Eq)]
pub enum Mode {
    /// every window value is determined per row: SELECT id, w0, w1, ..
    PerId,
    /// ties make the assignment of values to tied rows open, the multiset of
    /// (partition key, order keys, value) is determined: SELECT p, <order keys>, w0
    PeerMultiset,
}

#[derive(Clone, Debug)]
pub struct Query {
    pub wins: Vec<WinSpec>,
    pub mode: Mode,
}

impl Query {
    pub fn select_cols(&self) -> Vec<usize> {
        match self.mode {
            Mode::PerId => vec![C_ID],
            Mode::PeerMultiset => {
                let w = &self.wins[0];
                let mut c = w.partition_by.clone();
                for k in &w.order_by {
                    if !c.contains(&k.col) {
                        c.push(k.col);
                    }
                }
                c
            }
        }
    }
    pub fn sql(&self) -> String {
        let mut items: Vec<String> = self.select_cols().iter().map(|c| COLS[*c].0.to_string()).collect();
        for (i, w) in self.wins.iter().enumerate() {
            items.push(format!("{} AS w{i}", w.sql()));
        }
        format!("SELECT {} FROM t", items.join(", "))
    }
}

// ------------------------------------------------------------------------------------------
// generation

pub const BOUND_PAIRS: [(&str, &str); 13] = [
    ("UP", "kP"), ("UP", "CR"), ("UP", "kF"), ("UP", "UF"),
    ("kP", "kP"), ("kP", "CR"), ("kP", "kF"), ("kP", "UF"),
    ("CR", "CR"), ("CR", "kF"), ("CR", "UF"),
    ("kF", "kF"), ("kF", "UF"),
];

fn mk_bound(kind: &str, k: u64) -> Bound {
    match kind {
        "UP" => Bound::UnboundedPreceding,
        "kP" => Bound::Preceding(Off { num: k }),
        "CR" => Bound::CurrentRow,
        "kF" => Bound::Following(Off { num: k }),
        _ => Bound::UnboundedFollowing,
    }
}

pub fn mk_frame(rng: &mut Rng, unit: Unit, pair: (&str, &str)) -> Frame {
    let mut a = rng.below(4);
    let mut b = rng.below(4);
    // keep start <= end for same-direction offsets
    if pair == ("kP", "kP") && a < b {
        std::mem::swap(&mut a, &mut b);
    }
    if pair == ("kF", "kF") && a > b {
        std::mem::swap(&mut a, &mut b);
    }
    Frame { unit, start: mk_bound(pair.0, a), end: mk_bound(pair.1, b) }
}

pub fn mk_func(rng: &mut Rng, idx: usize) -> Func {
    let off = |rng: &mut Rng| if rng.chance(1, 4) { None } else { Some(rng.range(0, 3)) };
    match idx {
        0 => Func::RowNumber,
        1 => Func::Rank,
        2 => Func::DenseRank,
        3 => Func::PercentRank,
        4 => Func::CumeDist,
        5 => Func::Ntile(1 + rng.below(5)),
        6 => Func::Lag { off: off(rng), default: None },
        7 => Func::Lead { off: off(rng), default: None },
        8 => Func::FirstValue,
        9 => Func::LastValue,
        10 => Func::NthValue(*rng.pick(&[1i64, 2, 3, -1, -2])),
        11 => Func::Sum,
        12 => Func::Count,
        13 => Func::CountStar,
        14 => Func::Min,
        15 => Func::Max,
        _ => Func::Avg,
    }
}

fn ord_key(rng: &mut Rng, col: usize) -> OrdKey {
    OrdKey { col, desc: rng.bool(), nulls_first: if rng.chance(1, 3) { None } else { Some(rng.bool()) } }
}

/// A window specification for (function, frame) that is deterministic under the rules of the
/// check; returns the comparison mode it needs. `want_ties` asks for a non-total order when the
/// combination allows it.
pub fn mk_spec(rng: &mut Rng, func: Func, frame: Option<Frame>, want_ties: bool) -> (WinSpec, Mode) {
    let partition_by = if rng.chance(2, 3) { vec![C_P] } else { vec![] };
    let range_offset = frame.map(|f| f.unit == Unit::Range && f.has_offset()).unwrap_or(false);
    let needs_order = frame.map(|f| f.unit == Unit::Groups).unwrap_or(false) || range_offset;
    // sum / avg are not defined on dates; when the argument has to be the order key, the key is numeric
    let key_col = if matches!(func, Func::Sum | Func::Avg) { *rng.pick(&[C_OI, C_OI, C_OF]) } else { *rng.pick(&[C_OI, C_OI, C_OF, C_OD]) };
    // tie-sensitive: the value of a row depends on where it stands among its peers
    let rows_frame = frame.map(|f| f.unit == Unit::Rows).unwrap_or(false);
    let tie_sensitive = !func.peer_only() && (rows_frame || !func.is_aggregate());
    let nav_on_peers = matches!(func, Func::FirstValue | Func::LastValue | Func::NthValue(_)) && !rows_frame;
    let mut order_by: Vec<OrdKey> = vec![];
    let mut mode = Mode::PerId;
    let mut arg = None;
    if range_offset {
        // exactly one numeric / date key, ties and NULLs welcome
        order_by.push(ord_key(rng, key_col));
        if func.takes_arg() {
            // navigation functions pick a row inside a peer group: the argument must be constant per peer group
            arg = Some(if tie_sensitive { key_col } else { *rng.pick(&[C_V, C_W, key_col]) });
        }
        if tie_sensitive && !nav_on_peers {
            // row_number / ntile / lag / lead ignore the frame but depend on the position among peers
            mode = Mode::PeerMultiset;
        }
    } else if tie_sensitive && !(want_ties && (nav_on_peers || rng.chance(1, 3))) {
        // total order: order keys + id
        if rng.chance(4, 5) {
            order_by.push(ord_key(rng, key_col));
        }
        if rng.chance(1, 4) {
            order_by.push(ord_key(rng, C_OF));
            order_by.dedup_by(|a, b| a.col == b.col);
        }
        order_by.push(OrdKey { col: C_ID, desc: rng.chance(1, 4), nulls_first: None });
        if func.takes_arg() {
            arg = Some(*rng.pick(&[C_V, C_W, C_OI, C_OD]));
        }
    } else if tie_sensitive {
        // ties allowed: the argument is constant within a peer group
        if needs_order || rng.chance(5, 6) {
            order_by.push(ord_key(rng, key_col));
            if rng.chance(1, 5) && key_col != C_OF {
                order_by.push(ord_key(rng, C_OF));
            }
        }
        if func.takes_arg() {
            arg = Some(order_by.first().map(|k| k.col).unwrap_or(C_P));
            if order_by.is_empty() && partition_by.is_empty() {
                // no key at all: every row is a peer of every other; a constant-per-peer argument does not exist
                order_by.push(ord_key(rng, key_col));
                arg = Some(key_col);
            }
        }
        // first/last/nth over RANGE/GROUPS/default frames see whole peer groups: determined per id
        mode = if nav_on_peers { Mode::PerId } else { Mode::PeerMultiset };
    } else {
        // peer-only functions and aggregates over RANGE/GROUPS/default frames: any order
        if needs_order || rng.chance(5, 6) {
            order_by.push(ord_key(rng, key_col));
            if rng.chance(1, 5) && key_col != C_OF {
                order_by.push(ord_key(rng, C_OF));
            }
            if !want_ties && rng.chance(1, 3) {
                order_by.push(OrdKey { col: C_ID, desc: false, nulls_first: None });
            }
        }
        if func.takes_arg() {
            arg = Some(*rng.pick(&[C_V, C_W, C_OI, C_OF]));
        }
    }
    // lag/lead defaults must have the argument's type (none for dates)
    let is_lag = matches!(func, Func::Lag { .. });
    let func = match func {
        Func::Lag { off: Some(o), .. } | Func::Lead { off: Some(o), .. } if rng.bool() => {
            let default = match arg.map(|c| COLS[c].1) {
                Some(CT::Int) => Some(Value::Int(-77)),
                Some(CT::Float) => Some(Value::Float(-7.5)),
                _ => None,
            };
            if is_lag { Func::Lag { off: Some(o), default } } else { Func::Lead { off: Some(o), default } }
        }
        f => f,
    };
    // avg / sum over a date column is not defined
    let arg = match (&func, arg) {
        (Func::Sum | Func::Avg, Some(c)) if COLS[c].1 == CT::Date => Some(C_V),
        (_, a) => a,
    };
    (WinSpec { func, arg, partition_by, order_by, frame }, mode)
}
