//! C09 oracle: window function values BY DEFINITION.
//! per partition: materialize → sort → per-row frame (set of positions) → fold.
//! Nothing here is incremental: every row's frame is recomputed from scratch by scanning the
//! whole partition (adapted from `dfv::refint::window`, extended by the distribution functions,
//! ntile, nth_value, date/float RANGE offsets and exact integer arithmetic for RANGE distances).

use crate::spec::*;
use dfv::value::{cmp_f64, Row, Value};
use std::cmp::Ordering;

fn key_cmp(a: &Value, b: &Value, desc: bool, nulls_first: bool) -> Ordering {
    match (a.is_null(), b.is_null()) {
        (true, true) => Ordering::Equal,
        (true, false) => {
            if nulls_first {
                Ordering::Less
            } else {
                Ordering::Greater
            }
        }
        (false, true) => {
            if nulls_first {
                Ordering::Greater
            } else {
                Ordering::Less
            }
        }
        _ => {
            let o = match (a, b) {
                (Value::Int(x), Value::Int(y)) => x.cmp(y),
                _ => cmp_f64(a.as_f64().unwrap_or(0.0), b.as_f64().unwrap_or(0.0)),
            };
            if desc {
                o.reverse()
            } else {
                o
            }
        }
    }
}

fn same_partition(a: &Row, b: &Row, cols: &[usize]) -> bool {
    cols.iter().all(|c| match (&a[*c], &b[*c]) {
        (Value::Null, Value::Null) => true,
        (Value::Null, _) | (_, Value::Null) => false,
        (x, y) => key_cmp(x, y, false, false) == Ordering::Equal,
    })
}

/// signed distance from `cur` to `v` along the sort direction, in half-units for floats
/// (all float keys are multiples of 0.5) and units otherwise: positive = `v` sorts after `cur`.
fn distance(cur: &Value, v: &Value, desc: bool, float_key: bool) -> i128 {
    let to = |x: &Value| -> i128 {
        match x {
            Value::Int(i) => *i as i128,
            Value::Float(f) => (*f * 2.0) as i128,
            _ => 0,
        }
    };
    let _ = float_key;
    let d = to(v) - to(cur);
    if desc {
        -d
    } else {
        d
    }
}

/// Positions (in partition order) of the frame of row `i`.
fn frame_positions(spec: &WinSpec, fr: &Frame, m: usize, i: usize, grp: &[usize], okey: &dyn Fn(usize) -> Value) -> Vec<usize> {
    let ngroups = grp.last().map(|g| g + 1).unwrap_or(0) as i64;
    match fr.unit {
        Unit::Rows => {
            let i = i as i64;
            let lo = match fr.start {
                Bound::UnboundedPreceding => 0,
                Bound::Preceding(k) => i - k.num as i64,
                Bound::CurrentRow => i,
                Bound::Following(k) => i + k.num as i64,
                Bound::UnboundedFollowing => m as i64,
            };
            let hi = match fr.end {
                Bound::UnboundedPreceding => -1,
                Bound::Preceding(k) => i - k.num as i64,
                Bound::CurrentRow => i,
                Bound::Following(k) => i + k.num as i64,
                Bound::UnboundedFollowing => m as i64 - 1,
            };
            (0..m as i64).filter(|j| *j >= lo && *j <= hi).map(|j| j as usize).collect()
        }
        Unit::Groups => {
            let g = grp[i] as i64;
            let lo = match fr.start {
                Bound::UnboundedPreceding => 0,
                Bound::Preceding(k) => g - k.num as i64,
                Bound::CurrentRow => g,
                Bound::Following(k) => g + k.num as i64,
                Bound::UnboundedFollowing => ngroups,
            };
            let hi = match fr.end {
                Bound::UnboundedPreceding => -1,
                Bound::Preceding(k) => g - k.num as i64,
                Bound::CurrentRow => g,
                Bound::Following(k) => g + k.num as i64,
                Bound::UnboundedFollowing => ngroups - 1,
            };
            (0..m).filter(|j| (grp[*j] as i64) >= lo && (grp[*j] as i64) <= hi).collect()
        }
        Unit::Range => {
            if !fr.has_offset() {
                // CURRENT ROW means "the peers of the current row"
                let g = grp[i];
                return (0..m)
                    .filter(|j| {
                        let lo_ok = match fr.start {
                            Bound::UnboundedPreceding => true,
                            Bound::CurrentRow => grp[*j] >= g,
                            _ => false,
                        };
                        let hi_ok = match fr.end {
                            Bound::UnboundedFollowing => true,
                            Bound::CurrentRow => grp[*j] <= g,
                            _ => false,
                        };
                        lo_ok && hi_ok
                    })
                    .collect();
            }
            // offsets: exactly one order key (generator guarantees)
            let k0 = &spec.order_by[0];
            let float_key = COLS[k0.col].1 == CT::Float;
            let cur = okey(i);
            (0..m)
                .filter(|&j| {
                    let v = okey(j);
                    if cur.is_null() || v.is_null() {
                        // NULL keys are peers of each other; a NULL and a non-NULL key are only related
                        // through an UNBOUNDED side of the frame
                        if cur.is_null() && v.is_null() {
                            return true;
                        }
                        return if j < i { matches!(fr.start, Bound::UnboundedPreceding) } else { matches!(fr.end, Bound::UnboundedFollowing) };
                    }
                    let d = distance(&cur, &v, k0.desc, float_key);
                    let lo_ok = match fr.start {
                        Bound::UnboundedPreceding => true,
                        Bound::Preceding(k) => d >= -(k.num as i128),
                        Bound::CurrentRow => d >= 0,
                        Bound::Following(k) => d >= k.num as i128,
                        Bound::UnboundedFollowing => false,
                    };
                    let hi_ok = match fr.end {
                        Bound::UnboundedPreceding => false,
                        Bound::Preceding(k) => d <= -(k.num as i128),
                        Bound::CurrentRow => d <= 0,
                        Bound::Following(k) => d <= k.num as i128,
                        Bound::UnboundedFollowing => true,
                    };
                    lo_ok && hi_ok
                })
                .collect()
        }
    }
}

fn fold(f: &Func, vals: &[Value], n_rows: usize, arg_ty: Option<CT>) -> Value {
    let nn: Vec<&Value> = vals.iter().filter(|v| !v.is_null()).collect();
    match f {
        Func::CountStar => Value::Int(n_rows as i64),
        Func::Count => Value::Int(nn.len() as i64),
        Func::Sum => {
            if nn.is_empty() {
                Value::Null
            } else if arg_ty == Some(CT::Float) {
                Value::Float(nn.iter().filter_map(|v| v.as_f64()).sum())
            } else {
                Value::Int(nn.iter().fold(0i64, |a, v| if let Value::Int(i) = v { a.wrapping_add(*i) } else { a }))
            }
        }
        Func::Avg => {
            if nn.is_empty() {
                Value::Null
            } else {
                Value::Float(nn.iter().filter_map(|v| v.as_f64()).sum::<f64>() / nn.len() as f64)
            }
        }
        Func::Min | Func::Max => {
            let mut best: Option<&Value> = None;
            for v in nn {
                best = match best {
                    None => Some(v),
                    Some(b) => {
                        let c = key_cmp(v, b, false, false);
                        if (*f == Func::Min && c == Ordering::Less) || (*f == Func::Max && c == Ordering::Greater) {
                            Some(v)
                        } else {
                            Some(b)
                        }
                    }
                };
            }
            best.cloned().unwrap_or(Value::Null)
        }
        _ => Value::Null,
    }
}

/// Value of the window function for every row of `rows` (aligned with `rows`).
pub fn eval(rows: &[Row], spec: &WinSpec) -> Vec<Value> {
    let n = rows.len();
    let mut out = vec![Value::Null; n];
    // partitions in first-appearance order
    let mut parts: Vec<Vec<usize>> = vec![];
    for i in 0..n {
        match parts.iter_mut().find(|p| same_partition(&rows[p[0]], &rows[i], &spec.partition_by)) {
            Some(p) => p.push(i),
            None => parts.push(vec![i]),
        }
    }
    let ord = |a: usize, b: usize| -> Ordering {
        for k in &spec.order_by {
            let c = key_cmp(&rows[a][k.col], &rows[b][k.col], k.desc, k.nulls_first_eff());
            if c != Ordering::Equal {
                return c;
            }
        }
        Ordering::Equal
    };
    let default_frame = if spec.order_by.is_empty() {
        Frame { unit: Unit::Rows, start: Bound::UnboundedPreceding, end: Bound::UnboundedFollowing }
    } else {
        Frame { unit: Unit::Range, start: Bound::UnboundedPreceding, end: Bound::CurrentRow }
    };
    let fr = spec.frame.unwrap_or(default_frame);
    let arg_ty = spec.arg.map(|c| COLS[c].1);
    for p in parts.iter_mut() {
        p.sort_by(|a, b| ord(*a, *b)); // stable; the generator makes the tie order irrelevant
        let m = p.len();
        let mut grp = vec![0usize; m];
        for i in 1..m {
            grp[i] = grp[i - 1] + if ord(p[i - 1], p[i]) == Ordering::Equal { 0 } else { 1 };
        }
        let okey = |j: usize| -> Value { spec.order_by.first().map(|k| rows[p[j]][k.col].clone()).unwrap_or(Value::Null) };
        let arg = |j: usize| -> Value { spec.arg.map(|c| rows[p[j]][c].clone()).unwrap_or(Value::Null) };
        for i in 0..m {
            let first_peer = (0..m).find(|j| grp[*j] == grp[i]).unwrap();
            let last_peer = (0..m).rev().find(|j| grp[*j] == grp[i]).unwrap();
            let v = match &spec.func {
                Func::RowNumber => Value::Int(i as i64 + 1),
                Func::Rank => Value::Int(first_peer as i64 + 1),
                Func::DenseRank => Value::Int(grp[i] as i64 + 1),
                Func::PercentRank => {
                    if m <= 1 {
                        Value::Float(0.0)
                    } else {
                        Value::Float(first_peer as f64 / (m - 1) as f64)
                    }
                }
                Func::CumeDist => Value::Float((last_peer + 1) as f64 / m as f64),
                Func::Ntile(nb) => {
                    // the first (m mod n) buckets hold one row more than the others
                    let nb = *nb as usize;
                    let base = m / nb;
                    let rem = m % nb;
                    let mut bucket = 0usize;
                    let mut seen = 0usize;
                    for b in 0..nb {
                        let size = base + if b < rem { 1 } else { 0 };
                        if i < seen + size {
                            bucket = b + 1;
                            break;
                        }
                        seen += size;
                    }
                    Value::Int(bucket as i64)
                }
                Func::Lag { off, default } | Func::Lead { off, default } => {
                    let o = off.unwrap_or(1);
                    let j = if matches!(spec.func, Func::Lag { .. }) { i as i64 - o } else { i as i64 + o };
                    if j >= 0 && (j as usize) < m {
                        arg(j as usize)
                    } else {
                        default.clone().unwrap_or(Value::Null)
                    }
                }
                f => {
                    let pos = frame_positions(spec, &fr, m, i, &grp, &okey);
                    match f {
                        Func::FirstValue => pos.first().map(|j| arg(*j)).unwrap_or(Value::Null),
                        Func::LastValue => pos.last().map(|j| arg(*j)).unwrap_or(Value::Null),
                        Func::NthValue(k) => {
                            let len = pos.len() as i64;
                            let idx = if *k > 0 { *k - 1 } else { len + *k };
                            if *k != 0 && idx >= 0 && idx < len {
                                arg(pos[idx as usize])
                            } else {
                                Value::Null
                            }
                        }
                        _ => {
                            let vals: Vec<Value> = pos.iter().map(|j| arg(*j)).collect();
                            fold(f, &vals, pos.len(), arg_ty)
                        }
                    }
                }
            };
            out[p[i]] = v;
        }
    }
    out
}
