//! C09 — window functions match their frame definitions under every executor.
//!
//! SQL `f(..) OVER (PARTITION BY .. ORDER BY .. frame)` is executed (a) over an unsorted source
//! (SortExec + executor), (b) over a source with a declared ordering (executor streams directly),
//! (c) with every `BoundedWindowAggExec` of the plan swapped for a `WindowAggExec` over the same
//! input, (d) over a reverse-sorted source (reversed window expressions) or with the bounded
//! executor rebuilt in Linear / PartiallySorted mode — and compared with a by-definition oracle.
//! A second part toggles `enable_window_topn` / `enable_window_limits` on the query shapes these
//! rewrites target.
//!
//! `--opt only=<stage>:<index>` re-runs one case verbosely; `--opt selftest=1` corrupts the
//! observed engine rows before the comparison and must exit 1.

mod oracle;
mod run;
mod spec;

use dfv::engine::{classify, ErrClass};
use dfv::value::{cell_close, Row, Value};
use run::*;
use spec::*;
use std::collections::{BTreeMap, BTreeSet};
use std::sync::Mutex;
use vcommon::{fp_str, json, Args, Json, Report, Rng};

#[derive(Default)]
struct Matrix {
    /// function → unit → bound pairs compared
    cells: BTreeMap<String, BTreeMap<String, BTreeSet<String>>>,
    /// function → executors that evaluated it
    execs: BTreeMap<String, BTreeSet<String>>,
}

/// violations that are not one of the classified deviations (bounds the work after a real break)
static UNCLASSIFIED: std::sync::atomic::AtomicU64 = std::sync::atomic::AtomicU64::new(0);

static MATRIX: std::sync::LazyLock<Mutex<Matrix>> = std::sync::LazyLock::new(Default::default);

const BATCH_SIZES: [usize; 4] = [1, 2, 5, 8192];

struct Case {
    stage: &'static str,
    index: u64,
    table: Table,
    sql: String,
    /// select-list layout and expected rows
    query: Option<Query>,
    expected: Expected,
    sort: Vec<SortKey>,
    variants: Vec<Variant>,
    /// labels for the evidence matrix: (function, unit, pair)
    cells: Vec<(String, String, String)>,
}

enum Expected {
    /// rows keyed by their first column (id): every cell determined
    ById(Vec<Row>),
    /// multiset of rows
    Multiset(Vec<Row>),
    /// exact sequence
    Sequence(Vec<Row>),
    /// `n` rows, each of them one of `universe` (keyed by id), no id twice
    SubsetOf { universe: Vec<Row>, n: usize },
}

fn expected_json(e: &Expected) -> Json {
    match e {
        Expected::ById(r) => json!({"rows_by_id": dfv::value::rows_to_json(r)}),
        Expected::Multiset(r) => json!({"multiset": dfv::value::rows_to_json(r)}),
        Expected::Sequence(r) => json!({"sequence": dfv::value::rows_to_json(r)}),
        Expected::SubsetOf { universe, n } => json!({"any": n, "of": dfv::value::rows_to_json(universe)}),
    }
}

fn row_eq(a: &Row, b: &Row) -> bool {
    a.len() == b.len() && a.iter().zip(b.iter()).all(|(x, y)| cell_close(x, y))
}

fn id_of(r: &Row) -> Option<i64> {
    match r.first() {
        Some(Value::Int(i)) => Some(*i),
        _ => None,
    }
}

/// A difference between engine output and expectation.
struct Diff {
    /// first difference, written out
    text: String,
    /// (id, output column) of every differing cell when the comparison is per id and the row sets agree
    cells: Option<Vec<(i64, usize)>>,
}

fn diff(text: String) -> Diff {
    Diff { text, cells: None }
}

/// per-id comparison of `engine` against the rows of `exp`; `all` = every id must be present
fn compare_by_id(engine: &[Row], exp: &[Row], n: usize) -> Result<(), Diff> {
    if engine.len() != n {
        return Err(diff(format!("row count {} vs expected {}", engine.len(), n)));
    }
    let m: BTreeMap<i64, &Row> = exp.iter().filter_map(|r| id_of(r).map(|i| (i, r))).collect();
    let mut seen = BTreeSet::new();
    let mut cells = vec![];
    let mut first = None;
    for r in engine {
        let Some(id) = id_of(r) else { return Err(diff(format!("row without id: {r:?}"))) };
        if !seen.insert(id) {
            return Err(diff(format!("id {id} returned twice")));
        }
        match m.get(&id) {
            None => return Err(diff(format!("unknown id {id}"))),
            Some(x) => {
                if r.len() != x.len() {
                    return Err(diff(format!("id {id}: engine {r:?} vs expected {x:?}")));
                }
                for (c, (a, b)) in r.iter().zip(x.iter()).enumerate() {
                    if !cell_close(a, b) {
                        cells.push((id, c));
                        first.get_or_insert_with(|| format!("id {id}: engine {r:?} vs expected {x:?}"));
                    }
                }
            }
        }
    }
    match first {
        None => Ok(()),
        Some(text) => Err(Diff { text, cells: Some(cells) }),
    }
}

fn compare(engine: &[Row], e: &Expected) -> Result<(), Diff> {
    match e {
        Expected::ById(exp) => compare_by_id(engine, exp, exp.len()),
        Expected::Multiset(exp) => {
            if dfv::canon::multiset_eq(engine, exp) {
                Ok(())
            } else {
                Err(diff(format!("multisets differ ({} vs {} rows)", engine.len(), exp.len())))
            }
        }
        Expected::Sequence(exp) => {
            if engine.len() != exp.len() {
                return Err(diff(format!("row count {} vs expected {}", engine.len(), exp.len())));
            }
            for (i, (a, b)) in engine.iter().zip(exp.iter()).enumerate() {
                if !row_eq(a, b) {
                    return Err(diff(format!("row {i}: engine {a:?} vs expected {b:?}")));
                }
            }
            Ok(())
        }
        Expected::SubsetOf { universe, n } => compare_by_id(engine, universe, *n),
    }
}

/// Root-cause classification for the window-limit rewrite: the query agrees with the definition
/// with `enable_window_limits=false`, differs with `true`, and the rewritten plan carries
/// `fetch = limit + look-ahead` on a partition-local sort (`SortExec: TopK(..),
/// preserve_partitioning=[true]`) below the window executor. A partitioned TopK only guarantees
/// the *global* first k rows (its partitions share one dynamic threshold, and TopKRepartition copies
/// it below the hash RepartitionExec); the PARTITION BY window needs the first k rows of every
/// output partition. The text reports which TopK switches, when off, hide the difference.
fn limit_rewrite_partition_local_topk(case: &Case, v: &Variant, plan_text: &str, baseline_ok: Option<bool>) -> Option<String> {
    if !v.settings.iter().any(|(k, val)| k.ends_with("enable_window_limits") && val == "true") || baseline_ok != Some(true) {
        return None;
    }
    if !plan_text.lines().any(|l| l.contains("SortExec: TopK(fetch=") && l.contains("preserve_partitioning=[true]")) {
        return None;
    }
    let agrees_without = |keys: &[&str]| -> bool {
        let mut v2 = v.clone();
        for k in keys {
            v2.settings.push((format!("datafusion.optimizer.{k}"), "false".to_string()));
        }
        let res = vcommon::par::guard(|| dfv::engine::current_thread_rt().block_on(run_variant(&case.table, &case.sql, &v2, &case.sort)));
        matches!(res, Ok(Ok(r)) if compare(&r.rows, &case.expected).is_ok())
    };
    let (dynf, rep) = ("enable_topk_dynamic_filter_pushdown", "enable_topk_repartition");
    Some(format!(
        "agrees with enable_window_limits=false; the rewritten plan has a partition-local TopK; re-run with {dynf}=false agrees: {}; with {rep}=false agrees: {}; with both off agrees: {}",
        agrees_without(&[dynf]),
        agrees_without(&[rep]),
        agrees_without(&[dynf, rep])
    ))
}

/// Root-cause classification of a per-id difference: every differing cell belongs to a window with a
/// RANGE offset frame whose end is `k PRECEDING` (or whose start is `k FOLLOWING`: the reversed
/// form), the row's order key is NULL, and a BoundedWindowAggExec evaluated the query. Such frames
/// are flagged causal, so the streaming executor emits a NULL-keyed row before it has seen the rest
/// of the NULL peer group that forms its frame.
fn causal_range_null_peers(case: &Case, d: &Diff, execs: &[String]) -> bool {
    let (Some(q), Some(cells)) = (&case.query, &d.cells) else { return false };
    if q.mode != Mode::PerId || !execs.iter().any(|e| e.starts_with("BoundedWindowAggExec")) || cells.is_empty() {
        return false;
    }
    cells.iter().all(|(id, c)| {
        let Some(w) = c.checked_sub(1).and_then(|i| q.wins.get(i)) else { return false };
        let Some(f) = &w.frame else { return false };
        let shape = f.unit == Unit::Range && (matches!(f.end, Bound::Preceding(o) if o.num > 0) || matches!(f.start, Bound::Following(o) if o.num > 0));
        let null_key = case.table.rows.iter().any(|r| id_of(r) == Some(*id) && w.order_by.first().map(|k| r[k.col].is_null()).unwrap_or(false));
        shape && null_key
    })
}

fn expected_for(table: &Table, q: &Query) -> Expected {
    let vals: Vec<Vec<Value>> = q.wins.iter().map(|w| oracle::eval(&table.rows, w)).collect();
    let cols = q.select_cols();
    let rows: Vec<Row> = table
        .rows
        .iter()
        .enumerate()
        .map(|(i, r)| {
            let mut out: Row = cols.iter().map(|c| r[*c].clone()).collect();
            for v in &vals {
                out.push(v[i].clone());
            }
            out
        })
        .collect();
    match q.mode {
        Mode::PerId => Expected::ById(rows),
        Mode::PeerMultiset => Expected::Multiset(rows),
    }
}

fn standard_variants(rng: &mut Rng, q: &Query, index: u64) -> Vec<Variant> {
    let bs = BATCH_SIZES[(index % 4) as usize];
    let mk = |kind: VK, swap: bool, rng: &mut Rng| Variant {
        kind,
        swap_to_whole_partition: swap,
        batch_size: if kind == VK::Unsorted { bs } else { *rng.pick(&BATCH_SIZES) },
        target_partitions: if kind == VK::Linear { 1 } else { 1 + rng.usize(3) },
        source_partitions: match kind {
            VK::Linear => 1,
            VK::Unsorted => 1 + rng.usize(3),
            _ => 1 + rng.usize(2),
        },
        cut: BATCH_SIZES[((index / 4) % 4) as usize],
        // keep the declared ordering through repartitioning instead of re-sorting
        settings: if matches!(kind, VK::Sorted | VK::ReverseSorted) { vec![("datafusion.optimizer.prefer_existing_sort".to_string(), "true".to_string())] } else { vec![] },
    };
    let mut v = vec![mk(VK::Unsorted, false, rng), mk(VK::Sorted, false, rng), mk(VK::Sorted, true, rng)];
    match index % 3 {
        0 => v.push(mk(VK::ReverseSorted, false, rng)),
        1 if !q.wins[0].partition_by.is_empty() => v.push(mk(VK::Linear, false, rng)),
        _ => v.push(mk(VK::Unsorted, true, rng)),
    }
    v
}

fn cell_of(w: &WinSpec) -> (String, String, String) {
    match &w.frame {
        Some(f) => (w.func.name().to_string(), f.unit.sql().to_string(), f.pair()),
        None => (w.func.name().to_string(), "default".to_string(), if w.order_by.is_empty() { "whole-partition".into() } else { "UP..CR(peers)".into() }),
    }
}

const N_MATRIX: u64 = 17 * 3 * 13 * 2;
const N_NOFRAME: u64 = 17 * 6;
const N_EDGE: u64 = 64;

fn make_case(seed: u64, stage: &'static str, i: u64) -> Case {
    match stage {
        "matrix" => {
            let mut rng = Rng::derive(0xC09, &[0, i]);
            let f = (i % 17) as usize;
            let u = [Unit::Rows, Unit::Range, Unit::Groups][((i / 17) % 3) as usize];
            let pair = BOUND_PAIRS[((i / 51) % 13) as usize];
            let shape = i / (17 * 3 * 13);
            let frame = mk_frame(&mut rng, u, pair);
            let func = mk_func(&mut rng, f);
            let (w, mode) = mk_spec(&mut rng, func, Some(frame), shape == 1);
            window_case(&mut rng, "matrix", i, vec![w], mode, 26)
        }
        "noframe" => {
            let mut rng = Rng::derive(0xC09, &[1, i]);
            let f = (i % 17) as usize;
            let func = mk_func(&mut rng, f);
            let (w, mode) = mk_spec(&mut rng, func, None, (i / 17) % 2 == 1);
            window_case(&mut rng, "noframe", i, vec![w], mode, 26)
        }
        "random" => {
            let mut rng = Rng::derive(seed, &[2, i]);
            let mut wins = vec![];
            let mut mode = Mode::PerId;
            let n = 1 + rng.usize(3);
            for k in 0..n {
                let fi = rng.usize(17);
                let f = mk_func(&mut rng, fi);
                let frame = if rng.chance(1, 6) {
                    None
                } else {
                    let unit = *rng.pick(&[Unit::Rows, Unit::Range, Unit::Groups]);
                    let pair = *rng.pick(&BOUND_PAIRS);
                    Some(mk_frame(&mut rng, unit, pair))
                };
                let ties = rng.bool();
                let (mut w, m) = mk_spec(&mut rng, f, frame, ties);
                if m == Mode::PeerMultiset {
                    if k == 0 {
                        wins = vec![w];
                        mode = m;
                    }
                    break;
                }
                // most of the time the functions of a query share the window definition (one executor)
                if k > 0 && rng.chance(2, 3) {
                    let w0: &WinSpec = &wins[0];
                    let compatible = !(w.frame.map(|f| f.unit == Unit::Range && f.has_offset()).unwrap_or(false)) && w0.total_order();
                    if compatible {
                        w.partition_by = w0.partition_by.clone();
                        w.order_by = w0.order_by.clone();
                    }
                }
                wins.push(w);
            }
            let max_rows = *rng.pick(&[6usize, 14, 30, 60]);
            window_case(&mut rng, "random", i, wins, mode, max_rows)
        }
        "reversed" => {
            // start bound after end bound: the engine documents a plan-time rejection (skip); if it ever
            // accepts such a frame, the frame is empty by definition
            let mut rng = Rng::derive(0xC09, &[6, i]);
            let unit = [Unit::Rows, Unit::Range, Unit::Groups][(i % 3) as usize];
            let k = |n: u64| Off { num: n };
            let (start, end) = [
                (Bound::CurrentRow, Bound::Preceding(k(2))),
                (Bound::Following(k(1)), Bound::Preceding(k(1))),
                (Bound::Following(k(2)), Bound::CurrentRow),
                (Bound::Preceding(k(1)), Bound::Preceding(k(3))),
                (Bound::Following(k(3)), Bound::Following(k(1))),
            ][((i / 3) % 5) as usize];
            let order_by = if unit == Unit::Range { vec![OrdKey { col: C_OI, desc: false, nulls_first: None }] } else { vec![OrdKey { col: C_OI, desc: false, nulls_first: None }, OrdKey { col: C_ID, desc: false, nulls_first: None }] };
            let w = WinSpec { func: Func::Sum, arg: Some(C_V), partition_by: vec![C_P], order_by, frame: Some(Frame { unit, start, end }) };
            window_case(&mut rng, "reversed", i, vec![w], Mode::PerId, 12)
        }
        "topn" => topn_case(seed, i),
        "limit" => limit_case(seed, i),
        _ => edge_case(i),
    }
}

fn window_case(rng: &mut Rng, stage: &'static str, index: u64, wins: Vec<WinSpec>, mode: Mode, max_rows: usize) -> Case {
    let table = gen_table(rng, max_rows, false);
    let q = Query { wins, mode };
    let sort = required_sort(&q.wins[0], true);
    let variants = standard_variants(rng, &q, index);
    let cells = q.wins.iter().map(cell_of).collect();
    Case { stage, index, sql: q.sql(), expected: expected_for(&table, &q), table, query: Some(q), sort, variants, cells }
}

/// `SELECT * FROM (SELECT id, p, oi, rank_fn() OVER (PARTITION BY p ORDER BY ..) rn [, sibling] FROM t) WHERE rn <= k`
fn topn_case(seed: u64, i: u64) -> Case {
    let mut rng = Rng::derive(seed, &[3, i]);
    let max_rows = *rng.pick(&[8usize, 20, 50]);
    let table = gen_table(&mut rng, max_rows, false);
    let func = [Func::RowNumber, Func::Rank, Func::DenseRank][(i % 3) as usize].clone();
    let key = *rng.pick(&[C_OI, C_OI, C_OF, C_OD]);
    let mut order_by = vec![OrdKey { col: key, desc: rng.bool(), nulls_first: if rng.bool() { None } else { Some(rng.bool()) } }];
    if func == Func::RowNumber || rng.chance(1, 3) {
        order_by.push(OrdKey { col: C_ID, desc: false, nulls_first: None });
    }
    let partition_by = if rng.chance(5, 6) { vec![C_P] } else { vec![] };
    let w = WinSpec { func, arg: None, partition_by: partition_by.clone(), order_by: order_by.clone(), frame: None };
    // an optional sibling over the same window: a ranking function (rewrite allowed) or one that looks at other rows (rewrite must not fire)
    let sibling = match rng.usize(6) {
        0 => Some(WinSpec { func: Func::DenseRank, arg: None, partition_by: partition_by.clone(), order_by: order_by.clone(), frame: None }),
        1 if w.total_order() => Some(WinSpec { func: Func::Lead { off: Some(1), default: None }, arg: Some(C_V), partition_by: partition_by.clone(), order_by: order_by.clone(), frame: None }),
        2 => Some(WinSpec {
            func: Func::CountStar,
            arg: None,
            partition_by: partition_by.clone(),
            order_by: order_by.clone(),
            frame: Some(Frame { unit: Unit::Range, start: Bound::UnboundedPreceding, end: Bound::UnboundedFollowing }),
        }),
        _ => None,
    };
    let k = rng.range(0, 5);
    let (pred, keep): (String, Box<dyn Fn(i64) -> bool>) = match rng.usize(4) {
        0 => (format!("rn <= {k}"), Box::new(move |x| x <= k)),
        1 => (format!("rn < {k}"), Box::new(move |x| x < k)),
        2 => (format!("{k} >= rn"), Box::new(move |x| k >= x)),
        _ => (format!("{k} > rn"), Box::new(move |x| k > x)),
    };
    let inner = format!("SELECT id, p, oi, {} AS rn{} FROM t", w.sql(), sibling.as_ref().map(|s| format!(", {} AS sib", s.sql())).unwrap_or_default());
    let sql = format!("SELECT * FROM ({inner}) WHERE {pred}");
    let rn = oracle::eval(&table.rows, &w);
    let sib = sibling.as_ref().map(|s| oracle::eval(&table.rows, s));
    let mut exp = vec![];
    for (r, row) in table.rows.iter().enumerate() {
        if let Value::Int(x) = rn[r] {
            if keep(x) {
                let mut out = vec![row[C_ID].clone(), row[C_P].clone(), row[C_OI].clone(), rn[r].clone()];
                if let Some(s) = &sib {
                    out.push(s[r].clone());
                }
                exp.push(out);
            }
        }
    }
    let sort = required_sort(&w, true);
    let mut variants = vec![];
    let kind = if rng.chance(1, 3) { VK::Sorted } else { VK::Unsorted };
    let (bs, tp, sp, cut) = (*rng.pick(&BATCH_SIZES), 1 + rng.usize(3), 1 + rng.usize(3), *rng.pick(&BATCH_SIZES));
    for on in ["false", "true"] {
        variants.push(Variant {
            kind,
            swap_to_whole_partition: false,
            batch_size: bs,
            target_partitions: tp,
            source_partitions: sp,
            cut,
            settings: vec![("datafusion.optimizer.enable_window_topn".into(), on.into())],
        });
    }
    let cells = vec![(format!("topn:{}", w.func.name()), "default".into(), "UP..CR(peers)".into())];
    Case { stage: "topn", index: i, table, sql, query: None, expected: Expected::ById(exp), sort, variants, cells }
}

/// `SELECT id, w0, w1 FROM t [ORDER BY <window order>] LIMIT n [OFFSET m]` with causal / look-ahead windows
fn limit_case(seed: u64, i: u64) -> Case {
    let mut rng = Rng::derive(seed, &[4, i]);
    // every second case: the shape under which the pushed-down fetch meets a hash repartition
    // (PARTITION BY, no outer ORDER BY, several source / target partitions, small LIMIT)
    let focused = i % 2 == 1;
    let max_rows = if focused { 60 } else { *rng.pick(&[8usize, 20, 50]) };
    let table = gen_table(&mut rng, max_rows, false);
    let partition_by = if focused || rng.chance(1, 4) { vec![C_P] } else { vec![] };
    let mut order_by = vec![];
    if rng.chance(3, 4) {
        order_by.push(OrdKey { col: *rng.pick(&[C_OI, C_OF, C_OD]), desc: rng.bool(), nulls_first: if rng.bool() { None } else { Some(rng.bool()) } });
    }
    order_by.push(OrdKey { col: C_ID, desc: rng.chance(1, 4), nulls_first: None });
    let mut wins = vec![];
    for _ in 0..(1 + rng.usize(2)) {
        let f = match rng.usize(9) {
            0 => Func::RowNumber,
            1 => Func::Lag { off: Some(rng.range(0, 3)), default: None },
            2 => Func::Lead { off: Some(rng.range(0, 4)), default: None },
            3 => Func::Sum,
            4 => Func::CountStar,
            5 => Func::Min,
            6 => Func::FirstValue,
            7 => Func::NthValue(*rng.pick(&[1i64, 2, -1])),
            _ => Func::Rank,
        };
        let frame = if f.uses_frame() {
            let pair = *rng.pick(&[("UP", "CR"), ("kP", "CR"), ("kP", "kF"), ("CR", "kF"), ("UP", "kF"), ("kP", "kP"), ("kF", "kF")]);
            let unit = if focused || rng.chance(4, 5) { Unit::Rows } else { Unit::Groups };
            Some(mk_frame(&mut rng, unit, pair))
        } else if focused || rng.chance(3, 4) {
            // the rewrite only looks through windows whose frame is written in ROWS (the frame is
            // irrelevant for these functions)
            let pair = *rng.pick(&[("UP", "CR"), ("kP", "CR"), ("CR", "kF"), ("kP", "kF")]);
            Some(mk_frame(&mut rng, Unit::Rows, pair))
        } else {
            None
        };
        let arg = if f.takes_arg() { Some(*rng.pick(&[C_V, C_W, C_OI])) } else { None };
        wins.push(WinSpec { func: f, arg, partition_by: partition_by.clone(), order_by: order_by.clone(), frame });
    }
    let q = Query { wins, mode: Mode::PerId };
    let n = if focused { 1 + rng.usize(4) } else { rng.usize(8) };
    let off = if !focused && rng.chance(1, 3) { rng.usize(4) } else { 0 };
    let ordered = !focused && rng.chance(3, 4);
    // outer ORDER BY = partition keys, then the window order (total)
    let mut outer: Vec<OrdKey> = partition_by.iter().map(|c| OrdKey { col: *c, desc: false, nulls_first: Some(false) }).collect();
    outer.extend(order_by.iter().cloned());
    let sql = format!(
        "{}{} LIMIT {n}{}",
        q.sql(),
        if ordered { format!(" ORDER BY {}", outer.iter().map(|k| k.sql()).collect::<Vec<_>>().join(", ")) } else { String::new() },
        if off > 0 { format!(" OFFSET {off}") } else { String::new() }
    );
    let Expected::ById(all) = expected_for(&table, &q) else { unreachable!() };
    let expected = if ordered {
        let keys: Vec<SortKey> = outer.iter().map(|k| (k.col, k.desc, k.nulls_first_eff())).collect();
        let mut idx: Vec<usize> = (0..table.rows.len()).collect();
        idx.sort_by(|a, b| {
            for (c, d, nf) in &keys {
                let (x, y) = (&table.rows[*a][*c], &table.rows[*b][*c]);
                let o = match (x.is_null(), y.is_null()) {
                    (true, true) => std::cmp::Ordering::Equal,
                    (true, false) => if *nf { std::cmp::Ordering::Less } else { std::cmp::Ordering::Greater },
                    (false, true) => if *nf { std::cmp::Ordering::Greater } else { std::cmp::Ordering::Less },
                    _ => {
                        let o = dfv::value::cmp_nonnull(x, y).unwrap_or(std::cmp::Ordering::Equal);
                        if *d { o.reverse() } else { o }
                    }
                };
                if o != std::cmp::Ordering::Equal {
                    return o;
                }
            }
            std::cmp::Ordering::Equal
        });
        Expected::Sequence(idx.into_iter().skip(off).take(n).map(|r| all[r].clone()).collect())
    } else {
        let total = all.len();
        Expected::SubsetOf { universe: all, n: total.saturating_sub(off).min(n) }
    };
    let sort = required_sort(&q.wins[0], true);
    let kind = if !focused && rng.chance(1, 3) { VK::Sorted } else { VK::Unsorted };
    let (bs, mut tp, mut sp, cut) = (*rng.pick(&BATCH_SIZES), 1 + rng.usize(3), 1 + rng.usize(3), *rng.pick(&BATCH_SIZES));
    if focused {
        tp = tp.max(2);
        sp = sp.max(2);
    }
    let variants = ["false", "true"]
        .iter()
        .map(|on| Variant {
            kind,
            swap_to_whole_partition: false,
            batch_size: bs,
            target_partitions: tp,
            source_partitions: sp,
            cut,
            settings: vec![("datafusion.optimizer.enable_window_limits".into(), on.to_string())],
        })
        .collect();
    let cells = q.wins.iter().map(|w| (format!("limit:{}", w.func.name()), w.frame.map(|f| f.unit.sql().to_string()).unwrap_or("default".into()), w.frame.map(|f| f.pair()).unwrap_or_default())).collect();
    Case { stage: "limit", index: i, table, sql, query: Some(q), expected, sort, variants, cells }
}

/// RANGE offsets whose boundary value lies outside the key type's range (the boundary is then
/// simply beyond every row of the partition), with NULL keys on the side the boundary points to.
fn edge_case(i: u64) -> Case {
    let mut rng = Rng::derive(0xC09, &[5, i]);
    // first half: one fixed minimal table; second half: generated tables with extreme keys
    let table = if i < N_EDGE / 2 {
        let k = [Value::Null, Value::Int(i64::MIN + 1), Value::Int(i64::MIN + 8), Value::Int(5), Value::Int(i64::MAX - 1), Value::Null];
        Table { rows: k.iter().enumerate().map(|(r, k)| vec![Value::Int(r as i64 + 1), Value::Int(1), k.clone(), Value::Null, Value::Null, Value::Int(1 << r), Value::Null]).collect() }
    } else {
        gen_table(&mut rng, 14, true)
    };
    let pair = [("kP", "CR"), ("kP", "kF"), ("CR", "kF"), ("kP", "UF"), ("UP", "kF"), ("kP", "kP"), ("kF", "kF"), ("UP", "kP")][(i % 8) as usize];
    let a = *rng.pick(&[5u64, 100]);
    let b = *rng.pick(&[5u64, 100]);
    let (a, b) = if (pair == ("kP", "kP") && a < b) || (pair == ("kF", "kF") && a > b) { (b, a) } else { (a, b) };
    let mk = |k: &str, n: u64| match k {
        "UP" => Bound::UnboundedPreceding,
        "kP" => Bound::Preceding(Off { num: n }),
        "CR" => Bound::CurrentRow,
        "kF" => Bound::Following(Off { num: n }),
        _ => Bound::UnboundedFollowing,
    };
    let frame = Frame { unit: Unit::Range, start: mk(pair.0, a), end: mk(pair.1, b) };
    let w = WinSpec {
        func: Func::Sum,
        arg: Some(C_V),
        partition_by: vec![],
        order_by: vec![OrdKey { col: C_OI, desc: (i / 8) % 2 == 1, nulls_first: Some((i / 16) % 2 == 0) }],
        frame: Some(frame),
    };
    let q = Query { wins: vec![w], mode: Mode::PerId };
    let sort = required_sort(&q.wins[0], true);
    let mk_v = |kind: VK, swap: bool| Variant { kind, swap_to_whole_partition: swap, batch_size: 8192, target_partitions: 1, source_partitions: 1, cut: 8192, settings: vec![] };
    let variants = vec![mk_v(VK::Unsorted, false), mk_v(VK::Sorted, true)];
    let cells = q.wins.iter().map(|w| { let c = cell_of(w); (format!("edge:{}", c.0), c.1, c.2) }).collect();
    Case { stage: "edge", index: i, sql: q.sql(), expected: expected_for(&table, &q), table, query: Some(q), sort, variants, cells }
}

/// true when some row's RANGE boundary (key ± offset) lies outside the i64 range
fn boundary_overflows(case: &Case) -> bool {
    let Some(q) = &case.query else { return false };
    q.wins.iter().any(|w| {
        let Some(f) = &w.frame else { return false };
        if f.unit != Unit::Range || w.order_by.len() != 1 || COLS[w.order_by[0].col].1 != CT::Int {
            return false;
        }
        let offs: Vec<i128> = [f.start, f.end].iter().filter_map(|b| match b { Bound::Preceding(o) | Bound::Following(o) => Some(o.num as i128), _ => None }).collect();
        case.table.rows.iter().any(|r| match &r[w.order_by[0].col] {
            Value::Int(c) => offs.iter().any(|k| (*c as i128 - k) < i64::MIN as i128 || (*c as i128 + k) > i64::MAX as i128),
            _ => false,
        })
    })
}

fn witness(case: &Case, v: &Variant, ran: Option<&Ran>, note: &str) -> Json {
    json!({
        "stage": case.stage, "index": case.index,
        "sql": case.sql,
        "table": case.table.to_json(),
        "variant": v.to_json(),
        "declared_source_order": if v.kind == VK::Unsorted { json!(null) } else { json!(case.sort.iter().map(|(c, d, nf)| format!("{}{}{}", COLS[*c].0, if *d { " DESC" } else { " ASC" }, if *nf { " NULLS FIRST" } else { " NULLS LAST" })).collect::<Vec<_>>()) },
        "expected": expected_json(&case.expected),
        "engine_rows": ran.map(|r| dfv::value::rows_to_json(&r.rows)),
        "window_executors": ran.map(|r| r.execs.clone()),
        "plan": ran.map(|r| r.plan_text.clone()),
        "difference": note,
        "replay": format!("c09 C09 --seed <seed of this run> --opt only={}:{}", case.stage, case.index),
    })
}

fn one_case(rep: &Report, case: &Case, selftest: bool, verbose: bool) {
    let fp = fp_str(&format!("{}|{}", case.sql, dfv::value::rows_to_json(&case.table.rows)));
    let nontrivial = !case.table.rows.is_empty();
    let mut compared_any = false;
    let mut plans_by_setting: Vec<String> = vec![];
    // outcome of the variant that ran with the rewrite under test switched off
    let mut baseline_ok: Option<bool> = None;
    for v in &case.variants {
        let sort: Vec<SortKey> = if v.kind == VK::Linear { case.query.as_ref().map(|q| required_sort(&q.wins[0], false)).unwrap_or_default() } else { case.sort.clone() };
        let res = vcommon::par::guard(|| {
            let rt = dfv::engine::current_thread_rt();
            rt.block_on(async {
                match tokio::time::timeout(std::time::Duration::from_secs(120), run_variant(&case.table, &case.sql, v, &sort)).await {
                    Ok(r) => Some(r),
                    Err(_) => None,
                }
            })
        });
        let label = v.label();
        let mut ran = match res {
            Err(panic) => {
                UNCLASSIFIED.fetch_add(1, std::sync::atomic::Ordering::Relaxed);
                rep.violation(&format!("engine-panic/{}", case.cells.first().map(|c| c.0.as_str()).unwrap_or("")), witness(case, v, None, &format!("panic: {panic}")));
                continue;
            }
            Ok(None) => {
                rep.inconclusive("a query exceeded the 120 s wall-clock guard");
                continue;
            }
            Ok(Some(Err(RunErr::NotApplicable(why)))) => {
                rep.skip(&format!("variant-not-applicable/{label}: {why}"));
                continue;
            }
            Ok(Some(Err(RunErr::Engine(e)))) => {
                let cls = classify(&e);
                let msg: String = e.to_string().chars().take(300).collect();
                match cls {
                    ErrClass::Plan | ErrClass::NotImplemented => {
                        rep.skip(&format!("engine-{cls:?}"));
                        if case.stage == "reversed" && v.kind == VK::Unsorted && !v.swap_to_whole_partition {
                            rep.count("reversed_bounds/rejected-at-plan-time", 1);
                        }
                        if rep.get_count("rejection_samples") < 8 && v.kind == VK::Unsorted && !v.swap_to_whole_partition {
                            rep.count("rejection_samples", 1);
                            rep.extra(&format!("rejection_sample_{}", rep.get_count("rejection_samples")), json!({"sql": case.sql, "error": msg}));
                        }
                    }
                    _ => {
                        let constructed = v.swap_to_whole_partition || v.kind == VK::Linear;
                        let sig = format!("{}/{}", if constructed { "constructed-executor-fails" } else { "engine-fails-where-definition-succeeds" }, case.cells.first().map(|c| c.0.as_str()).unwrap_or(""));
                        UNCLASSIFIED.fetch_add(1, std::sync::atomic::Ordering::Relaxed);
                        rep.violation(&sig, witness(case, v, None, &format!("engine error ({cls:?}): {msg}")));
                    }
                }
                continue;
            }
            Ok(Some(Ok(r))) => r,
        };
        if selftest {
            // corrupt the observed output: change the last cell of the first row (or invent a row)
            match ran.rows.first_mut() {
                Some(r) => {
                    let last = r.len() - 1;
                    r[last] = match &r[last] {
                        Value::Int(i) => Value::Int(i + 1),
                        Value::Float(f) => Value::Float(f + 1.0),
                        _ => Value::Int(12345),
                    };
                }
                None => ran.rows.push(vec![Value::Int(1), Value::Int(1)]),
            }
        }
        compared_any = true;
        let exec_label = if ran.execs.is_empty() { "no-window-exec".to_string() } else { ran.execs.join("+") };
        rep.count(&format!("executions/{label}"), 1);
        rep.count(&format!("executor/{exec_label}"), 1);
        rep.seen("executors_from_plan_text", &exec_label);
        rep.count(&format!("batch_size/{}", v.batch_size), 1);
        rep.count(&format!("source_rows_per_batch/{}", v.cut), 1);
        rep.count(&format!("source_partitions/{}", v.source_partitions), 1);
        if matches!(v.kind, VK::Sorted | VK::ReverseSorted) && !ran.execs.is_empty() {
            rep.count(&format!("{:?}-source/{}", v.kind, if ran.has_sort { "sort-kept" } else { "sort-elided" }), 1);
        }
        for op in ["PartitionedTopKExec"] {
            if ran.operators.iter().any(|o| o == op) {
                rep.count(&format!("plans_with/{op}"), 1);
            }
        }
        if v.settings.iter().any(|(k, _)| k.contains("enable_window")) {
            plans_by_setting.push(ran.plan_text.clone());
        }
        {
            let mut m = MATRIX.lock().unwrap();
            for (f, u, p) in &case.cells {
                m.cells.entry(f.clone()).or_default().entry(u.clone()).or_default().insert(p.clone());
                for e in ran.execs.iter().filter(|_| ran.execs.len() == 1) {
                    m.execs.entry(f.clone()).or_default().insert(format!("{e}{}", if v.kind == VK::ReverseSorted && !ran.has_sort { "[reversed]" } else { "" }));
                }
            }
        }
        if verbose {
            println!("--- variant {} ---\n{}\nengine rows: {}", v.to_json(), ran.plan_text, dfv::value::rows_to_json(&ran.rows));
        }
        let outcome = compare(&ran.rows, &case.expected);
        if v.settings.iter().any(|(k, val)| k.contains("enable_window") && val == "false") {
            baseline_ok = Some(outcome.is_ok());
        }
        if let Err(d) = outcome {
            let c = case.cells.first().cloned().unwrap_or_default();
            let mut localisation = String::new();
            // deviations whose root cause can be keyed precisely get their own signature
            let sig = if case.stage == "edge" && boundary_overflows(case) {
                rep.count("classified/range-offset-boundary-overflow", 1);
                "range-offset-boundary-overflow".to_string()
            } else if let Some(how) = limit_rewrite_partition_local_topk(case, v, &ran.plan_text, baseline_ok) {
                rep.count("classified/window-limit-per-partition-topk", 1);
                localisation = how;
                "window-limit-per-partition-topk".to_string()
            } else if causal_range_null_peers(case, &d, &ran.execs) {
                rep.count("classified/bounded-executor-range-offset-null-peers", 1);
                "bounded-executor-range-offset-null-peers".to_string()
            } else {
                UNCLASSIFIED.fetch_add(1, std::sync::atomic::Ordering::Relaxed);
                format!("value-mismatch/{}/{}/{}", exec_label, c.0, c.1)
            };
            let note = if localisation.is_empty() { d.text.clone() } else { format!("{}; {localisation}", d.text) };
            rep.violation(&sig, witness(case, v, Some(&ran), &note));
        }
    }
    if plans_by_setting.len() == 2 {
        rep.count(&format!("{}/cases", case.stage), 1);
        if plans_by_setting[0] != plans_by_setting[1] {
            rep.count(&format!("{}/rewrite-changed-the-plan", case.stage), 1);
        }
    }
    if verbose {
        println!("sql: {}\ntable: {}\nexpected: {}", case.sql, case.table.to_json(), expected_json(&case.expected));
    }
    rep.case(fp, nontrivial && compared_any);
    if compared_any {
        rep.count(&format!("compared/{}", case.stage), 1);
        if rep.want_sample() && nontrivial && case.index % 97 == 3 {
            rep.sample(json!({"sql": case.sql, "rows": case.table.rows.len(), "variants": case.variants.iter().map(|v| v.label()).collect::<Vec<_>>()}));
        }
    }
}

fn run_check(args: &Args) -> i32 {
    let rep = Report::new("C09", "exploration", args);
    rep.set_rule("case = (generated table with ties and NULLs, one SELECT with 1-3 window functions) executed in 4 physical variants (unsorted source; source with declared ordering; the same with BoundedWindowAggExec swapped for WindowAggExec; reverse-sorted source / Linear-mode bounded executor / swapped unsorted) and compared with the by-definition oracle; distinct = hash(SQL + table); non-trivial = table non-empty and at least one variant compared");
    rep.assume("the oracle (sort, per-row frame by scanning the whole partition, fold) encodes the documented frame semantics: ROWS by position, GROUPS by peer group, RANGE by key distance with NULL keys forming their own peer group that is only reachable through an UNBOUNDED bound");
    rep.assume("determinism guards: order-dependent functions and ROWS frames run with a total order (unique id appended) or are compared as a multiset of (partition key, order keys, value) with a peer-constant argument; float data is dyadic so sums are exact");
    rep.assume("ntile follows the rule documented in ntile.rs: the first (rows mod n) buckets hold one row more");
    let selftest = args.opt_u64("selftest", 0) > 0;
    if let Some(only) = args.opt_str("only") {
        let (stage, idx) = only.split_once(':').unwrap_or(("random", only));
        let stage: &'static str = match stage {
            "matrix" => "matrix",
            "noframe" => "noframe",
            "topn" => "topn",
            "limit" => "limit",
            "edge" => "edge",
            "reversed" => "reversed",
            _ => "random",
        };
        let mut case = make_case(args.seed, stage, idx.parse().unwrap_or(0));
        // `--opt set=key=value`: one more session setting for every variant of the replayed case
        for (k, val) in args.opt_str("set").unwrap_or("").split(';').filter_map(|kv| kv.split_once('=')) {
            for v in case.variants.iter_mut() {
                v.settings.push((k.to_string(), val.to_string()));
            }
        }
        one_case(&rep, &case, selftest, true);
        return rep.finish();
    }
    let n_random = args.bound("random", 1200, 80_000);
    let n_topn = args.bound("topn", 400, 20_000);
    let n_limit = args.bound("limit", 400, 20_000);
    let stages: [(&'static str, u64); 7] = [("matrix", N_MATRIX), ("noframe", N_NOFRAME), ("edge", N_EDGE), ("reversed", 15), ("random", n_random), ("topn", n_topn), ("limit", n_limit)];
    let mut stage_wall = serde_json::Map::new();
    for (stage, n) in stages {
        let t0 = rep.elapsed_s();
        vcommon::par::run(args.workers, 0..n, |i| {
            if UNCLASSIFIED.load(std::sync::atomic::Ordering::Relaxed) < 60 {
                one_case(&rep, &make_case(args.seed, stage, i), selftest, false)
            }
        });
        stage_wall.insert(stage.to_string(), json!(((rep.elapsed_s() - t0) * 10.0).round() / 10.0));
    }
    rep.extra("stage_wall_s", Json::Object(stage_wall));
    rep.obligation("reversed-bounds", rep.get_count("compared/reversed") + rep.get_count("reversed_bounds/rejected-at-plan-time") >= 15, "frames with start after end are rejected at plan time or evaluated as empty frames");
    // coverage obligations (systematic part)
    {
        let m = MATRIX.lock().unwrap();
        for f in FUNC_NAMES {
            for u in ["ROWS", "RANGE", "GROUPS"] {
                let n = m.cells.get(f).and_then(|x| x.get(u)).map(|s| s.len()).unwrap_or(0);
                rep.obligation(&format!("matrix:{f}/{u}"), n >= 11, &format!("{n}/13 bound pairs compared (plan-time rejections allowed for at most 2)"));
            }
            let ex = m.execs.get(f).cloned().unwrap_or_default();
            rep.obligation(&format!("executors:{f}"), ex.iter().any(|e| e.starts_with("WindowAggExec")), "function evaluated by the whole-partition executor");
            if !matches!(f, "percent_rank" | "cume_dist" | "ntile") {
                rep.obligation(&format!("executors-bounded:{f}"), ex.iter().any(|e| e.starts_with("BoundedWindowAggExec(Sorted)")), "function evaluated by the streaming executor");
            }
        }
        let cells: BTreeMap<&String, BTreeMap<&String, String>> = m.cells.iter().map(|(f, u)| (f, u.iter().map(|(k, v)| (k, v.iter().cloned().collect::<Vec<_>>().join(" "))).collect())).collect();
        rep.extra("function_x_unit_x_boundpairs", json!(cells));
        rep.extra("function_x_executors", json!(m.execs));
    }
    rep.obligation("bounded-executor-without-sort", rep.get_count("Sorted-source/sort-elided") >= 200, "declared source ordering let the window executor run directly on the source");
    rep.obligation("linear-mode", rep.get_count("executor/BoundedWindowAggExec(Linear)") + rep.get_count("executor/BoundedWindowAggExec(PartiallySorted)") >= 50, "bounded executor in Linear / PartiallySorted mode");
    rep.obligation("topn-rewrite-fired", rep.get_count("plans_with/PartitionedTopKExec") >= 30, "enable_window_topn produced PartitionedTopKExec plans");
    rep.obligation("limit-rewrite-fired", rep.get_count("limit/rewrite-changed-the-plan") >= 30, "enable_window_limits changed the physical plan");
    for b in BATCH_SIZES {
        rep.obligation(&format!("batch-size:{b}"), rep.get_count(&format!("batch_size/{b}")) > 0 && rep.get_count(&format!("source_rows_per_batch/{b}")) > 0, "batch size exercised (session and source batches)");
    }
    rep.finish()
}

fn main() {
    let args = Args::parse();
    vcommon::par::quiet_panics();
    std::process::exit(run_check(&args));
}
