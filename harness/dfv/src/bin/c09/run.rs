//! C09 engine side: register the table with a chosen physical layout / declared ordering, plan the
//! SQL, optionally swap the window executor, execute, and describe which executor ran.

use crate::spec::*;
use arrow::array::{ArrayRef, Date32Array, Float64Array, Int64Array};
use arrow::datatypes::{DataType, Field, Schema, SchemaRef};
use arrow::record_batch::RecordBatch;
use datafusion::common::tree_node::{Transformed, TreeNode};
use datafusion::datasource::MemTable;
use datafusion::error::DataFusionError;
use datafusion::physical_plan::sorts::sort::SortExec;
use datafusion::physical_plan::windows::{get_window_mode, BoundedWindowAggExec, WindowAggExec};
use datafusion::physical_plan::{collect, displayable, ExecutionPlan, InputOrderMode};
use datafusion::prelude::*;
use dfv::value::{Row, Value};
use std::cmp::Ordering;
use std::sync::Arc;
use vcommon::{json, Json};

pub fn schema() -> SchemaRef {
    Arc::new(Schema::new(
        COLS.iter()
            .map(|(n, t)| {
                Field::new(
                    *n,
                    match t {
                        CT::Int => DataType::Int64,
                        CT::Float => DataType::Float64,
                        CT::Date => DataType::Date32,
                    },
                    *n != "id",
                )
            })
            .collect::<Vec<_>>(),
    ))
}

fn batch(schema: &SchemaRef, rows: &[&Row]) -> RecordBatch {
    let cols: Vec<ArrayRef> = COLS
        .iter()
        .enumerate()
        .map(|(c, (_, t))| -> ArrayRef {
            match t {
                CT::Int => Arc::new(Int64Array::from_iter(rows.iter().map(|r| if let Value::Int(i) = &r[c] { Some(*i) } else { None }))),
                CT::Float => Arc::new(Float64Array::from_iter(rows.iter().map(|r| if let Value::Float(f) = &r[c] { Some(*f) } else { None }))),
                CT::Date => Arc::new(Date32Array::from_iter(rows.iter().map(|r| if let Value::Int(i) = &r[c] { Some(*i as i32) } else { None }))),
            }
        })
        .collect();
    RecordBatch::try_new(schema.clone(), cols).expect("harness batch")
}

/// (column, descending, nulls_first)
pub type SortKey = (usize, bool, bool);

#[derive(Clone, Copy, Debug, PartialEq, Eq)]
pub enum VK {
    /// rows in generated (shuffled) order, no declared ordering
    Unsorted,
    /// source sorted on (partition keys, order keys, id) and declared so
    Sorted,
    /// source sorted on exactly the reverse ordering and declared so
    ReverseSorted,
    /// source sorted on (order keys, id) only; BoundedWindowAggExec rebuilt in Linear / PartiallySorted mode
    Linear,
}

#[derive(Clone, Debug)]
pub struct Variant {
    pub kind: VK,
    /// replace every BoundedWindowAggExec of the plan by a WindowAggExec over the same input
    pub swap_to_whole_partition: bool,
    pub batch_size: usize,
    pub target_partitions: usize,
    pub source_partitions: usize,
    /// rows per source batch
    pub cut: usize,
    pub settings: Vec<(String, String)>,
}

impl Variant {
    pub fn label(&self) -> String {
        format!("{:?}{}", self.kind, if self.swap_to_whole_partition { "+swap" } else { "" })
    }
    pub fn to_json(&self) -> Json {
        json!({"source": format!("{:?}", self.kind), "swap_bounded_to_whole_partition_exec": self.swap_to_whole_partition, "batch_size": self.batch_size,
            "target_partitions": self.target_partitions, "source_partitions": self.source_partitions, "rows_per_source_batch": self.cut, "settings": self.settings})
    }
}

fn cmp_rows(a: &Row, b: &Row, keys: &[SortKey]) -> Ordering {
    for (c, desc, nf) in keys {
        let (x, y) = (&a[*c], &b[*c]);
        let o = match (x.is_null(), y.is_null()) {
            (true, true) => Ordering::Equal,
            (true, false) => {
                if *nf {
                    Ordering::Less
                } else {
                    Ordering::Greater
                }
            }
            (false, true) => {
                if *nf {
                    Ordering::Greater
                } else {
                    Ordering::Less
                }
            }
            _ => {
                let o = dfv::value::cmp_nonnull(x, y).unwrap_or(Ordering::Equal);
                if *desc {
                    o.reverse()
                } else {
                    o
                }
            }
        };
        if o != Ordering::Equal {
            return o;
        }
    }
    Ordering::Equal
}

/// The ordering the first window of the query needs: partition keys (ASC NULLS LAST), order keys, id.
pub fn required_sort(w: &WinSpec, with_partition: bool) -> Vec<SortKey> {
    let mut keys: Vec<SortKey> = vec![];
    if with_partition {
        for c in &w.partition_by {
            keys.push((*c, false, false));
        }
    }
    for k in &w.order_by {
        if !keys.iter().any(|x| x.0 == k.col) {
            keys.push((k.col, k.desc, k.nulls_first_eff()));
        }
    }
    if !keys.iter().any(|x| x.0 == C_ID) {
        keys.push((C_ID, false, false));
    }
    keys
}

pub fn register(ctx: &SessionContext, table: &Table, v: &Variant, sort: &[SortKey]) -> Result<(), DataFusionError> {
    let schema = schema();
    let mut rows: Vec<&Row> = table.rows.iter().collect();
    let keys: Vec<SortKey> = match v.kind {
        VK::Unsorted => vec![],
        VK::Sorted | VK::Linear => sort.to_vec(),
        VK::ReverseSorted => sort.iter().map(|(c, d, nf)| (*c, !*d, !*nf)).collect(),
    };
    if !keys.is_empty() {
        rows.sort_by(|a, b| cmp_rows(a, b, &keys));
    }
    let np = v.source_partitions.max(1);
    let mut parts: Vec<Vec<&Row>> = vec![vec![]; np];
    for (i, r) in rows.iter().enumerate() {
        // round-robin keeps every partition sorted
        parts[i % np].push(r);
    }
    let partitions: Vec<Vec<RecordBatch>> = parts
        .iter()
        .map(|p| if p.is_empty() { vec![batch(&schema, &[])] } else { p.chunks(v.cut.max(1)).map(|c| batch(&schema, c)).collect() })
        .collect();
    let mut mt = MemTable::try_new(schema, partitions)?;
    if !keys.is_empty() {
        let order: Vec<datafusion::logical_expr::SortExpr> = keys.iter().map(|(c, d, nf)| col(COLS[*c].0).sort(!*d, *nf)).collect();
        mt = mt.with_sort_order(vec![order]);
    }
    ctx.register_table("t", Arc::new(mt))?;
    Ok(())
}

pub struct Ran {
    pub rows: Vec<Row>,
    pub plan_text: String,
    /// window executors of the executed plan, e.g. "BoundedWindowAggExec(Sorted)"
    pub execs: Vec<String>,
    pub has_sort: bool,
    pub operators: Vec<String>,
}

fn describe(plan: &Arc<dyn ExecutionPlan>, execs: &mut Vec<String>, ops: &mut Vec<String>, has_sort: &mut bool, below_window: bool) {
    let mut below = below_window;
    if let Some(b) = plan.downcast_ref::<BoundedWindowAggExec>() {
        let mode = match &b.input_order_mode {
            InputOrderMode::Sorted => "Sorted".to_string(),
            InputOrderMode::Linear => "Linear".to_string(),
            InputOrderMode::PartiallySorted(_) => "PartiallySorted".to_string(),
        };
        execs.push(format!("BoundedWindowAggExec({mode})"));
        below = true;
    } else if plan.is::<WindowAggExec>() {
        execs.push("WindowAggExec".to_string());
        below = true;
    } else if plan.is::<SortExec>() && below_window {
        *has_sort = true;
    }
    ops.push(plan.name().to_string());
    for c in plan.children() {
        describe(c, execs, ops, has_sort, below);
    }
}

pub enum RunErr {
    Engine(DataFusionError),
    /// the requested plan rewrite does not apply to this plan
    NotApplicable(&'static str),
}

fn swap_to_window_agg(plan: Arc<dyn ExecutionPlan>) -> Result<(Arc<dyn ExecutionPlan>, usize), DataFusionError> {
    let mut n = 0;
    let out = plan.transform_up(|node| {
        if let Some(b) = node.downcast_ref::<BoundedWindowAggExec>() {
            if b.input_order_mode == InputOrderMode::Sorted {
                let w = WindowAggExec::try_new(b.window_expr().to_vec(), b.input().clone(), !b.partition_keys().is_empty())?;
                n += 1;
                return Ok(Transformed::yes(Arc::new(w) as Arc<dyn ExecutionPlan>));
            }
        }
        Ok(Transformed::no(node))
    })?;
    Ok((out.data, n))
}

fn to_linear(plan: Arc<dyn ExecutionPlan>) -> Result<(Arc<dyn ExecutionPlan>, usize), DataFusionError> {
    let mut n = 0;
    let out = plan.transform_up(|node| {
        if let Some(b) = node.downcast_ref::<BoundedWindowAggExec>() {
            if let Some(s) = b.input().downcast_ref::<SortExec>() {
                if s.fetch().is_none() && !s.preserve_partitioning() {
                    let x = s.input().clone();
                    let we = b.window_expr();
                    if let Some((false, mode)) = get_window_mode(we[0].partition_by(), we[0].order_by(), &x)? {
                        if mode != InputOrderMode::Sorted {
                            let nb = BoundedWindowAggExec::try_new(we.to_vec(), x, mode, !b.partition_keys().is_empty())?;
                            n += 1;
                            return Ok(Transformed::yes(Arc::new(nb) as Arc<dyn ExecutionPlan>));
                        }
                    }
                }
            }
        }
        Ok(Transformed::no(node))
    })?;
    Ok((out.data, n))
}

pub async fn run_variant(table: &Table, sql: &str, v: &Variant, sort: &[SortKey]) -> Result<Ran, RunErr> {
    let mut cfg = SessionConfig::new().with_target_partitions(v.target_partitions).with_batch_size(v.batch_size).with_information_schema(false);
    for (k, val) in &v.settings {
        cfg.options_mut().set(k, val).map_err(RunErr::Engine)?;
    }
    let ctx = SessionContext::new_with_config(cfg);
    register(&ctx, table, v, sort).map_err(RunErr::Engine)?;
    let df = ctx.sql(sql).await.map_err(RunErr::Engine)?;
    let mut plan = df.create_physical_plan().await.map_err(RunErr::Engine)?;
    if v.kind == VK::Linear {
        // only plans with a single window executor: other window executors above may rely on the ordering
        // that the replaced SortExec established
        let (mut execs, mut ops, mut has_sort) = (vec![], vec![], false);
        describe(&plan, &mut execs, &mut ops, &mut has_sort, false);
        if execs.len() != 1 {
            return Err(RunErr::NotApplicable("the plan does not have exactly one window executor"));
        }
        let (p, n) = to_linear(plan).map_err(RunErr::Engine)?;
        if n == 0 {
            return Err(RunErr::NotApplicable("no BoundedWindowAggExec over a SortExec whose input is ordered on the ORDER BY keys"));
        }
        plan = p;
    }
    if v.swap_to_whole_partition {
        let (p, n) = swap_to_window_agg(plan).map_err(RunErr::Engine)?;
        if n == 0 {
            return Err(RunErr::NotApplicable("no BoundedWindowAggExec in the plan"));
        }
        plan = p;
    }
    let plan_text = displayable(plan.as_ref()).indent(true).to_string();
    let (mut execs, mut operators, mut has_sort) = (vec![], vec![], false);
    describe(&plan, &mut execs, &mut operators, &mut has_sort, false);
    let batches = collect(plan, ctx.task_ctx()).await.map_err(RunErr::Engine)?;
    Ok(Ran { rows: dfv::engine::batches_to_rows(&batches), plan_text, execs, has_sort, operators })
}
