//! C41 — bound query parameters behave like the equivalent literals.
//!
//! A generated C01 query gets a random subset of its literal occurrences (filters, projections, IN
//! lists, CASE, join conditions, subqueries, CTEs, LIMIT/OFFSET) replaced by `$n` placeholders.
//! The parameterized text is executed through every binding route of the engine:
//!
//!   df-list        `ctx.sql(sql)` + `DataFrame::with_param_values(ParamValues::List)`
//!   df-named       the same text with `$p1..` names + `ParamValues::Map`
//!   prepare-typed  `PREPARE p(types…) AS sql` + `EXECUTE p(v1,…)`   (plan optimised with placeholders)
//!   prepare-infer  `PREPARE p AS sql` + `EXECUTE` (only when every inferred type = the value's type)
//!   plan           `SessionState::create_logical_plan(sql)` + `LogicalPlan::with_param_values`
//!   plan-prepare   `create_logical_plan("PREPARE …")` + `LogicalPlan::with_param_values` (unwraps Prepare)
//!
//! ORACLE: the same AST with the values written as literals of the same types, executed by the
//! engine (same context, same table layout); rows must be equal under the case's compare mode. The
//! reference interpreter (params set) is a second opinion: where the literal-inlined execution
//! itself differs from the reference, that is C01's finding (counted + classified, never a C41
//! violation). Only a difference BETWEEN a parameterized route and the inlined execution is a
//! C41 violation (`param-vs-literal/<route>`).

use datafusion::common::{ParamValues, ScalarValue};
use datafusion::logical_expr::{LogicalPlan, Statement};
use datafusion::prelude::{DataFrame, SessionContext};
use dfv::ast::*;
use dfv::canon::compare;
use dfv::cases::Case;
use dfv::dfapi::scalar_of;
use dfv::engine::*;
use dfv::qgen::GenCfg;
use dfv::refint::{Interp, RefErr};
use dfv::value::{rows_to_json, Row, Ty, Value};
use std::collections::{BTreeSet, HashMap};
use vcommon::{json, Args, Json, Report, Rng};

const ROUTES: &[&str] = &["df-list", "df-named", "prepare-typed", "prepare-infer", "plan", "plan-prepare"];
const REQUIRED_POSITIONS: &[&str] = &["where", "select", "in-list", "case", "join-on", "subquery", "limit", "offset", "having", "between", "like-pattern", "derived", "cte", "setop-branch", "agg-arg"];
/// LIMIT / OFFSET are integers in the AST: a parameterized one carries `SENT + slot` until rendering
const SENT: u64 = 18_000_000_000_000_000_000;

#[derive(Clone, Debug)]
struct Slot {
    ty: Ty,
    value: Value,
    tags: BTreeSet<&'static str>,
    uses: usize,
}

// ------------------------------------------------------------------------------------------
// AST traversal with position context
// ------------------------------------------------------------------------------------------

#[derive(Default)]
struct Cx {
    clause: &'static str,
    constructs: Vec<&'static str>,
    nest: Vec<&'static str>,
}

impl Cx {
    fn tags(&self) -> BTreeSet<&'static str> {
        let mut t: BTreeSet<&'static str> = self.constructs.iter().copied().collect();
        t.extend(self.nest.iter().copied());
        if !self.clause.is_empty() {
            t.insert(self.clause);
        }
        t
    }
}

trait Visitor {
    /// called on every `Lit` / `Param` leaf that may be rewritten
    fn leaf(&mut self, e: &mut Expr, cx: &Cx);
    /// called on every query node (LIMIT / OFFSET live there)
    fn limits(&mut self, q: &mut Query, cx: &Cx);
}

fn walk_query(q: &mut Query, cx: &mut Cx, v: &mut dyn Visitor) {
    for c in q.ctes.iter_mut() {
        cx.nest.push(if c.recursive { "recursive-cte" } else { "cte" });
        let saved = std::mem::take(&mut cx.clause);
        walk_query(&mut c.q, cx, v);
        cx.clause = saved;
        cx.nest.pop();
    }
    walk_set(&mut q.body, cx, v, false);
    v.limits(q, cx);
}

fn walk_set(s: &mut SetExpr, cx: &mut Cx, v: &mut dyn Visitor, branch: bool) {
    match s {
        SetExpr::Select(sel) => {
            if branch {
                cx.nest.push("setop-branch");
            }
            walk_select(sel, cx, v);
            if branch {
                cx.nest.pop();
            }
        }
        SetExpr::SetOp { left, right, .. } => {
            walk_set(left, cx, v, true);
            walk_set(right, cx, v, true);
        }
    }
}

fn walk_from(f: &mut From, cx: &mut Cx, v: &mut dyn Visitor) {
    match f {
        From::Table { .. } | From::Series { .. } => {}
        From::Derived { q, .. } => {
            cx.nest.push("derived");
            let saved = std::mem::take(&mut cx.clause);
            walk_query(q, cx, v);
            cx.clause = saved;
            cx.nest.pop();
        }
        From::Join { left, right, on, .. } => {
            walk_from(left, cx, v);
            walk_from(right, cx, v);
            if let Some(e) = on {
                cx.clause = "join-on";
                walk_expr(e, cx, v);
                cx.clause = "";
            }
        }
    }
}

fn walk_select(s: &mut Select, cx: &mut Cx, v: &mut dyn Visitor) {
    let saved = cx.clause;
    if let Some(f) = &mut s.from {
        walk_from(f, cx, v);
    }
    if let Some(w) = &mut s.where_ {
        cx.clause = "where";
        walk_expr(w, cx, v);
    }
    // GROUP BY keys are matched structurally by the engine ("must appear in GROUP BY") and by the
    // reference: the keys and the select items that repeat a key are left untouched
    let keys = s.group_by.clone();
    cx.clause = "select";
    for (e, _) in s.items.iter_mut() {
        if keys.iter().any(|k| k == e) {
            continue;
        }
        walk_expr(e, cx, v);
    }
    if let Some(h) = &mut s.having {
        cx.clause = "having";
        walk_expr(h, cx, v);
    }
    cx.clause = saved;
}

fn walk_sub(q: &mut Query, cx: &mut Cx, v: &mut dyn Visitor) {
    cx.nest.push("subquery");
    let saved = std::mem::take(&mut cx.clause);
    let saved_c = std::mem::take(&mut cx.constructs);
    walk_query(q, cx, v);
    cx.constructs = saved_c;
    cx.clause = saved;
    cx.nest.pop();
}

fn walk_expr(e: &mut Expr, cx: &mut Cx, v: &mut dyn Visitor) {
    macro_rules! within {
        ($tag:expr, $body:block) => {{
            cx.constructs.push($tag);
            $body
            cx.constructs.pop();
        }};
    }
    match e {
        Expr::Lit(..) | Expr::Param(..) => v.leaf(e, cx),
        Expr::Col { .. } | Expr::OutCol(_) => {}
        Expr::Bin(a, _, b) => {
            walk_expr(a, cx, v);
            walk_expr(b, cx, v);
        }
        Expr::NullIf(a, b) => within!("nullif", {
            walk_expr(a, cx, v);
            walk_expr(b, cx, v);
        }),
        Expr::Not(a) | Expr::Neg(a) | Expr::IsNull(a, _) => walk_expr(a, cx, v),
        Expr::Cast(a, _) => within!("cast", { walk_expr(a, cx, v) }),
        Expr::InList { e, list, .. } => {
            walk_expr(e, cx, v);
            within!("in-list", {
                for x in list.iter_mut() {
                    walk_expr(x, cx, v);
                }
            })
        }
        Expr::Between { e, lo, hi, .. } => {
            walk_expr(e, cx, v);
            within!("between", {
                walk_expr(lo, cx, v);
                walk_expr(hi, cx, v);
            })
        }
        Expr::Like { e, pat, .. } => {
            walk_expr(e, cx, v);
            within!("like-pattern", { walk_expr(pat, cx, v) })
        }
        Expr::Case { operand, whens, else_ } => within!("case", {
            if let Some(o) = operand {
                walk_expr(o, cx, v);
            }
            for (w, t) in whens.iter_mut() {
                walk_expr(w, cx, v);
                walk_expr(t, cx, v);
            }
            if let Some(x) = else_ {
                walk_expr(x, cx, v);
            }
        }),
        Expr::Coalesce(xs) => within!("coalesce", {
            for x in xs.iter_mut() {
                walk_expr(x, cx, v);
            }
        }),
        Expr::Func(_, xs) => within!("function-arg", {
            for x in xs.iter_mut() {
                walk_expr(x, cx, v);
            }
        }),
        Expr::Exists { q, .. } | Expr::Scalar(q) => walk_sub(q, cx, v),
        Expr::InSubquery { e, q, .. } | Expr::Quantified { e, q, .. } => {
            walk_expr(e, cx, v);
            walk_sub(q, cx, v);
        }
        Expr::Agg { arg, filter, .. } => {
            if let Some(a) = arg {
                within!("agg-arg", { walk_expr(a, cx, v) })
            }
            if let Some(f) = filter {
                within!("agg-filter", { walk_expr(f, cx, v) })
            }
        }
        Expr::Win { args, .. } => within!("window-arg", {
            for x in args.iter_mut() {
                walk_expr(x, cx, v);
            }
        }),
    }
}

// ------------------------------------------------------------------------------------------
// parameterisation
// ------------------------------------------------------------------------------------------

fn hostile(rng: &mut Rng, ty: Ty) -> Value {
    match ty {
        Ty::Int => match rng.below(12) {
            0 | 1 => Value::Null,
            2 => Value::Int(i64::MAX),
            3 => Value::Int(i64::MIN),
            4 => Value::Int(i32::MAX as i64 + 1),
            5 => Value::Int(i32::MIN as i64 - 1),
            6 => Value::Int((1i64 << 53) + 1),
            7 => Value::Int(0),
            8 => Value::Int(-1),
            _ => Value::Int(rng.range(-3, 9)),
        },
        Ty::Float => match rng.below(8) {
            0 | 1 => Value::Null,
            2 => Value::Float(0.0),
            3 => Value::Float(-1024.5),
            4 => Value::Float(4503599627370496.5_f64),
            5 => Value::Float(0.125),
            _ => Value::Float(rng.range(-16, 40) as f64 / 8.0),
        },
        Ty::Str => match rng.below(12) {
            0 | 1 => Value::Null,
            2 => Value::Str("it's".into()),
            3 => Value::Str("a''b".into()),
            4 => Value::Str("\"q\"".into()),
            5 => Value::Str("'".into()),
            6 => Value::Str("a\\b".into()),
            7 => Value::Str("x';--".into()),
            8 => Value::Str("NULL".into()),
            9 => Value::Str("é' ".into()),
            _ => Value::Str(rng.pick(dfv::qgen::STR_POOL).to_string()),
        },
        Ty::Bool => match rng.below(4) {
            0 => Value::Null,
            _ => Value::Bool(rng.bool()),
        },
    }
}

struct Parameterizer<'a> {
    rng: &'a mut Rng,
    slots: Vec<Slot>,
    limit_ok: bool,
    lits_seen: usize,
    /// probability (x/8) that a literal becomes a placeholder
    p8: u64,
}

impl<'a> Parameterizer<'a> {
    fn new_slot(&mut self, ty: Ty, orig: Value, cx: &Cx, extra: Option<&'static str>, keep_non_null: bool) -> usize {
        // inside a recursive CTE the literals bound the recursion (`n < 5`): a hostile value there makes the
        // query run (practically) forever on both sides, so those placeholders keep the original value
        let keep = cx.nest.contains(&"recursive-cte") || self.rng.chance(11, 20);
        let value = if keep { orig } else { hostile(self.rng, ty) };
        let value = if keep_non_null && value.is_null() { Value::Int(1) } else { value };
        let mut tags = cx.tags();
        if let Some(x) = extra {
            tags.insert(x);
            tags.remove("select");
            tags.remove("where");
        }
        self.slots.push(Slot { ty, value, tags, uses: 1 });
        self.slots.len() - 1
    }
}

impl<'a> Visitor for Parameterizer<'a> {
    fn leaf(&mut self, e: &mut Expr, cx: &Cx) {
        let Expr::Lit(v, ty) = e else { return };
        self.lits_seen += 1;
        if !self.rng.chance(self.p8, 8) {
            return;
        }
        // reuse an existing placeholder for the same typed value now and then ($n used twice)
        if self.rng.chance(1, 5) {
            if let Some(j) = self.slots.iter().position(|s| s.ty == *ty && s.value == *v && !s.tags.contains("limit") && !s.tags.contains("offset")) {
                self.slots[j].uses += 1;
                let t = cx.tags();
                self.slots[j].tags.extend(t);
                self.slots[j].tags.insert("reused");
                *e = Expr::Param(j, *ty);
                return;
            }
        }
        let (v, ty) = (v.clone(), *ty);
        let i = self.new_slot(ty, v, cx, None, false);
        *e = Expr::Param(i, ty);
    }

    fn limits(&mut self, q: &mut Query, cx: &Cx) {
        if !self.limit_ok {
            return;
        }
        if let Some(l) = q.limit {
            if self.rng.chance(3, 5) {
                let i = self.new_slot(Ty::Int, Value::Int(l as i64), cx, Some("limit"), true);
                // LIMIT takes non-negative integers; huge values are avoided (the engine sizes buffers by
                // fetch + skip: LIMIT 9223372036854775807 aborts the process with an allocation failure)
                let nv = match &self.slots[i].value {
                    Value::Int(x) if (0..=100_000).contains(x) => *x,
                    Value::Int(x) => (x.unsigned_abs() % 7) as i64,
                    _ => 1,
                };
                self.slots[i].value = Value::Int(nv);
                q.limit = Some(SENT + i as u64);
            }
        }
        if let Some(o) = q.offset {
            if self.rng.chance(3, 5) {
                let i = self.new_slot(Ty::Int, Value::Int(o as i64), cx, Some("offset"), true);
                let nv = match &self.slots[i].value {
                    Value::Int(x) if (0..=100_000).contains(x) => *x,
                    Value::Int(x) => (x.unsigned_abs() % 5) as i64,
                    _ => 0,
                };
                self.slots[i].value = Value::Int(nv);
                q.offset = Some(SENT + i as u64);
            }
        }
    }
}

/// second pass: Param → literal of the bound value, sentinel limits → bound value
struct Inliner<'a> {
    slots: &'a [Slot],
    params_too: bool,
}

impl<'a> Visitor for Inliner<'a> {
    fn leaf(&mut self, e: &mut Expr, _cx: &Cx) {
        if !self.params_too {
            return;
        }
        if let Expr::Param(i, ty) = e {
            *e = Expr::Lit(self.slots[*i].value.clone(), *ty);
        }
    }
    fn limits(&mut self, q: &mut Query, _cx: &Cx) {
        for x in [&mut q.limit, &mut q.offset] {
            if let Some(l) = x {
                if *l >= SENT {
                    if let Value::Int(v) = &self.slots[(*l - SENT) as usize].value {
                        *x = Some(*v as u64);
                    }
                }
            }
        }
    }
}

struct ParamCase {
    /// `$n` text (positional)
    par_sql: String,
    /// `$pN` text (named)
    named_sql: String,
    inl_sql: String,
    /// AST with `Param` nodes and concrete limits: input of the reference interpreter
    ref_query: Query,
    slots: Vec<Slot>,
}

fn render_with_limit_params(q: &Query, slots: &[Slot]) -> String {
    let mut s = to_sql(q);
    for i in 0..slots.len() {
        if slots[i].tags.contains("limit") || slots[i].tags.contains("offset") {
            s = s.replace(&format!("{}", SENT + i as u64), &format!("${}", i + 1));
        }
    }
    s
}

/// `$12` → `$p12` outside string literals
fn to_named(sql: &str) -> String {
    let mut out = String::with_capacity(sql.len() + 16);
    let mut in_str = false;
    for c in sql.chars() {
        if c == '\'' {
            in_str = !in_str;
        }
        out.push(c);
        if c == '$' && !in_str {
            out.push('p');
        }
    }
    out
}

fn parameterize(q: &Query, rng: &mut Rng, limit_ok: bool) -> Option<ParamCase> {
    let mut pq = q.clone();
    let p8 = 2 + rng.below(5);
    let mut p = Parameterizer { rng, slots: vec![], limit_ok, lits_seen: 0, p8 };
    walk_query(&mut pq, &mut Cx::default(), &mut p);
    let slots = p.slots;
    if slots.is_empty() {
        return None;
    }
    let par_sql = render_with_limit_params(&pq, &slots);
    let named_sql = to_named(&par_sql);
    let mut ref_query = pq.clone();
    walk_query(&mut ref_query, &mut Cx::default(), &mut Inliner { slots: &slots, params_too: false });
    let mut inl = pq;
    walk_query(&mut inl, &mut Cx::default(), &mut Inliner { slots: &slots, params_too: true });
    Some(ParamCase { par_sql, named_sql, inl_sql: to_sql(&inl), ref_query, slots })
}

// ------------------------------------------------------------------------------------------
// engine routes
// ------------------------------------------------------------------------------------------

#[derive(Debug)]
enum RouteErr {
    /// the parameterized text / the binding was rejected before anything ran
    Rejected(&'static str, String),
    /// not applicable (e.g. inferred types differ from the value types)
    NotApplicable(String),
    /// failed while executing the bound plan
    Exec(datafusion::error::DataFusionError),
}

struct Out {
    rows: Vec<Row>,
    types: Vec<String>,
}

async fn collect(df: DataFrame) -> Result<Out, datafusion::error::DataFusionError> {
    let types = df.schema().fields().iter().map(|f| f.data_type().to_string()).collect();
    let batches = df.collect().await?;
    Ok(Out { rows: batches_to_rows(&batches), types })
}

fn scalars(slots: &[Slot]) -> Vec<ScalarValue> {
    // `CAST(NULL AS VARCHAR)` (the literal spelling of a NULL string) is a Utf8View NULL in this engine
    slots.iter().map(|s| if s.ty == Ty::Str && s.value.is_null() { ScalarValue::Utf8View(None) } else { scalar_of(&s.value, s.ty) }).collect()
}

fn type_list(slots: &[Slot]) -> String {
    slots.iter().map(|s| s.ty.sql()).collect::<Vec<_>>().join(", ")
}

fn value_list(slots: &[Slot]) -> String {
    slots.iter().map(|s| lit_sql(&s.value, s.ty)).collect::<Vec<_>>().join(", ")
}

async fn run_route(ctx: &SessionContext, route: &str, pc: &ParamCase, uniq: u64) -> Result<Out, RouteErr> {
    let rej = |stage: &'static str| move |e: datafusion::error::DataFusionError| RouteErr::Rejected(stage, e.to_string());
    match route {
        "df-list" => {
            let df = ctx.sql(&pc.par_sql).await.map_err(rej("planning"))?;
            let df = df.with_param_values(ParamValues::from(scalars(&pc.slots))).map_err(rej("binding"))?;
            collect(df).await.map_err(RouteErr::Exec)
        }
        "df-named" => {
            let df = ctx.sql(&pc.named_sql).await.map_err(rej("planning"))?;
            let map: HashMap<String, ScalarValue> = scalars(&pc.slots).into_iter().enumerate().map(|(i, v)| (format!("p{}", i + 1), v)).collect();
            let df = df.with_param_values(ParamValues::from(map)).map_err(rej("binding"))?;
            collect(df).await.map_err(RouteErr::Exec)
        }
        "prepare-typed" => {
            let name = format!("ps{uniq}");
            ctx.sql(&format!("PREPARE {name}({}) AS {}", type_list(&pc.slots), pc.par_sql)).await.map_err(rej("planning"))?.collect().await.map_err(rej("planning"))?;
            let df = ctx.sql(&format!("EXECUTE {name}({})", value_list(&pc.slots))).await.map_err(rej("binding"));
            let out = match df {
                Ok(df) => collect(df).await.map_err(RouteErr::Exec),
                Err(e) => Err(e),
            };
            let _ = ctx.sql(&format!("DEALLOCATE {name}")).await;
            out
        }
        "prepare-infer" => {
            let name = format!("pi{uniq}");
            let text = format!("PREPARE {name} AS {}", pc.par_sql);
            // inferred types must be the types of the values we bind (the property quantifies over
            // "values of the inferred types"; EXECUTE casts every argument to the inferred type)
            let plan = ctx.state().create_logical_plan(&text).await.map_err(rej("planning"))?;
            let LogicalPlan::Statement(Statement::Prepare(p)) = &plan else { return Err(RouteErr::NotApplicable("not a Prepare plan".into())) };
            if p.fields.len() != pc.slots.len() {
                return Err(RouteErr::NotApplicable("type-not-inferred-for-every-placeholder".into()));
            }
            for (f, s) in p.fields.iter().zip(pc.slots.iter()) {
                if *f.data_type() != arrow_type(s.ty) {
                    return Err(RouteErr::NotApplicable("inferred-type-differs-from-value-type".into()));
                }
            }
            ctx.sql(&text).await.map_err(rej("planning"))?.collect().await.map_err(rej("planning"))?;
            let df = ctx.sql(&format!("EXECUTE {name}({})", value_list(&pc.slots))).await.map_err(rej("binding"));
            let out = match df {
                Ok(df) => collect(df).await.map_err(RouteErr::Exec),
                Err(e) => Err(e),
            };
            let _ = ctx.sql(&format!("DEALLOCATE {name}")).await;
            out
        }
        "plan" => {
            let plan = ctx.state().create_logical_plan(&pc.par_sql).await.map_err(rej("planning"))?;
            let plan = plan.with_param_values(scalars(&pc.slots)).map_err(rej("binding"))?;
            let df = ctx.execute_logical_plan(plan).await.map_err(RouteErr::Exec)?;
            collect(df).await.map_err(RouteErr::Exec)
        }
        "plan-prepare" => {
            let text = format!("PREPARE pp{uniq}({}) AS {}", type_list(&pc.slots), pc.par_sql);
            let plan = ctx.state().create_logical_plan(&text).await.map_err(rej("planning"))?;
            // values of the declared types (VARCHAR is Utf8View), cast the way EXECUTE casts its arguments
            let LogicalPlan::Statement(Statement::Prepare(p)) = &plan else { return Err(RouteErr::NotApplicable("not a Prepare plan".into())) };
            if p.fields.len() != pc.slots.len() {
                return Err(RouteErr::NotApplicable("declared-type-count-differs".into()));
            }
            let mut vals = vec![];
            for (v, f) in scalars(&pc.slots).into_iter().zip(p.fields.iter()) {
                vals.push(datafusion::common::metadata::ScalarAndMetadata::from(v).cast_storage_to(f.data_type()).map_err(rej("binding"))?);
            }
            let plan = plan.with_param_values(ParamValues::List(vals)).map_err(rej("binding"))?;
            let df = ctx.execute_logical_plan(plan).await.map_err(RouteErr::Exec)?;
            collect(df).await.map_err(RouteErr::Exec)
        }
        // localisation re-runs of the PREPARE/EXECUTE route with one optimizer rule removed
        //   "prepare-typed/-<rule>@after"  : removed between PREPARE (plan optimised with placeholders) and EXECUTE
        //   "prepare-typed/-<rule>@before" : removed before PREPARE
        r if r.starts_with("prepare-typed/-") => {
            let (rule, when) = r["prepare-typed/-".len()..].split_once('@').unwrap_or(("", ""));
            let name = format!("pl{uniq}");
            if when == "before" {
                ctx.remove_optimizer_rule(rule);
            }
            ctx.sql(&format!("PREPARE {name}({}) AS {}", type_list(&pc.slots), pc.par_sql)).await.map_err(rej("planning"))?.collect().await.map_err(rej("planning"))?;
            if when == "after" {
                ctx.remove_optimizer_rule(rule);
            }
            let df = ctx.sql(&format!("EXECUTE {name}({})", value_list(&pc.slots))).await.map_err(rej("binding"))?;
            collect(df).await.map_err(RouteErr::Exec)
        }
        _ => unreachable!(),
    }
}

fn err_reason(e: &datafusion::error::DataFusionError) -> String {
    let m = e.to_string();
    let m = m.split('\n').next().unwrap_or("");
    // keep the kind of message, drop identifiers / values
    let mut out = String::new();
    for w in m.split_whitespace().take(9) {
        if w.chars().any(|c| c.is_ascii_digit()) || w.contains('.') && w.len() > 12 {
            out.push_str("… ");
        } else {
            out.push_str(w);
            out.push(' ');
        }
    }
    out.trim().chars().take(70).collect()
}

// ------------------------------------------------------------------------------------------

struct Env {
    limit_ok: bool,
    selftest: bool,
}

fn witness(case: &Case, pc: &ParamCase, route: &str, observed: Option<&[Row]>, inlined: Option<&[Row]>, reference: Option<&[Row]>, what: &str) -> Json {
    json!({
        "route": route,
        "parameterized_sql": pc.par_sql,
        "named_sql": pc.named_sql,
        "inlined_sql": pc.inl_sql,
        "prepare_types": type_list(&pc.slots),
        "params": pc.slots.iter().enumerate().map(|(i, s)| json!({"n": i + 1, "type": s.ty.sql(), "value": s.value.to_json(), "positions": s.tags.iter().collect::<Vec<_>>()})).collect::<Vec<_>>(),
        "tables": db_to_json(&case.db),
        "layout": json!(case.layout),
        "compare_mode": format!("{:?}", case.mode),
        "parameterized_rows": observed.map(rows_to_json),
        "inlined_rows": inlined.map(rows_to_json),
        "reference_rows": reference.map(rows_to_json),
        "what": what,
    })
}

fn one_case(rep: &Report, rng: &mut Rng, cfg: &GenCfg, env: &Env, idx: u64) {
    let case = Case::generate(rng, cfg);
    rep.count("cases_generated", 1);
    let Some(pc) = parameterize(&case.query, rng, env.limit_ok) else {
        rep.count("cases_without_literals", 1);
        return;
    };
    let fp = vcommon::fp_mix(vcommon::fp_mix(vcommon::fp_str(&pc.par_sql), vcommon::fp_str(&value_list(&pc.slots))), vcommon::fp_str(&db_to_json(&case.db).to_string()));
    // reference (params set)
    let reference = {
        let mut it = Interp::new(&case.db);
        it.params = pc.slots.iter().map(|s| s.value.clone()).collect();
        it.run(&pc.ref_query).map(|r| r.rows)
    };
    let res = vcommon::par::guard(|| {
        let rt = current_thread_rt();
        rt.block_on(async {
            let ctx = default_ctx(3, 3);
            register_db_layout(&ctx, &case.db, &case.layout).expect("register");
            let work = async {
                let inl = match ctx.sql(&pc.inl_sql).await {
                    Ok(df) => collect(df).await,
                    Err(e) => Err(e),
                };
                let mut routes = vec![];
                for r in ROUTES {
                    routes.push((*r, run_route(&ctx, r, &pc, idx).await));
                }
                (inl, routes)
            };
            tokio::time::timeout(std::time::Duration::from_secs(180), work).await.ok()
        })
    });
    let (inl, routes) = match res {
        Err(panic) => {
            rep.case(fp, false);
            // a panic is not a row difference; recorded so that it is not lost
            rep.count("engine_panics", 1);
            if rep.get_count("engine_panics") <= 3 {
                rep.extra(&format!("engine_panic_{}", rep.get_count("engine_panics")), json!({"panic": panic, "parameterized_sql": pc.par_sql, "inlined_sql": pc.inl_sql}));
            }
            rep.skip("engine-panic (see extra.engine_panic_*)");
            return;
        }
        Ok(None) => {
            rep.case(fp, false);
            rep.inconclusive("a case exceeded the 180 s wall-clock guard");
            return;
        }
        Ok(Some(x)) => x,
    };
    for s in &pc.slots {
        for t in &s.tags {
            rep.count(&format!("placeholders_at:{t}"), 1);
        }
    }
    rep.count("placeholders_total", pc.slots.len() as u64);
    for s in &pc.slots {
        let k = match (&s.value, s.ty) {
            (Value::Null, _) => "NULL",
            (Value::Int(i), _) if i.unsigned_abs() > (1 << 31) => "boundary-int",
            (Value::Str(x), _) if x.contains('\'') || x.contains('"') || x.contains('\\') => "string-with-quotes",
            (_, Ty::Int) => "int",
            (_, Ty::Float) => "float",
            (_, Ty::Str) => "string",
            (_, Ty::Bool) => "bool",
        };
        rep.count(&format!("value_kind:{k}"), 1);
    }

    let inl = match inl {
        Err(e) => {
            // the literal text itself is rejected / fails: nothing to compare against
            let all_fail = routes.iter().all(|(_, r)| r.is_err());
            rep.case(fp, false);
            rep.skip(&format!("inlined-query-fails:{:?}", classify(&e)));
            if all_fail {
                rep.count("error_agreements", 1);
            } else {
                for (r, o) in &routes {
                    if o.is_ok() {
                        rep.count(&format!("inlined_fails_but_route_succeeds:{r}"), 1);
                        if rep.get_count("inlined_fails_samples") < 4 {
                            rep.count("inlined_fails_samples", 1);
                            rep.extra(&format!("inlined_fails_sample_{}", rep.get_count("inlined_fails_samples")), json!({"route": r, "inlined_sql": pc.inl_sql, "parameterized_sql": pc.par_sql, "values": value_list(&pc.slots), "error": e.to_string().chars().take(300).collect::<String>()}));
                        }
                    }
                }
            }
            return;
        }
        Ok(o) => o,
    };

    // second opinion: inlined execution vs reference interpreter
    let mut ref_rows: Option<Vec<Row>> = None;
    match &reference {
        Ok(rows) => {
            if compare(&inl.rows, rows, &case.mode).is_ok() {
                rep.count("inlined_agrees_with_reference", 1);
                ref_rows = Some(rows.clone());
            } else {
                // C01's business: classify and move on (the param routes are still compared with the inlined run)
                let sig = {
                    let alt = |opts: dfv::refint::RefOpts| {
                        let mut it = Interp::new(&case.db);
                        it.params = pc.slots.iter().map(|s| s.value.clone()).collect();
                        it.opts = opts;
                        it.run(&pc.ref_query).map(|r| r.rows).ok()
                    };
                    let mut found = dfv::cases::explain_by_known_deviation(&case, &inl.rows);
                    if found.is_none() {
                        for (a, b, name) in [(true, false, "setop-all-multiplicity"), (false, true, "in-subquery-two-valued-nested"), (true, true, "setop-all-multiplicity+in-subquery-two-valued-nested")] {
                            if let Some(rows2) = alt(dfv::refint::RefOpts { setop_all_semi_anti: a, in_subquery_two_valued_nested: b }) {
                                if compare(&inl.rows, &rows2, &case.mode).is_ok() {
                                    found = Some(name.to_string());
                                    break;
                                }
                            }
                        }
                    }
                    found.unwrap_or_else(|| "unclassified".into())
                };
                rep.count(&format!("inlined_differs_from_reference(C01):{sig}"), 1);
                if sig == "unclassified" && rep.get_count("c01_samples") < 5 {
                    rep.count("c01_samples", 1);
                    rep.extra(&format!("inlined_vs_reference_sample_{}", rep.get_count("c01_samples")), json!({"inlined_sql": pc.inl_sql, "tables": db_to_json(&case.db), "engine_rows": rows_to_json(&inl.rows), "reference_rows": rows_to_json(rows)}));
                }
            }
        }
        Err(RefErr::Unsupported(_)) => rep.count("reference_declines", 1),
        Err(_) => rep.count("reference_error_engine_succeeds", 1),
    }

    let mut compared = 0;
    for (route, out) in routes {
        match out {
            Ok(mut o) => {
                if env.selftest {
                    // corrupt the OBSERVED value of the parameterized route
                    if o.rows.pop().is_none() {
                        o.rows.push(vec![Value::Int(424242); inl.types.len().max(1)]);
                    }
                }
                compared += 1;
                rep.count(&format!("route:{route}:compared"), 1);
                if let Err(diff) = compare(&o.rows, &inl.rows, &case.mode) {
                    let mut sig = format!("param-vs-literal/{route}");
                    if route.starts_with("prepare") && !env.selftest {
                        // localisation by feature toggle: which optimizer rule, removed at which moment, makes the difference vanish?
                        let grouping_sets = case.feats.iter().any(|f| matches!(*f, "rollup" | "cube" | "grouping-sets"));
                        for (loc, name, applies) in [
                            ("prepare-typed/-common_sub_expression_eliminate@after", "cse-alias-collision-on-reoptimisation", true),
                            ("prepare-typed/-push_down_filter@before", "column-free-predicate-pushed-below-grouping-sets", grouping_sets),
                        ] {
                            if !applies {
                                continue;
                            }
                            let rerun = vcommon::par::guard(|| {
                                current_thread_rt().block_on(async {
                                    let ctx = default_ctx(3, 3);
                                    register_db_layout(&ctx, &case.db, &case.layout).ok()?;
                                    run_route(&ctx, loc, &pc, idx).await.ok()
                                })
                            });
                            if let Ok(Some(r)) = rerun {
                                if compare(&r.rows, &inl.rows, &case.mode).is_ok() {
                                    sig = format!("param-vs-literal/{route}/{name}");
                                    break;
                                }
                            }
                        }
                    }
                    // C01's known deviation (IN / NOT IN (subquery) below OR / NOT is evaluated two-valued through a
                    // mark join) surfaces here when the literal text lets the optimizer fold the OR away
                    // (`... OR 4.5 < 3.375`) while the placeholder keeps it: the literal run is right, the
                    // parameterized one shows the deviation
                    if sig == format!("param-vs-literal/{route}") && pc.par_sql.contains("IN (SELECT") && (pc.par_sql.contains(" OR ") || pc.par_sql.contains("NOT (")) {
                        sig = format!("param-vs-literal/{route}/in-subquery-two-valued-nested");
                    }
                    rep.violation(&sig, witness(&case, &pc, route, Some(&o.rows), Some(&inl.rows), ref_rows.as_deref(), &format!("parameterized execution differs from literal-inlined execution: {diff}")));
                } else if o.types != inl.types {
                    // same values, different column types: observed, not asserted (types are C30's subject)
                    rep.count(&format!("route:{route}:column_type_differs"), 1);
                    if rep.get_count("type_diff_samples") < 4 {
                        rep.count("type_diff_samples", 1);
                        rep.extra(&format!("column_type_sample_{}", rep.get_count("type_diff_samples")), json!({"route": route, "parameterized_sql": pc.par_sql, "values": value_list(&pc.slots), "parameterized_types": o.types, "inlined_types": inl.types}));
                    }
                }
            }
            Err(RouteErr::NotApplicable(why)) => rep.skip(&format!("{route}: {why}")),
            Err(RouteErr::Rejected(stage, msg)) => {
                rep.skip(&format!("{route}: rejected at {stage}"));
                let key = format!("{route}@{stage}");
                if !rep.has_seen("rejection_samples", &key) {
                    rep.seen("rejection_samples", &key);
                    rep.extra(&format!("rejection_sample:{key}"), json!({"parameterized_sql": pc.par_sql, "types": type_list(&pc.slots), "values": value_list(&pc.slots), "error": msg.chars().take(300).collect::<String>()}));
                }
            }
            Err(RouteErr::Exec(e)) => {
                let cls = classify(&e);
                let msg = e.to_string();
                // open C01 findings (a union that keeps the column names of a removed empty input): the literal
                // text hits them or not depending on what constant folding sees; not a binding difference
                let known_c01 = (cls == ErrClass::OptimizerFailure && msg.contains("No field named")) || msg.contains("Physical input schema should be the same as the one converted from logical input schema");
                match cls {
                    _ if known_c01 => rep.skip(&format!("{route}: fails with an open C01 finding (union keeps names of a removed input)")),
                    ErrClass::Plan | ErrClass::NotImplemented => {
                        rep.skip(&format!("{route}: rejected after binding ({cls:?})"));
                        let key = format!("{route}@after-binding:{}", err_reason(&e));
                        if rep.seen_count("rejection_samples") < 40 && !rep.has_seen("rejection_samples", &key) {
                            rep.seen("rejection_samples", &key);
                            rep.extra(&format!("rejection_sample:{key}"), json!({"parameterized_sql": pc.par_sql, "types": type_list(&pc.slots), "values": value_list(&pc.slots), "error": e.to_string().chars().take(300).collect::<String>()}));
                        }
                    }
                    _ => {
                        // the literal text runs, the bound plan fails: a difference in observable behaviour
                        compared += 1;
                        rep.violation(
                            &format!("param-vs-literal/{route}/fails:{cls:?}"),
                            witness(&case, &pc, route, None, Some(&inl.rows), ref_rows.as_deref(), &format!("literal-inlined query succeeds, parameterized execution fails: {}", e.to_string().chars().take(400).collect::<String>())),
                        );
                    }
                }
            }
        }
    }
    let nontrivial = compared > 0 && !inl.rows.is_empty();
    rep.case(fp, nontrivial);
    if compared > 0 {
        rep.count("cases_compared", 1);
        for f in &case.feats {
            rep.seen("features", f);
        }
        if rep.want_sample() && nontrivial && pc.slots.len() >= 2 && idx % 7 == 0 {
            rep.sample(json!({"parameterized_sql": pc.par_sql, "types": type_list(&pc.slots), "values": value_list(&pc.slots), "rows": inl.rows.len(), "routes_compared": compared}));
        }
    }
}

/// does the engine take placeholders in LIMIT / OFFSET on every route?
fn probe_limit(rep: &Report) -> bool {
    let db = dfv::refint::Db { tables: vec![dfv::refint::Table { name: "t0".into(), cols: vec![("id".into(), Ty::Int), ("a".into(), Ty::Int)], rows: (1..=5).map(|i| vec![Value::Int(i), Value::Int(i % 2)]).collect() }] };
    let q_sql = "SELECT r1.id AS c1 FROM t0 AS r1 ORDER BY c1 ASC LIMIT $1 OFFSET $2";
    let pc = ParamCase {
        par_sql: q_sql.into(),
        named_sql: to_named(q_sql),
        inl_sql: "SELECT r1.id AS c1 FROM t0 AS r1 ORDER BY c1 ASC LIMIT 2 OFFSET 1".into(),
        ref_query: Query::simple(Select { distinct: false, items: vec![], from: None, where_: None, group_by: vec![], grouping: Grouping::Plain, sets: vec![], having: None }),
        slots: vec![Slot { ty: Ty::Int, value: Value::Int(2), tags: ["limit"].into_iter().collect(), uses: 1 }, Slot { ty: Ty::Int, value: Value::Int(1), tags: ["offset"].into_iter().collect(), uses: 1 }],
    };
    let rt = current_thread_rt();
    let mut ok = true;
    rt.block_on(async {
        let ctx = default_ctx(2, 3);
        let layout = random_db_layout(&db, 2, 3, &mut Rng::new(1));
        register_db_layout(&ctx, &db, &layout).expect("register");
        for r in ROUTES {
            match run_route(&ctx, r, &pc, 0).await {
                Ok(o) => {
                    let good = o.rows.len() == 2 && matches!(o.rows[0][0], Value::Int(2)) && matches!(o.rows[1][0], Value::Int(3));
                    rep.seen("limit_probe", &format!("{r}: {}", if good { "ok" } else { "runs, rows differ (left to the main oracle)" }));
                }
                Err(RouteErr::NotApplicable(w)) => rep.seen("limit_probe", &format!("{r}: n/a ({w})")),
                Err(e) => {
                    rep.seen("limit_probe", &format!("{r}: rejected ({e:?})").chars().take(160).collect::<String>());
                    if *r != "prepare-infer" {
                        ok = false;
                    }
                }
            }
        }
    });
    ok
}


/// Re-run a recorded witness (tables + layout + parameterized / inlined SQL + typed values) on every route.
fn replay(p: &std::path::Path) -> i32 {
    let Ok(text) = std::fs::read_to_string(p) else { return 2 };
    let Ok(v) = serde_json::from_str::<Json>(&text) else { return 2 };
    let w = v.get("witness").cloned().unwrap_or(v);
    let (Some(db), Some(par_sql), Some(inl_sql)) = (w.get("tables").and_then(db_from_json), w.get("parameterized_sql").and_then(|x| x.as_str()), w.get("inlined_sql").and_then(|x| x.as_str())) else { return 2 };
    let layout = w.get("layout").and_then(layout_from_json);
    let mut slots = vec![];
    for p in w.get("params").and_then(|x| x.as_array()).cloned().unwrap_or_default() {
        let ty = match p.get("type").and_then(|x| x.as_str()) {
            Some("BIGINT") => Ty::Int,
            Some("DOUBLE") => Ty::Float,
            Some("VARCHAR") => Ty::Str,
            _ => Ty::Bool,
        };
        slots.push(Slot { ty, value: Value::from_json(p.get("value").unwrap_or(&Json::Null), ty), tags: BTreeSet::new(), uses: 1 });
    }
    let pc = ParamCase { par_sql: par_sql.to_string(), named_sql: to_named(par_sql), inl_sql: inl_sql.to_string(), ref_query: Query::simple(Select { distinct: false, items: vec![], from: None, where_: None, group_by: vec![], grouping: Grouping::Plain, sets: vec![], having: None }), slots };
    println!("parameterized: {}\ntypes: {}\nvalues: {}\ninlined: {}", pc.par_sql, type_list(&pc.slots), value_list(&pc.slots), pc.inl_sql);
    let rt = current_thread_rt();
    let mut differs = false;
    rt.block_on(async {
        let ctx = default_ctx(3, 3);
        match &layout {
            Some(l) => register_db_layout(&ctx, &db, l).expect("register"),
            None => register_db(&ctx, &db, 1, 8192, &mut Rng::new(1)).expect("register"),
        }
        let inl = match ctx.sql(&pc.inl_sql).await {
            Ok(df) => collect(df).await,
            Err(e) => Err(e),
        };
        match &inl {
            Ok(o) => println!("inlined rows: {}", rows_to_json(&o.rows)),
            Err(e) => println!("inlined error: {e}"),
        }
        for r in ROUTES {
            if std::env::var("DFV_EXPLAIN").is_ok() && *r == "prepare-typed" {
                // what PREPARE stores: the statement's plan optimised while the placeholders are still in it
                if let Ok(LogicalPlan::Statement(Statement::Prepare(pp))) = ctx.state().create_logical_plan(&format!("PREPARE px({}) AS {}", type_list(&pc.slots), pc.par_sql)).await {
                    println!("--- PREPARE input plan:\n{}", pp.input.display_indent());
                    let oc = datafusion::optimizer::OptimizerContext::new_with_config_options(std::sync::Arc::clone(ctx.state().config().options())).without_query_execution_start_time();
                    match ctx.state().optimizer().optimize(pp.input.as_ref().clone(), &oc, |p, r| {
                        if std::env::var("DFV_EXPLAIN").as_deref() == Ok("2") {
                            println!("--- after {}:\n{}", r.name(), p.display_indent());
                        }
                    }) {
                        Ok(p) => {
                            println!("--- optimised with placeholders (what EXECUTE binds):\n{}", p.display_indent());
                            // EXECUTE casts the arguments to the declared types, binds, and the DataFrame optimises again
                            let vals: Vec<datafusion::common::metadata::ScalarAndMetadata> = scalars(&pc.slots).into_iter().zip(pp.fields.iter()).map(|(v, f)| datafusion::common::metadata::ScalarAndMetadata::from(v).cast_storage_to(f.data_type()).expect("cast")).collect();
                            match p.replace_params_with_values(&ParamValues::List(vals)) {
                                Ok(b) => {
                                    println!("--- bound:\n{}", b.display_indent());
                                    match ctx.state().optimize(&b) {
                                        Ok(o) => println!("--- bound + optimised again:\n{}", o.display_indent()),
                                        Err(e) => println!("--- second optimisation error: {e}"),
                                    }
                                }
                                Err(e) => println!("--- bind error: {e}"),
                            }
                        }
                        Err(e) => println!("--- optimiser error: {e}"),
                    }
                }
            }
            match run_route(&ctx, r, &pc, 1).await {
                Ok(o) => {
                    let same = inl.as_ref().map(|i| dfv::canon::multiset_eq(&o.rows, &i.rows)).unwrap_or(false);
                    differs |= !same;
                    println!("{r}: {} {}", if same { "same multiset as inlined" } else { "DIFFERS" }, rows_to_json(&o.rows));
                }
                Err(e) => println!("{r}: {e:?}"),
            }
        }
    });
    if differs {
        println!("VIOLATION property=C41 replay={} (replayed: still differs)", p.display());
        1
    } else {
        println!("REPLAY: every route that ran agrees with the literal-inlined execution");
        0
    }
}

fn run(args: &Args) -> i32 {
    if let Some(p) = &args.replay {
        return replay(p);
    }
    let rep = Report::new("C41", "exploration", args);
    rep.set_rule("case = (generated tables, generated C01-fragment SELECT, random subset of its literal occurrences + LIMIT/OFFSET replaced by $n, one typed value per placeholder: the original literal or NULL / boundary int / string with quotes) executed through 6 binding routes and as literal-inlined text on the same context; distinct = hash(parameterized SQL + bound values + table contents); non-trivial = at least one route was compared with a non-empty literal-inlined result");
    rep.assume("the literal rendering of a value (CAST(NULL AS T), CAST(x AS DOUBLE), quoted strings with '' escaping, parenthesised negative integers) denotes the same typed value as the ScalarValue bound to the placeholder");
    rep.assume("generated queries are deterministic by construction (total ORDER BY before LIMIT, total window orders); replaced literals never sit in GROUP BY keys");
    let selftest = args.opt_u64("selftest", 0) == 1;
    let limit_ok = probe_limit(&rep);
    rep.extra("limit_offset_placeholders_supported", json!(limit_ok));
    let env = Env { limit_ok, selftest };
    let cfg = GenCfg::default();
    let n_sys = args.bound("systematic", 700, 3000);
    let n_rand = args.bound("random", 700, 30_000);
    vcommon::par::run(args.workers, 0..n_sys, |i| {
        let mut rng = Rng::derive(0xC41, &[0, i]);
        let mut c = cfg.clone();
        c.max_depth = 1 + (i % 3) as usize;
        one_case(&rep, &mut rng, &c, &env, i);
    });
    for p in REQUIRED_POSITIONS {
        if (*p == "limit" || *p == "offset") && !limit_ok {
            continue;
        }
        rep.obligation(&format!("position:{p}"), rep.get_count(&format!("placeholders_at:{p}")) > 0, "a placeholder at this position must be executed in the systematic part");
    }
    for r in ROUTES {
        rep.obligation(&format!("route:{r}"), rep.get_count(&format!("route:{r}:compared")) >= 20, "every binding route must be compared at least 20 times in the systematic part");
    }
    for k in ["NULL", "boundary-int", "string-with-quotes"] {
        rep.obligation(&format!("value-kind:{k}"), rep.get_count(&format!("value_kind:{k}")) > 0, "hostile value kind must be bound at least once");
    }
    vcommon::par::run(args.workers, 0..n_rand, |i| {
        if rep.violation_count() > 40 || !rep.within_budget(args.tier.pick(75.0, 1500.0)) {
            return;
        }
        let mut rng = Rng::derive(args.seed, &[41, 1, i]);
        let mut c = cfg.clone();
        c.max_depth = 1 + (i % 4) as usize;
        if i % 7 == 0 {
            c.max_rows = 30;
        }
        one_case(&rep, &mut rng, &c, &env, n_sys + i);
    });
    let compared = rep.get_count("cases_compared");
    rep.obligation("compared-share", compared * 100 >= rep.get_count("cases_generated").saturating_sub(rep.get_count("cases_without_literals")).max(1) * 40, "at least 40% of the parameterized cases must be compared on some route");
    rep.finish()
}

fn main() {
    let args = Args::parse();
    vcommon::par::quiet_panics();
    std::process::exit(run(&args));
}
