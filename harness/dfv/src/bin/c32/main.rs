//! C32 — scalar function results do not depend on argument representation.
//!
//! Code under test: every scalar function of the default registry (core + nested) and of the
//! Spark registry, invoked through `ScalarUDFImpl::invoke_with_args` with the exact
//! `ScalarFunctionArgs` the engine would build (`arg_fields`, `number_rows`, `return_field` from
//! `return_field_from_args`, default `ConfigOptions`).
//!
//! Oracle: the per-row result of the canonical invocation (all arguments arrays, plain encoding,
//! offset 0). Every other representation of the SAME logical rows (scalar arguments, Utf8 /
//! LargeUtf8 / Utf8View, Binary variants, dictionary, sliced, validity variants, batch splits)
//! must give the same value per row wherever both succeed; an Array result has `number_rows` rows;
//! the result type is the declared one; a batch whose rows each succeed alone succeeds.

use arrow::datatypes::DataType;
use datafusion_common::config::ConfigOptions;
use datafusion_common::ScalarValue;
use dfv::fnrep::enc::{ArgRep, Rep, Shape, Split};
use dfv::fnrep::inv::{cell_eq, corrupt, invoke_rep, render, render_sv, Out};
use dfv::fnrep::types::{type_groups_limited, TypeGroup};
use dfv::fnrep::vals::{ArgPools, PoolOpts};
use dfv::fnrep::{is_stringish, registry, FnEntry};
use std::collections::BTreeMap;
use std::sync::atomic::{AtomicU64, Ordering};
use std::sync::{Arc, Mutex};
use vcommon::{fp_mix, fp_str, json, Args, Json, Report, Rng, Tier};

/// Functions that allocate proportionally to an integer argument: magnitudes are capped so that a
/// single row never needs more than a few MB.
const ALLOC_BY_INT: &[&str] = &["repeat", "lpad", "rpad", "space", "format_string", "printf", "randstr"];
/// Functions that build a list whose length is an integer argument / a range: a few hundred elements.
const SERIES: &[&str] = &["array_repeat", "array_resize", "range", "generate_series", "sequence", "array_pad"];

fn pool_opts(e: &FnEntry) -> PoolOpts {
    let n = e.udf.name();
    if SERIES.iter().any(|k| n == *k || n.ends_with(k)) {
        PoolOpts { int_cap: Some(300), small_time: true }
    } else if ALLOC_BY_INT.iter().any(|k| n == *k || n.ends_with(k)) {
        PoolOpts { int_cap: Some(20_000), small_time: true }
    } else {
        PoolOpts::default()
    }
}

#[derive(Default, Clone)]
struct FnStat {
    groups: u64,
    cases: u64,
    good_rows: u64,
    compared_rows: u64,
    nontrivial_cases: u64,
    last_error: String,
    wall_ms: u64,
}

struct Cx<'a> {
    rep: &'a Report,
    args: &'a Args,
    cfg: Arc<ConfigOptions>,
    selftest: bool,
    stats: Mutex<BTreeMap<String, FnStat>>,
    watch: Mutex<BTreeMap<String, (String, std::time::Instant)>>,
    case_no: AtomicU64,
}

impl Cx<'_> {
    /// report + count per signature (the report keeps only a bounded number of witnesses)
    fn violation(&self, sig: &str, witness: Json) {
        let key = format!("violations-by-signature.{sig}");
        if self.rep.get_count(&key) == 0 && self.rep.seen_count("signatures-with-a-witness-in-evidence") < 60 {
            // the report keeps a bounded number of witnesses overall: make sure every signature has one
            self.rep.seen("signatures-with-a-witness-in-evidence", sig);
            self.rep.extra(&format!("first_witness:{sig}"), witness.clone());
        }
        self.rep.count(&key, 1);
        self.rep.violation(sig, witness);
    }
    fn stat(&self, label: &str, f: impl FnOnce(&mut FnStat)) {
        let mut g = self.stats.lock().unwrap_or_else(|e| e.into_inner());
        f(g.entry(label.to_string()).or_default());
    }
}

fn types_str(ts: &[DataType]) -> Vec<String> {
    ts.iter().map(|t| t.to_string()).collect()
}

fn rows_json(cols: &[Vec<ScalarValue>], idx: &[usize]) -> Json {
    json!(idx.iter().map(|i| cols.iter().map(|c| render_sv(&c[*i])).collect::<Vec<_>>()).collect::<Vec<_>>())
}

struct Case<'a> {
    e: &'a FnEntry,
    group: &'a TypeGroup,
    gi: usize,
    vs: u64,
    mask: Vec<usize>,
    seed_tag: String,
}

impl Case<'_> {
    fn witness(&self, cx: &Cx, rep: &Rep, cols: &[Vec<ScalarValue>], what: &str, extra: Json) -> Json {
        let idx: Vec<usize> = (0..cols.first().map(|c| c.len()).unwrap_or(0)).collect();
        json!({
            "function": self.e.label,
            "registry": self.e.registry,
            "canonical_arg_types": types_str(&self.group.canonical),
            "representation": rep.describe(),
            "constant_args": self.mask,
            "rows": rows_json(cols, &idx),
            "what": what,
            "detail": extra,
            "replay": format!("c32 C32 --tier {} --seed {} --opt only={} (type group {}, value set {}, {})", cx.args.tier.name(), cx.args.seed, self.e.label, self.gi, self.vs, self.seed_tag),
        })
    }
}

fn base_args(types: &[DataType], mask: &[usize], scalar_form: bool) -> Vec<ArgRep> {
    types.iter().enumerate().map(|(j, t)| ArgRep { ty: t.clone(), scalar: scalar_form && mask.contains(&j), shape: Shape::Plain }).collect()
}

/// All transforms of the baseline `base` for one case.
fn transforms(group: &TypeGroup, base: &[ArgRep], mask: &[usize], scalar_form: bool, n: usize, has_null: &[bool], rng: &mut Rng, thorough: bool) -> Vec<Rep> {
    let mut out: Vec<Rep> = vec![];
    let with_shape = |args: &[ArgRep], s: Shape| -> Vec<ArgRep> { args.iter().map(|a| if a.scalar { a.clone() } else { ArgRep { shape: s, ..a.clone() } }).collect() };
    if n >= 2 {
        out.push(Rep { label: "split".into(), args: base.to_vec(), split: Split::Chunks(rng.chunks(n, 3)) });
    }
    if !scalar_form && !mask.is_empty() {
        let mut a = base.to_vec();
        for j in mask {
            a[*j].scalar = true;
        }
        out.push(Rep { label: "scalar".into(), args: a, split: Split::Whole });
        if mask.len() >= 2 {
            for j in mask.iter().take(3) {
                let mut a = base.to_vec();
                a[*j].scalar = true;
                out.push(Rep { label: "scalar".into(), args: a, split: Split::Whole });
            }
        }
    }
    if base.iter().any(|a| !a.scalar) {
        out.push(Rep { label: "sliced".into(), args: with_shape(base, Shape::Sliced), split: Split::Whole });
        out.push(Rep { label: "validity".into(), args: with_shape(base, Shape::Validity), split: Split::Whole });
        if base.iter().any(|a| matches!(a.ty, DataType::Utf8View | DataType::BinaryView)) {
            let a: Vec<ArgRep> = base.iter().map(|a| if !a.scalar && matches!(a.ty, DataType::Utf8View | DataType::BinaryView) { ArgRep { shape: Shape::ViewBuffers, ..a.clone() } } else { a.clone() }).collect();
            out.push(Rep { label: "view-buffers".into(), args: a, split: Split::Whole });
        }
    }
    let mut combos: Vec<Rep> = vec![];
    for (label, types) in &group.variants {
        let is_dict = |t: &DataType| matches!(t, DataType::Dictionary(_, _));
        let args: Vec<ArgRep> = types.iter().zip(base.iter()).map(|(t, b)| ArgRep { ty: t.clone(), scalar: b.scalar, shape: if is_dict(t) && !b.scalar { Shape::DictShuffled } else { Shape::Plain } }).collect();
        let any_dict_array = args.iter().any(|a| is_dict(&a.ty) && !a.scalar);
        out.push(Rep { label: label.clone(), args: args.clone(), split: Split::Whole });
        if any_dict_array {
            // the dictionary exactly as `cast` packs it
            let packed: Vec<ArgRep> = args.iter().map(|a| ArgRep { shape: Shape::Plain, ..a.clone() }).collect();
            out.push(Rep { label: "dict-packed".into(), args: packed, split: Split::Whole });
            if args.iter().enumerate().any(|(j, a)| is_dict(&a.ty) && !a.scalar && has_null[j]) {
                let nv: Vec<ArgRep> = args.iter().map(|a| if is_dict(&a.ty) && !a.scalar { ArgRep { shape: Shape::DictNullValues, ..a.clone() } } else { a.clone() }).collect();
                out.push(Rep { label: "dict-null-values".into(), args: nv, split: Split::Whole });
            }
        }
        if args.iter().any(|a| !a.scalar && matches!(a.ty, DataType::Utf8View | DataType::BinaryView)) {
            let a: Vec<ArgRep> = args.iter().map(|a| if !a.scalar && matches!(a.ty, DataType::Utf8View | DataType::BinaryView) { ArgRep { shape: Shape::ViewBuffers, ..a.clone() } } else { a.clone() }).collect();
            out.push(Rep { label: "view-buffers".into(), args: a, split: Split::Whole });
        }
        // combinations
        if !any_dict_array {
            combos.push(Rep { label: format!("{label}+sliced"), args: with_shape(&args, Shape::Sliced), split: Split::Whole });
            combos.push(Rep { label: format!("{label}+validity"), args: with_shape(&args, Shape::Validity), split: Split::Whole });
        }
        if !scalar_form && !mask.is_empty() {
            let mut a = args.clone();
            for j in mask {
                a[*j].scalar = true;
                a[*j].shape = Shape::Plain;
            }
            combos.push(Rep { label: format!("{label}+scalar"), args: a, split: Split::Whole });
        }
        if n >= 2 {
            combos.push(Rep { label: format!("{label}+split"), args: args.clone(), split: Split::Chunks(rng.chunks(n, 2)) });
        }
    }
    if thorough {
        out.extend(combos);
    } else {
        // a bounded random choice of combinations
        rng.shuffle(&mut combos);
        out.extend(combos.into_iter().take(3));
    }
    out
}

/// Declared-type and length checks of one successful chunk.
fn check_shape(cx: &Cx, case: &Case, rep: &Rep, cols: &[Vec<ScalarValue>], len: usize, o: &dfv::fnrep::inv::OkOut) -> bool {
    let mut ok = true;
    if let Some(l) = o.raw_len {
        if l != len {
            ok = false;
            cx.violation(
                &signature("result-length", case.e, &case.group.canonical, rep, cols, &[]),
                case.witness(cx, rep, cols, "an Array result must have number_rows rows", json!({"number_rows": len, "returned_rows": l})),
            );
        }
    }
    if &o.raw_type != o.declared.data_type() {
        ok = false;
        cx.violation(
            &signature("return-type", case.e, &case.group.canonical, rep, cols, &[]),
            case.witness(cx, rep, cols, "the returned value does not have the type declared by return_field_from_args for these argument fields", json!({"declared": o.declared.data_type().to_string(), "returned": o.raw_type.to_string()})),
        );
    }
    ok
}

fn run_case(cx: &Cx, case: &Case, rng: &mut Rng) {
    let e = case.e;
    let udf = e.udf.as_ref();
    let types = &case.group.canonical;
    let arity = types.len();
    let tier_thorough = cx.args.tier == Tier::Thorough;
    let case_no = cx.case_no.fetch_add(1, Ordering::Relaxed);
    let Some(pools) = ArgPools::new(types, pool_opts(e)) else {
        cx.rep.skip("harness-has-no-values-for-type");
        return;
    };
    cx.stat(&e.label, |s| s.cases += 1);
    let memcheck = cx.args.stage == "memcheck";
    let n_cand = if arity == 0 { 3 } else if memcheck { 12 } else { cx.args.bound("candidates", 40, 80) as usize };
    let mut rows: Vec<Vec<ScalarValue>> = (0..n_cand).map(|_| pools.row(rng)).collect();
    let garbage: Vec<Vec<ScalarValue>> = pools.pools.iter().map(|p| if p.is_empty() { vec![] } else { vec![rng.pick(p).clone(), rng.pick(p).clone()] }).collect();
    let to_cols = |rows: &[Vec<ScalarValue>], idx: &[usize]| -> Vec<Vec<ScalarValue>> { (0..arity).map(|j| idx.iter().map(|i| rows[*i][j].clone()).collect()).collect() };
    let all_idx: Vec<usize> = (0..n_cand).collect();

    let alone = |rows: &[Vec<ScalarValue>], args: &[ArgRep]| -> Vec<Out> {
        let cols = to_cols(rows, &all_idx);
        let r = Rep { label: "split:row-by-row".into(), args: args.to_vec(), split: Split::RowByRow };
        invoke_rep(udf, &cols, types, &r, n_cand, &garbage, &cx.cfg).into_iter().map(|(_, _, o)| o).collect()
    };

    // --- rows alone, all-array form; constants for the masked arguments come from a succeeding row
    let form_a = base_args(types, &case.mask, false);
    let mut alone_a = alone(&rows, &form_a);
    if !case.mask.is_empty() {
        let donor = alone_a.iter().position(|o| o.is_ok()).unwrap_or(0);
        let donor_row = rows[donor].clone();
        for r in rows.iter_mut() {
            for j in &case.mask {
                r[*j] = donor_row[*j].clone();
            }
        }
        alone_a = alone(&rows, &form_a);
    }
    let mut scalar_form = false;
    let mut alone_base = alone_a;
    if !alone_base.iter().any(|o| o.is_ok()) && !case.mask.is_empty() {
        // arguments that must be constants: fall back to the scalar form as the baseline; search the
        // pools for constants with which some row succeeds
        let form_s = base_args(types, &case.mask, true);
        let tries: Vec<Vec<ScalarValue>> = if case.mask.len() == 1 {
            let j = case.mask[0];
            let mut t: Vec<Vec<ScalarValue>> = vec![vec![rows[0][j].clone()]];
            t.extend(pools.pools[j].iter().take(160).map(|v| vec![v.clone()]));
            t
        } else {
            let mut t: Vec<Vec<ScalarValue>> = vec![case.mask.iter().map(|j| rows[0][*j].clone()).collect()];
            for _ in 0..48 {
                t.push(case.mask.iter().map(|j| if pools.pools[*j].is_empty() { rows[0][*j].clone() } else { rng.pick(&pools.pools[*j]).clone() }).collect());
            }
            t
        };
        let probe_rows = 6.min(n_cand);
        for consts in tries {
            // cheap probe on a few rows first
            let mut probe: Vec<Vec<ScalarValue>> = rows[..probe_rows].to_vec();
            for r in probe.iter_mut() {
                for (k, j) in case.mask.iter().enumerate() {
                    r[*j] = consts[k].clone();
                }
            }
            let pcols = to_cols(&probe, &(0..probe_rows).collect::<Vec<_>>());
            let r = Rep { label: "probe".into(), args: form_s.clone(), split: Split::RowByRow };
            if !invoke_rep(udf, &pcols, types, &r, probe_rows, &garbage, &cx.cfg).iter().any(|(_, _, o)| o.is_ok()) {
                continue;
            }
            for r in rows.iter_mut() {
                for (k, j) in case.mask.iter().enumerate() {
                    r[*j] = consts[k].clone();
                }
            }
            let alone_s = alone(&rows, &form_s);
            if alone_s.iter().any(|o| o.is_ok()) {
                scalar_form = true;
                alone_base = alone_s;
                cx.rep.count("baseline.scalar-form-cases", 1);
                break;
            }
        }
    }
    let base = base_args(types, &case.mask, scalar_form);
    for o in &alone_base {
        match o {
            Out::Panic(m) => {
                cx.rep.count("observed.panics", 1);
                cx.rep.seen("panicking-functions", &e.label);
                if cx.rep.get_count("observed.panic-samples") < 10 {
                    cx.rep.count("observed.panic-samples", 1);
                    cx.rep.extra(&format!("panic_sample_{}", cx.rep.get_count("observed.panic-samples")), json!({"function": e.label, "types": types_str(types), "panic": m}));
                }
            }
            Out::Err(m) => cx.stat(&e.label, |s| s.last_error = m.chars().take(160).collect()),
            Out::Rejected(m) => cx.stat(&e.label, |s| s.last_error = m.chars().take(160).collect()),
            Out::Ok(_) => {}
        }
    }
    let good: Vec<usize> = all_idx.iter().copied().filter(|i| alone_base[*i].is_ok()).collect();
    let bad: Vec<usize> = all_idx.iter().copied().filter(|i| alone_base[*i].failed()).collect();
    let fp = fp_mix(fp_str(&e.label), fp_mix(fp_str(&format!("{:?}{:?}", types, case.mask)), fp_str(&rows_json(&to_cols(&rows, &all_idx), &all_idx).to_string())));
    if good.is_empty() {
        cx.rep.count(if alone_base.iter().all(|o| matches!(o, Out::Rejected(_))) { "cases.rejected-at-planning" } else { "cases.no-row-succeeds" }, 1);
        cx.rep.case(fp, false);
        return;
    }
    let n_good = if arity == 0 { 3 } else if memcheck { 6 } else { cx.args.bound("rows", 12, 20) as usize };
    let g: Vec<usize> = good.iter().copied().take(n_good).collect();
    let n = g.len();
    let cols = to_cols(&rows, &g);
    let has_null: Vec<bool> = cols.iter().map(|c| c.iter().any(|v| v.is_null())).collect();
    cx.stat(&e.label, |s| s.good_rows += n as u64);
    cx.rep.count("rows.succeeding-alone", n as u64);

    // --- A: the whole batch of rows that succeed alone must succeed, with the same values
    let canon = Rep { label: if scalar_form { "baseline(scalar-form)".into() } else { "canonical".into() }, args: base.clone(), split: Split::Whole };
    let whole = invoke_rep(udf, &cols, types, &canon, n, &garbage, &cx.cfg).pop().map(|x| x.2);
    let Some(whole) = whole else { return };
    let baseline = match whole {
        Out::Ok(o) => o,
        Out::Rejected(m) => {
            cx.rep.count("cases.baseline-rejected", 1);
            cx.stat(&e.label, |s| s.last_error = m);
            cx.rep.case(fp, false);
            return;
        }
        other => {
            cx.rep.case(fp, true);
            cx.violation(
                &signature("batch-fails-rows-succeed", e, types, &Rep { label: "split".into(), ..canon.clone() }, &cols, &[]),
                case.witness(cx, &canon, &cols, "every row evaluates successfully on its own but the batch fails", json!({"batch": other.message()})),
            );
            return;
        }
    };
    check_shape(cx, case, &canon, &cols, n, &baseline);
    let mut compared_rows = 0u64;
    let mut nonnull_result = false;
    {
        let mut diffs = vec![];
        for (k, i) in g.iter().enumerate() {
            if let Out::Ok(a) = &alone_base[*i] {
                if a.norm.data_type() != baseline.norm.data_type() || baseline.norm.len() != n || a.norm.len() != 1 {
                    continue;
                }
                compared_rows += 1;
                if baseline.norm.is_valid(k) && baseline.norm.data_type() != &DataType::Null {
                    nonnull_result = true;
                }
                if !cell_eq(&a.norm, 0, &baseline.norm, k) {
                    diffs.push(json!({"row": k, "alone": render(&a.norm, 0), "in_batch": render(&baseline.norm, k)}));
                }
            }
        }
        cx.rep.count("matrix.split:row-by-row.compared_rows", compared_rows);
        if !diffs.is_empty() {
            let r = Rep { label: "split".into(), args: base.clone(), split: Split::RowByRow };
            let rows_d: Vec<usize> = diffs.iter().filter_map(|d| d.get("row").and_then(|x| x.as_u64()).map(|x| x as usize)).collect();
            let sig = signature("representation-dependence", e, types, &r, &cols, &rows_d);
            cx.violation(&sig, case.witness(cx, &r, &cols, "a row evaluated alone differs from the same row evaluated inside the batch", json!({"differences": diffs})));
        }
    }

    // --- B: a batch containing rows that fail alone
    if !bad.is_empty() && arity > 0 {
        let mut idx = g.clone();
        idx.insert(idx.len() / 2, bad[0]);
        if bad.len() > 1 {
            idx.push(bad[bad.len() - 1]);
        }
        let mcols = to_cols(&rows, &idx);
        let r = invoke_rep(udf, &mcols, types, &canon, idx.len(), &garbage, &cx.cfg).pop().map(|x| x.2);
        match r {
            Some(Out::Ok(o)) => {
                cx.rep.count("error-parity.rows-fail-batch-succeeds", 1);
                if !cx.rep.has_seen("functions-lenient-in-batches", &e.label) {
                    let bad_pos: Vec<usize> = idx.iter().enumerate().filter(|(_, i)| bad.contains(i)).map(|(k, _)| k).collect();
                    cx.rep.extra(
                        &format!("lenient_in_batch_sample_{}", e.label),
                        json!({"types": types_str(types), "rows": rows_json(&mcols, &(0..idx.len()).collect::<Vec<_>>()), "rows_failing_alone": bad_pos.iter().map(|k| json!({"row": k, "alone": alone_base[idx[*k]].message(), "in_batch": render(&o.norm, *k)})).collect::<Vec<_>>()}),
                    );
                }
                cx.rep.seen("functions-lenient-in-batches", &e.label);
                // the rows that succeed alone must still have their values
                let mut diffs = vec![];
                if o.norm.data_type() == baseline.norm.data_type() && o.norm.len() == idx.len() && baseline.norm.len() == n {
                    for (k, i) in idx.iter().enumerate() {
                        if let Some(pos) = g.iter().position(|x| x == i) {
                            if !cell_eq(&o.norm, k, &baseline.norm, pos) {
                                diffs.push(json!({"row": k, "with_failing_rows_present": render(&o.norm, k), "without": render(&baseline.norm, pos)}));
                            }
                        }
                    }
                }
                if !diffs.is_empty() {
                    let rows_d: Vec<usize> = diffs.iter().filter_map(|d| d.get("row").and_then(|x| x.as_u64()).map(|x| x as usize)).collect();
                    let sig = signature("representation-dependence", e, types, &Rep { label: "split".into(), ..canon.clone() }, &mcols, &rows_d);
                    cx.violation(&sig, case.witness(cx, &canon, &mcols, "the value of a row depends on which other rows are in the batch", json!({"differences": diffs})));
                }
            }
            Some(o) if o.failed() => cx.rep.count("error-parity.batch-with-failing-row-fails", 1),
            _ => {}
        }
    }

    // --- C: every other representation of the same rows
    let mut any_variant_compared = false;
    let reps = transforms(case.group, &base, &case.mask, scalar_form, n, &has_null, rng, tier_thorough);
    for (ri, r) in reps.iter().enumerate() {
        let key = |k: &str| format!("matrix.{}.{k}", r.label);
        let outs = invoke_rep(udf, &cols, types, r, n, &garbage, &cx.cfg);
        if outs.iter().any(|(_, _, o)| matches!(o, Out::Rejected(_))) {
            cx.rep.count(&key("not_applicable"), 1);
            continue;
        }
        if outs.iter().any(|(_, _, o)| o.failed()) {
            // error parity inside this representation: do the rows succeed alone?
            let rr = Rep { label: r.label.clone(), args: r.args.clone(), split: Split::RowByRow };
            let per_row = invoke_rep(udf, &cols, types, &rr, n, &garbage, &cx.cfg);
            if r.split != Split::RowByRow && per_row.iter().all(|(_, _, o)| o.is_ok()) {
                let msg = outs.iter().find(|(_, _, o)| o.failed()).map(|(_, _, o)| o.message()).unwrap_or_default();
                cx.violation(
                    &signature("batch-fails-rows-succeed", e, types, r, &cols, &[]),
                    case.witness(cx, r, &cols, "in this representation every row evaluates successfully on its own but the batch fails", json!({"batch": msg})),
                );
            } else {
                cx.rep.count(&key("fails_at_runtime"), 1);
                cx.rep.seen(&format!("runtime-failure:{}", r.label.split('+').next().unwrap_or("")), &e.label);
                let msg = outs.iter().find(|(_, _, o)| o.failed()).map(|(_, _, o)| o.message()).unwrap_or_default();
                cx.stat(&e.label, |s| s.last_error = format!("[{}] {}", r.label, msg.chars().take(160).collect::<String>()));
            }
            continue;
        }
        let mut diffs = vec![];
        let mut rows_cmp = 0u64;
        let mut type_differs = false;
        for (start, len, o) in &outs {
            let Out::Ok(o) = o else { continue };
            check_shape(cx, case, r, &cols, *len, o);
            let mut observed = o.norm.clone();
            if cx.selftest && (case_no + ri as u64) % 3 == 0 {
                if let Some(c) = corrupt(&observed) {
                    observed = c;
                }
            }
            if observed.len() != *len || baseline.norm.len() != n {
                continue; // reported by check_shape
            }
            if observed.data_type() != baseline.norm.data_type() {
                type_differs = true;
                continue;
            }
            for k in 0..*len {
                rows_cmp += 1;
                if !cell_eq(&observed, k, &baseline.norm, start + k) {
                    diffs.push(json!({"row": start + k, "canonical": render(&baseline.norm, start + k), "this_representation": render(&observed, k)}));
                }
            }
        }
        if type_differs {
            cx.rep.count(&key("result_type_follows_arguments"), 1);
        }
        cx.rep.count(&key("compared_rows"), rows_cmp);
        cx.rep.count(&key("compared_cases"), (rows_cmp > 0) as u64);
        compared_rows += rows_cmp;
        any_variant_compared |= rows_cmp > 0;
        if !diffs.is_empty() {
            let rows_d: Vec<usize> = diffs.iter().filter_map(|d| d.get("row").and_then(|x| x.as_u64()).map(|x| x as usize)).collect();
            diffs.truncate(6);
            let sig = signature("representation-dependence", e, types, r, &cols, &rows_d);
            cx.violation(&sig, case.witness(cx, r, &cols, "per-row result differs from the canonical all-array plain-encoding invocation", json!({"differences": diffs})));
        }
    }
    let nontrivial = nonnull_result && any_variant_compared;
    cx.stat(&e.label, |s| {
        s.compared_rows += compared_rows;
        s.nontrivial_cases += nontrivial as u64;
    });
    cx.rep.case(fp, nontrivial);
    if nontrivial {
        cx.rep.seen(&format!("functions-compared:{}", e.registry), &e.label);
        if cx.rep.want_sample() && arity >= 2 && case_no % 37 == 0 {
            cx.rep.sample(json!({"function": e.label, "types": types_str(types), "constant_args": case.mask, "rows": rows_json(&cols, &(0..n.min(3)).collect::<Vec<_>>()), "canonical_results": (0..n.min(3)).map(|k| render(&baseline.norm, k)).collect::<Vec<_>>(), "representations": reps.iter().map(|r| r.label.clone()).collect::<Vec<_>>()}));
        }
    }
}

/// Violation signature. Deviations whose root cause is keyed precisely get their own signature
/// (so that anything else in the same function still surfaces under the generic one).
fn signature(kind: &str, e: &FnEntry, types: &[DataType], rep: &Rep, cols: &[Vec<ScalarValue>], rows: &[usize]) -> String {
    let name = e.udf.name();
    let label = &e.label;
    let n = cols.first().map(|c| c.len()).unwrap_or(0);
    let is_null = |j: usize, r: usize| cols.get(j).and_then(|c| c.get(r)).map(|v| v.is_null()).unwrap_or(false);
    let nested = |t: &DataType| matches!(t, DataType::List(_) | DataType::LargeList(_) | DataType::FixedSizeList(_, _) | DataType::Struct(_) | DataType::Map(_, _));
    if kind == "return-type" {
        // the declared type follows the argument encoding: key by the encoding (if any)
        let first = rep.label.split('+').next().unwrap_or("");
        return format!("return-type/{label}/{}", if first.starts_with("enc") || first.starts_with("dict") { first } else { "any-representation" });
    }
    if label == "spark:map_from_arrays" && rep.label.contains("sliced") {
        return "spark:map_from_arrays/slice-offset-ignored".to_string();
    }
    if kind == "representation-dependence" {
        if (name == "array_has_all" || name == "array_has_any") && !rows.is_empty() && rows.iter().all(|r| is_null(0, *r) || is_null(1, *r)) {
            // array_has_all_and_any_dispatch: `if needle.values().is_empty()` answers true/false for every row
            return format!("{label}/null-argument-ignored-when-no-needle-has-elements");
        }
    }
    // every argument a constant, more than one row requested: the function sizes its output by its arguments
    // (when row 0 differs too it is a constant-vs-column difference, not a sizing problem)
    if !rep.args.is_empty() && rep.args.iter().all(|a| a.scalar) && n > 1 && !(kind == "representation-dependence" && rows.contains(&0)) {
        return format!("{label}/all-constant-arguments-with-several-rows");
    }
    if kind == "representation-dependence" {
        if rep.label.contains("validity") && !rows.is_empty() && rows.iter().all(|r| (0..types.len()).any(|j| is_null(j, *r))) {
            // the only thing this representation changes for a NULL value is what lies under the NULL slot
            return format!("{label}/content-under-null-slot-leaks");
        }
        if name == "map" && e.registry != "spark" && (rep.label.contains("split") || rep.label == "canonical") {
            return "map/values-misaligned-across-rows".to_string();
        }
    }
    if kind == "batch-fails-rows-succeed" && rep.label.contains("validity") && (0..types.len()).any(|j| nested(&types[j]) && (0..n).any(|r| is_null(j, r))) {
        // the canonical batch of the same rows succeeds; only the bytes under NULL nested slots differ
        return format!("{label}/content-under-null-slot-leaks");
    }
    if kind == "result-length" {
        return format!("result-length/{label}/{}", rep.label.rsplit('+').next().unwrap_or(""));
    }
    // combined representations ("enc:Utf8View+sliced") are keyed by their last component; the plain
    // encoding is always run on its own as well and would be reported under its own key
    format!("{kind}/{label}/{}", rep.label.rsplit('+').next().unwrap_or(""))
}

fn mask_for(vs: u64, arity: usize, gi: usize, rng: &mut Rng) -> Vec<usize> {
    if arity == 0 {
        return vec![];
    }
    match vs {
        0 => vec![],
        1 => vec![(gi + arity - 1) % arity],
        2 if arity >= 2 => (0..arity).collect(),
        2 => vec![],
        3 if arity >= 2 => vec![gi % arity],
        _ => (0..arity).filter(|_| rng.chance(1, 3)).collect(),
    }
}

fn run(args: &Args) -> i32 {
    let rep = Report::new("C32", "exploration", args);
    rep.set_rule("case = (scalar function, accepted argument type list, constant-argument mask, generated rows); the rows that evaluate successfully one at a time in the canonical form (all arrays, plain encoding, offset 0) are re-evaluated as one batch and in every other representation the function accepts without a cast; distinct = hash(function, types, mask, row values); non-trivial = some row has a non-NULL canonical result and at least one alternative representation was compared row by row");
    rep.assume("a type list is accepted iff the engine's own coercion (fields_with_udf) returns it unchanged and return_field_from_args succeeds; other lists are never passed (the engine would insert casts)");
    rep.assume("string/binary/dictionary result encodings that follow the argument encoding are compared after a cast to the plain encoding; float results bit-for-bit (NaN = NaN)");
    rep.assume("debug assertions / overflow checks are enabled in this build: a panic counts as a failed evaluation of that invocation, never as a value");
    let memcheck = args.stage == "memcheck";
    let reg = registry();
    let only = args.opt_str("only").map(|s| s.to_string());
    let fns: Vec<FnEntry> = reg.fns.iter().filter(|e| only.as_deref().map(|o| o == e.label || o == e.udf.name()).unwrap_or(true)).filter(|e| !memcheck || is_stringish(e)).cloned().collect();
    rep.extra("skipped_by_name", json!(reg.skipped));
    rep.count("functions.enumerated", (reg.fns.len() + reg.skipped.len()) as u64);
    rep.count("functions.skipped-by-name", reg.skipped.len() as u64);
    rep.count("functions.in-scope", fns.len() as u64);

    let max_groups = if memcheck { 2 } else { args.bound("groups", 8, 24) as usize };
    let sys_sets: u64 = if memcheck { 2 } else { args.bound("systematic_sets", 4, 4) };
    let rand_sets: u64 = if memcheck { 0 } else { args.bound("random_sets", 6, 200) };
    let cx = Cx { rep: &rep, args, cfg: Arc::new(ConfigOptions::default()), selftest: args.opt_u64("selftest", 0) == 1, stats: Mutex::new(BTreeMap::new()), watch: Mutex::new(BTreeMap::new()), case_no: AtomicU64::new(0) };

    // work items: (function, group index, value set)
    struct Item {
        e: FnEntry,
        groups: Arc<Vec<TypeGroup>>,
        gi: usize,
        vs: u64,
    }
    let mut items: Vec<Item> = vec![];
    let mut no_types: Vec<String> = vec![];
    for e in &fns {
        let groups = match vcommon::par::guard(|| type_groups_limited(e.udf.as_ref(), max_groups, if memcheck { 120 } else { 1500 })) {
            Ok(g) => g,
            Err(p) => {
                rep.count("observed.panics-in-coercion", 1);
                rep.extra(&format!("coercion_panic_{}", e.label), json!(p));
                vec![]
            }
        };
        if groups.is_empty() {
            no_types.push(e.label.clone());
            rep.skip("no-accepted-type-list-found");
            continue;
        }
        cx.stat(&e.label, |s| s.groups = groups.len() as u64);
        for g in &groups {
            for (l, _) in &g.variants {
                rep.count(&format!("accepted-encodings.{l}"), 1);
            }
        }
        let groups = Arc::new(groups);
        for gi in 0..groups.len() {
            let sets = if groups[gi].canonical.is_empty() { 1 } else { sys_sets + rand_sets };
            for vs in 0..sets {
                items.push(Item { e: e.clone(), groups: groups.clone(), gi, vs });
            }
        }
    }
    rep.extra("functions_without_accepted_types", json!(no_types));
    if args.opt_u64("dump", 0) == 1 {
        for it in &items {
            if it.vs == 0 {
                let g = &it.groups[it.gi];
                println!("{} {:?} variants={:?}", it.e.label, types_str(&g.canonical), g.variants.iter().map(|(l, t)| format!("{l}:{:?}", types_str(t))).collect::<Vec<_>>());
            }
        }
    }
    // interleave functions so that slow ones do not pile up on one worker at the end
    let trace = args.opt_u64("trace", 0) == 1;
    let done = std::sync::atomic::AtomicBool::new(false);
    std::thread::scope(|s| {
        // watchdog: a stuck invocation can never decide a verdict
        s.spawn(|| {
            while !done.load(Ordering::Relaxed) {
                std::thread::sleep(std::time::Duration::from_millis(500));
                let g = cx.watch.lock().unwrap_or_else(|e| e.into_inner());
                for (t, (what, since)) in g.iter() {
                    if since.elapsed().as_secs() > 300 {
                        println!("INCONCLUSIVE property=C32 reason=worker {t} stuck for 300 s in {what}");
                        std::process::exit(2);
                    }
                }
            }
        });
        vcommon::par::run(args.workers, items.iter(), |it| {
            let tname = std::thread::current().name().unwrap_or("main").to_string();
            let what = format!("{} group {} set {}", it.e.label, it.gi, it.vs);
            if trace {
                eprintln!("TRACE {what}");
            }
            cx.watch.lock().unwrap_or_else(|e| e.into_inner()).insert(tname.clone(), (what, std::time::Instant::now()));
            let systematic = it.vs < sys_sets;
            let seed = if systematic { 0xC32 } else { args.seed };
            let mut rng = Rng::derive(seed, &[32, fp_str(&it.e.label), it.gi as u64, it.vs]);
            let group = &it.groups[it.gi];
            let mask = mask_for(it.vs, group.canonical.len(), it.gi, &mut rng);
            let case = Case { e: &it.e, group, gi: it.gi, vs: it.vs, mask, seed_tag: if systematic { "systematic".into() } else { "seeded".into() } };
            let t0 = std::time::Instant::now();
            let r = vcommon::par::guard(|| run_case(&cx, &case, &mut rng));
            cx.stat(&it.e.label, |s| s.wall_ms += t0.elapsed().as_millis() as u64);
            if let Err(p) = r {
                rep.count("harness.panics", 1);
                rep.inconclusive(&format!("harness panicked in {}: {p}", it.e.label));
            }
            cx.watch.lock().unwrap_or_else(|e| e.into_inner()).remove(&tname);
        });
        done.store(true, Ordering::Relaxed);
    });

    // evidence: per-function table
    let stats = cx.stats.lock().unwrap_or_else(|e| e.into_inner()).clone();
    let mut table = serde_json::Map::new();
    let mut never_compared = vec![];
    let mut not_invocable: BTreeMap<String, String> = BTreeMap::new();
    for e in &fns {
        let s = stats.get(&e.label).cloned().unwrap_or_default();
        if s.nontrivial_cases == 0 && s.groups > 0 {
            let le = s.last_error.to_lowercase();
            if s.good_rows == 0 && (le.contains("should have been simplified") || le.contains("should not be called") || le.contains("on a simplified")) {
                not_invocable.insert(e.label.clone(), "replaced at planning time (simplify); invoke_with_args refuses to run".to_string());
                rep.skip("function-is-simplified-away-at-planning");
            } else {
                never_compared.push(json!({"function": e.label, "last_error": s.last_error}));
            }
        }
        table.insert(e.label.clone(), json!([s.groups, s.cases, s.good_rows, s.compared_rows, s.nontrivial_cases]));
    }
    rep.extra("per_function_columns", json!(["type_groups", "cases", "rows_succeeding_alone", "rows_compared", "nontrivial_cases"]));
    rep.extra("per_function", Json::Object(table));
    rep.extra("functions_never_compared_nontrivially", json!(never_compared));
    let mut slow: Vec<(u64, String)> = stats.iter().map(|(k, s)| (s.wall_ms, k.clone())).collect();
    slow.sort();
    slow.reverse();
    rep.extra("slowest_functions_ms", json!(slow.iter().take(12).map(|(ms, k)| json!([k, ms])).collect::<Vec<_>>()));
    let with_types = fns.len() - no_types.len();
    let compared = fns.iter().filter(|e| stats.get(&e.label).map(|s| s.nontrivial_cases > 0).unwrap_or(false)).count();
    rep.extra("skipped_not_invocable", json!(not_invocable));
    rep.count("functions.not-invocable", not_invocable.len() as u64);
    let in_scope = fns.len() - not_invocable.len();
    rep.count("functions.with-accepted-types", with_types as u64);
    rep.count("functions.compared-nontrivially", compared as u64);
    if only.is_none() {
        rep.obligation("functions-with-accepted-types", memcheck || with_types * 100 >= fns.len() * 90, "an accepted argument type list must be derived for >= 90% of the functions in scope");
        rep.obligation("functions-compared", (memcheck && compared * 100 >= in_scope * 40) || compared * 100 >= in_scope * 85, "for >= 85% of the invocable functions in scope some case must be compared non-trivially");
        let need: &[&str] = if memcheck { &["split:row-by-row", "sliced", "validity", "enc:Utf8View", "enc:LargeUtf8"] } else { &["split:row-by-row", "split", "scalar", "sliced", "validity", "enc:Utf8View", "enc:LargeUtf8", "enc:BinaryView", "enc:LargeBinary", "dict", "dict-packed", "view-buffers"] };
        for t in need {
            let c = rep.get_count(&format!("matrix.{t}.compared_rows"));
            rep.obligation(&format!("representation:{t}"), c > 0, "rows must have been compared in this representation");
        }
    }
    rep.finish()
}

fn main() {
    let args = Args::parse();
    vcommon::par::quiet_panics();
    std::process::exit(run(&args));
}
