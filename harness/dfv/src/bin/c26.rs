//! C26 — parallel byte-range scans read every record exactly once.
//!
//! (a) component: `AlignedBoundaryStream` (datafusion_datasource::boundary_stream, public) driven
//!     over a re-chunking in-memory object store; every split of [0,len) into 2 and 3 consecutive
//!     ranges must concatenate to the file and every piece must be record aligned.
//! (a') component: `FileGroupPartitioner` ranges of every file tile [0,size) exactly.
//! (b) end-to-end: CSV / NDJSON listing scans with `repartition_file_scans`, `repartition_file_min_size=1`
//!     and 1..16 target partitions return the records of a single-partition scan.

use arrow::datatypes::{DataType, Field, Schema};
use datafusion::datasource::listing::PartitionedFile;
use datafusion::datasource::physical_plan::{FileGroup, FileGroupPartitioner};
use datafusion::prelude::*;
use datafusion_datasource::boundary_stream::{AlignedBoundaryStream, END_SCAN_LOOKAHEAD};
use dfv::engine::{batches_to_rows, current_thread_rt};
use dfv::filetab::{plan_file_groups, ChunkStore, Chunking};
use dfv::value::{rows_to_json, Row};
use futures::StreamExt;
use object_store::path::Path;
use object_store::{ObjectStore, ObjectStoreExt, PutPayload};
use std::collections::BTreeSet;
use std::sync::Arc;
use vcommon::{fp_bytes, fp_mix, json, Args, Json, Report, Rng};

const L: usize = END_SCAN_LOOKAHEAD as usize;

// ------------------------------------------------------------------------------------------
// files

#[derive(Clone)]
struct FileSpec {
    name: String,
    data: Vec<u8>,
    term: u8,
}

fn rle(data: &[u8]) -> Json {
    let mut out: Vec<(u8, usize)> = vec![];
    for &b in data {
        match out.last_mut() {
            Some((x, n)) if *x == b => *n += 1,
            _ => out.push((b, 1)),
        }
    }
    json!(out.iter().map(|(b, n)| json!([b, n])).collect::<Vec<_>>())
}

fn show(data: &[u8]) -> String {
    if data.len() <= 200 { String::from_utf8_lossy(data).replace('\n', "\\n").replace('\r', "\\r") } else { format!("<{} bytes, fnv {:x}>", data.len(), fp_bytes(data)) }
}

fn small_files() -> Vec<FileSpec> {
    let mut v: Vec<(&str, Vec<u8>, u8)> = vec![
        ("one-newline", b"\n".to_vec(), b'\n'),
        ("only-newlines-3", b"\n\n\n".to_vec(), b'\n'),
        ("only-newlines-64", vec![b'\n'; 64], b'\n'),
        ("one-byte", b"a".to_vec(), b'\n'),
        ("one-line", b"a\n".to_vec(), b'\n'),
        ("no-trailing-newline", b"a\nbc".to_vec(), b'\n'),
        ("two-lines", b"a\nbc\n".to_vec(), b'\n'),
        ("leading-newline", b"\nab".to_vec(), b'\n'),
        ("empty-lines", b"\n\na\n\n\nbcd\n\n".to_vec(), b'\n'),
        ("empty-lines-no-trailing", b"ab\n\n\ncd\n\nef".to_vec(), b'\n'),
        ("crlf", b"ab\r\ncd\r\nef\r\n".to_vec(), b'\n'),
        ("crlf-no-trailing", b"ab\r\n\r\ncd".to_vec(), b'\n'),
        ("crlf-only", b"\r\n\r\n\r\n".to_vec(), b'\n'),
        ("three-lines-18", b"line1\nline2\nline3\n".to_vec(), b'\n'),
        ("no-newline-64", vec![b'x'; 64], b'\n'),
        ("newline-last-64", [vec![b'x'; 63], vec![b'\n']].concat(), b'\n'),
        ("newline-first-64", [vec![b'\n'], vec![b'x'; 63]].concat(), b'\n'),
        ("alternating-64", b"a\n".repeat(32), b'\n'),
        ("ndjson", b"{\"a\":1}\n{\"a\":22}\n\n{\"a\":333}\n{\"a\":4}".to_vec(), b'\n'),
        ("csv", b"id,s\n1,\"x,y\"\n2,\n3,abc\r\n4,d\n".to_vec(), b'\n'),
        ("mixed-64", b"abc\n\nde\r\nfghijklmnop\n\n\nq\nrstuvwxyz0123456789\nAB\nCDEFGHIJKLMNOPQRST\nU\n".to_vec(), b'\n'),
        ("semicolon-terminator", b"a;bc;;d\n;e".to_vec(), b';'),
        ("pipe-terminator-trailing", b"ab|c||\n|".to_vec(), b'|'),
    ];
    v.retain(|(_, d, _)| d.len() <= 64);
    v.into_iter().map(|(n, d, t)| FileSpec { name: n.to_string(), data: d, term: t }).collect()
}

fn random_small(rng: &mut Rng, idx: u64) -> FileSpec {
    let len = 1 + rng.usize(64);
    let nl_per_16 = 1 + rng.below(9);
    let crlf = rng.chance(1, 4);
    let mut d = vec![];
    while d.len() < len {
        if rng.below(16) < nl_per_16 {
            if crlf && d.len() + 2 <= len {
                d.push(b'\r');
            }
            d.push(b'\n');
        } else {
            d.push(*rng.pick(b"abcxyz "));
        }
    }
    FileSpec { name: format!("random-small-{idx}"), data: d, term: b'\n' }
}

fn long_files() -> Vec<FileSpec> {
    let rep = |b: u8, n: usize| vec![b; n];
    let v: Vec<(&str, Vec<u8>)> = vec![
        ("long-middle", [b"short\nab\n".to_vec(), rep(b'x', L + 100), b"\ncd\nlast\n".to_vec()].concat()),
        ("long-first-2x", [rep(b'A', 2 * L + 50), b"\nline2\nline3\n".to_vec()].concat()),
        ("long-last-2x-no-trailing", [b"ab\ncd\n".to_vec(), rep(b'y', 2 * L + 7)].concat()),
        ("long-L-minus-1", [b"ab\n".to_vec(), rep(b'z', L - 1), b"\nq\n".to_vec()].concat()),
        ("long-L", [b"ab\n".to_vec(), rep(b'z', L), b"\nq\n".to_vec()].concat()),
        ("long-crlf", [b"ab\r\n".to_vec(), rep(b'z', L + 1), b"\r\nq\r\n".to_vec()].concat()),
        ("no-newline-3x", rep(b'x', 3 * L + 5)),
        ("two-long-empty-lines", [b"\n\n\n".to_vec(), rep(b'x', L + 3), b"\n\n".to_vec(), rep(b'y', L + 9), b"\n".to_vec()].concat()),
    ];
    v.into_iter().map(|(n, d)| FileSpec { name: n.to_string(), data: d, term: b'\n' }).collect()
}

fn random_long(rng: &mut Rng, idx: u64) -> FileSpec {
    let mut d = vec![];
    let segs = 2 + rng.usize(4);
    let long_at = rng.usize(segs);
    for i in 0..segs {
        let n = if i == long_at { L - 3 + rng.usize(L + 20) } else { rng.usize(30) };
        d.extend(std::iter::repeat_n(b'a' + (i as u8 % 20), n));
        if i + 1 < segs || rng.bool() {
            if rng.chance(1, 4) {
                d.push(b'\r');
            }
            d.push(b'\n');
        }
    }
    FileSpec { name: format!("random-long-{idx}"), data: d, term: b'\n' }
}

/// record starts (0 and every position after a terminator that is < len) and record ends
fn record_bounds(data: &[u8], term: u8) -> (BTreeSet<usize>, BTreeSet<usize>) {
    let mut starts = BTreeSet::new();
    let mut ends = BTreeSet::new();
    if !data.is_empty() {
        starts.insert(0);
        ends.insert(data.len());
    }
    for (i, &b) in data.iter().enumerate() {
        if b == term {
            ends.insert(i + 1);
            if i + 1 < data.len() {
                starts.insert(i + 1);
            }
        }
    }
    (starts, ends)
}

// ------------------------------------------------------------------------------------------
// (a) component

struct Observed {
    out: Vec<u8>,
    /// number of GETs the stream issued (1 = no lookahead refill)
    gets: u64,
}

async fn run_range(store: &Arc<ChunkStore>, path: &Path, s: u64, e: u64, len: u64, term: u8) -> Result<Observed, String> {
    let before = store.gets();
    let dynstore: Arc<dyn ObjectStore> = store.clone();
    let mut st = AlignedBoundaryStream::new(dynstore, path.clone(), s, e, len, term).await.map_err(|e| format!("new: {e}"))?;
    let mut out = vec![];
    while let Some(c) = st.next().await {
        out.extend_from_slice(&c.map_err(|e| format!("poll: {e}"))?);
    }
    Ok(Observed { out, gets: store.gets() - before })
}

fn boundary_bucket(data: &[u8], term: u8, b: usize) -> String {
    // distance of the boundary from the nearest terminator byte position (boundary b == position of
    // the first byte of the right-hand range); 0 = the boundary byte is the terminator itself,
    // +1 = the boundary is a record start
    let mut best: Option<i64> = None;
    for d in -2i64..=2 {
        let p = b as i64 - d;
        if p >= 0 && (p as usize) < data.len() && data[p as usize] == term && best.is_none_or(|x| d.abs() < x.abs()) {
            best = Some(d);
        }
    }
    match best {
        Some(d) => format!("{d:+}"),
        None => "far".into(),
    }
}

struct CompCfg {
    selftest: bool,
}

fn witness(f: &FileSpec, chunking: Chunking, ranges: &[(usize, usize)], outs: &[&[u8]], note: &str) -> Json {
    json!({
        "part": "component", "file": f.name, "len": f.data.len(), "terminator": f.term, "file_rle": rle(&f.data), "file_text": show(&f.data),
        "chunking": chunking.name(), "ranges": ranges, "observed_outputs": outs.iter().map(|o| show(o)).collect::<Vec<_>>(),
        "observed_output_lens": outs.iter().map(|o| o.len()).collect::<Vec<_>>(), "expected": "concatenation == file, every piece starts at a record start and ends at a record end",
        "note": note,
        "replay": "AlignedBoundaryStream::new(store, path, start, end, len, terminator) over an object store delivering GET bodies in the given chunk sizes",
    })
}

/// One (file, chunking) unit. `cands` = boundary candidates (all positions for small files).
fn component_unit(rep: &Report, cfg: &CompCfg, f: &FileSpec, chunking: Chunking, cands: &[usize], three_way: bool, exhaustive_pairs: bool) {
    let len = f.data.len();
    let rt = current_thread_rt();
    let store = Arc::new(ChunkStore::new(chunking));
    let path = Path::from("d/f.txt");
    let (starts, ends) = record_bounds(&f.data, f.term);
    let res: Result<(), String> = rt.block_on(async {
        store.put(&path, PutPayload::from(f.data.clone())).await.map_err(|e| e.to_string())?;
        let fpf = fp_mix(fp_bytes(&f.data), fp_bytes(chunking.name().as_bytes()));
        // prefixes P(m) = out(0,m), suffixes S(m) = out(m,len)
        let mut pre: Vec<Option<usize>> = vec![None; len + 1];
        let mut suf: Vec<Option<usize>> = vec![None; len + 1];
        let whole = run_range(&store, &path, 0, len as u64, len as u64, f.term).await?;
        rep.case(fp_mix(fpf, 0), false);
        if whole.out != f.data {
            rep.violation("whole-file-range-differs", witness(f, chunking, &[(0, len)], &[&whole.out], "range [0,len) must be the file"));
        }
        let mut corrupted = !cfg.selftest;
        for &m in cands.iter().filter(|&&m| m > 0 && m < len) {
            let mut p = run_range(&store, &path, 0, m as u64, len as u64, f.term).await?;
            let s = run_range(&store, &path, m as u64, len as u64, len as u64, f.term).await?;
            if !corrupted && !p.out.is_empty() {
                p.out.pop();
                corrupted = true;
            }
            let bucket = boundary_bucket(&f.data, f.term, m);
            rep.count(&format!("boundary_vs_newline[{bucket}]"), 1);
            if p.gets > 1 || s.gets > 1 {
                rep.count("lookahead_refills_observed", p.gets.saturating_sub(1) + s.gets.saturating_sub(1));
            }
            let aligned = !starts.contains(&m);
            rep.case(fp_mix(fpf, m as u64), aligned);
            rep.count("splits_2way", 1);
            let ok_p = f.data.starts_with(&p.out) && (p.out.is_empty() || ends.contains(&p.out.len()));
            let ok_s = f.data.ends_with(&s.out) && (s.out.is_empty() || starts.contains(&(len - s.out.len())));
            if !ok_p || !ok_s {
                rep.violation("range-not-record-aligned", witness(f, chunking, &[(0, m), (m, len)], &[&p.out, &s.out], "a piece is not a record-aligned slice of the file"));
                continue;
            }
            if p.out.len() + s.out.len() != len {
                let sig = if p.out.len() + s.out.len() < len { "split-loses-bytes/2way" } else { "split-duplicates-bytes/2way" };
                rep.violation(sig, witness(f, chunking, &[(0, m), (m, len)], &[&p.out, &s.out], "prefix + suffix != file"));
                continue;
            }
            pre[m] = Some(p.out.len());
            suf[m] = Some(s.out.len());
        }
        if three_way {
            let inner: Vec<usize> = cands.iter().copied().filter(|&m| m > 0 && m < len).collect();
            for (i, &a) in inner.iter().enumerate() {
                for &b in &inner[i + 1..] {
                    let mid = run_range(&store, &path, a as u64, b as u64, len as u64, f.term).await?;
                    if mid.gets > 1 {
                        rep.count("lookahead_refills_observed", mid.gets - 1);
                    }
                    rep.count("splits_3way", 1);
                    let nontrivial = !starts.contains(&a) || !starts.contains(&b);
                    rep.case(fp_mix(fpf, ((a as u64) << 32) | b as u64), nontrivial);
                    let (Some(pa), Some(sb)) = (pre[a], suf[b]) else { continue };
                    let ok = pa + mid.out.len() + sb == len && f.data[pa..pa + mid.out.len()] == mid.out[..];
                    if !ok {
                        let sig = if pa + mid.out.len() + sb < len {
                            "split-loses-bytes/3way"
                        } else if pa + mid.out.len() + sb > len {
                            "split-duplicates-bytes/3way"
                        } else {
                            "split-wrong-bytes/3way"
                        };
                        rep.violation(sig, witness(f, chunking, &[(0, a), (a, b), (b, len)], &[&f.data[..pa], &mid.out, &f.data[len - sb..]], "the three pieces do not tile the file"));
                    }
                }
            }
        }
        if exhaustive_pairs {
            // degenerate ranges: empty, end beyond the file, start at/after the end
            for s in 0..=len {
                let e0 = run_range(&store, &path, s as u64, s as u64, len as u64, f.term).await?;
                let beyond = run_range(&store, &path, s as u64, (len + 5) as u64, len as u64, f.term).await?;
                rep.count("degenerate_ranges", 2);
                let expect_len = if s == 0 { len } else { suf[s].unwrap_or(usize::MAX) };
                if !e0.out.is_empty() {
                    rep.violation("empty-range-yields-bytes", witness(f, chunking, &[(s, s)], &[&e0.out], "start == end must yield nothing"));
                }
                if s < len && expect_len != usize::MAX && beyond.out.len() != expect_len {
                    rep.violation("end-beyond-file-differs", witness(f, chunking, &[(s, len + 5)], &[&beyond.out], "end > len must behave like end == len"));
                }
                if s >= len && !beyond.out.is_empty() {
                    rep.violation("start-at-eof-yields-bytes", witness(f, chunking, &[(s, len + 5)], &[&beyond.out], "start >= len must yield nothing"));
                }
            }
        }
        Ok(())
    });
    if let Err(e) = res {
        // the in-memory store only fails when asked for an invalid range
        rep.violation("range-read-error", json!({"part": "component", "file": f.name, "file_rle": rle(&f.data), "chunking": chunking.name(), "error": e}));
    }
}

fn long_candidates(f: &FileSpec) -> Vec<usize> {
    let len = f.data.len() as i64;
    let mut c = BTreeSet::new();
    let mut add = |p: i64| {
        for d in -2..=2 {
            if p + d > 0 && p + d < len {
                c.insert((p + d) as usize);
            }
        }
    };
    let nls: Vec<i64> = f.data.iter().enumerate().filter(|(_, b)| **b == f.term).map(|(i, _)| i as i64).collect();
    for k in 1..=3 {
        add(k * L as i64);
        add(len - k * L as i64);
    }
    for &nl in &nls {
        add(nl);
        for k in 1..=2 {
            add(nl - k * L as i64);
            add(nl + k * L as i64);
        }
    }
    c.into_iter().collect()
}

// ------------------------------------------------------------------------------------------
// (a') FileGroupPartitioner tiling

fn partitioner_case(rep: &Report, rng: &mut Rng, selftest: bool) {
    let nfiles = 1 + rng.usize(5);
    let sizes: Vec<u64> = (0..nfiles).map(|_| if rng.chance(1, 8) { 0 } else { { let m = if rng.bool() { 40 } else { 100_000 }; 1 + rng.below(m) } }).collect();
    let ngroups = 1 + rng.usize(nfiles);
    let mut groups: Vec<Vec<PartitionedFile>> = vec![vec![]; ngroups];
    for (i, s) in sizes.iter().enumerate() {
        let g = if i < ngroups { i } else { rng.usize(ngroups) };
        groups[g].push(PartitionedFile::new(format!("f{i}"), *s));
    }
    let groups: Vec<FileGroup> = groups.into_iter().map(FileGroup::new).collect();
    let target = 1 + rng.usize(16);
    let min_size = *rng.pick(&[0usize, 1, 10, 1000]);
    let preserve = rng.chance(1, 3);
    let out = FileGroupPartitioner::new().with_target_partitions(target).with_repartition_file_min_size(min_size).with_preserve_order_within_groups(preserve).repartition_file_groups(&groups);
    let fp = fp_bytes(format!("{sizes:?}/{ngroups}/{target}/{min_size}/{preserve}").as_bytes());
    let Some(mut out) = out else {
        rep.case(fp, false);
        rep.count("partitioner_declined", 1);
        return;
    };
    if selftest && fp % 3 == 0 {
        if let Some(g) = out.iter_mut().find(|g| g.len() > 0) {
            let mut files = g.files().to_vec();
            files.pop();
            *g = FileGroup::new(files);
        }
    }
    rep.case(fp, out.iter().any(|g| g.iter().any(|f| f.range.is_some())));
    rep.count("partitioner_cases", 1);
    rep.max("partitioner_max_groups", out.len() as u64);
    for (i, s) in sizes.iter().enumerate() {
        let name = format!("f{i}");
        let mut rs: Vec<(i64, i64)> = out.iter().flat_map(|g| g.iter()).filter(|f| f.object_meta.location.as_ref() == name).map(|f| f.range.as_ref().map(|r| (r.start, r.end)).unwrap_or((0, *s as i64))).collect();
        rs.sort();
        let mut pos = 0i64;
        let mut ok = true;
        for (a, b) in &rs {
            ok &= *a == pos && b >= a;
            pos = *b;
        }
        ok &= pos == *s as i64 || (*s == 0 && rs.is_empty());
        if !ok {
            rep.violation(
                "partitioner-ranges-do-not-tile-file",
                json!({"part": "partitioner", "file_sizes": sizes, "input_groups": ngroups, "target_partitions": target, "repartition_file_min_size": min_size, "preserve_order_within_groups": preserve, "file": name, "ranges": rs, "expected": format!("consecutive ranges covering [0,{s})")}),
            );
        }
    }
    if out.len() > target.max(ngroups) {
        rep.count("partitioner_more_groups_than_target", 1);
    }
}

// ------------------------------------------------------------------------------------------
// (b) end-to-end

#[derive(Clone, Debug)]
struct E2e {
    idx: u64,
    json: bool,
    header: bool,
    crlf: bool,
    trailing_newline: bool,
    blank_lines: bool,
    quoted_newlines: bool,
    long_line: bool,
    nfiles: usize,
    rows_per_file: usize,
    mem_store: bool,
    chunking: Chunking,
    target_partitions: usize,
    batch_size: usize,
}

fn gen_e2e_files(c: &E2e, rng: &mut Rng) -> (Vec<Vec<u8>>, Vec<Row>) {
    use dfv::value::Value;
    let mut files = vec![];
    let mut rows = vec![];
    let mut id = 0i64;
    let nl: &[u8] = if c.crlf { b"\r\n" } else { b"\n" };
    for fi in 0..c.nfiles {
        let mut d: Vec<u8> = vec![];
        if !c.json && c.header {
            d.extend_from_slice(b"id,s,v");
            d.extend_from_slice(nl);
        }
        let n = if fi == 0 { c.rows_per_file } else { rng.usize(c.rows_per_file + 1) };
        let long_row = if c.long_line && fi == 0 { Some(rng.usize(n.max(1))) } else { None };
        for r in 0..n {
            id += 1;
            let slen = if long_row == Some(r) { L + 10 + rng.usize(L + 10) } else { { let m = if rng.chance(1, 5) { 60 } else { 9 }; rng.usize(m) } };
            let mut s = String::new();
            for _ in 0..slen {
                s.push(*rng.pick(&['a', 'b', 'z', ' ', 'é', '0']));
            }
            let special = rng.below(8);
            if !c.json {
                if special == 0 {
                    s.push(',');
                } else if special == 1 {
                    s.push('"');
                } else if special == 2 && c.quoted_newlines {
                    let at = s.char_indices().nth(s.chars().count() / 2).map(|(i, _)| i).unwrap_or(s.len());
                    s.insert_str(at, if c.crlf { "\r\n" } else { "\n" });
                }
            } else if special == 0 {
                s.push('"');
            } else if special == 1 {
                s.push_str("\\n{");
            }
            let s_null = rng.chance(1, 10);
            let v: Option<i64> = if rng.chance(1, 6) { None } else { Some(rng.range(-1000, 1_000_000)) };
            if c.json {
                let mut o = vcommon::serde_json::Map::new();
                o.insert("id".into(), json!(id));
                if !s_null {
                    o.insert("s".into(), json!(s));
                }
                if let Some(v) = v {
                    o.insert("v".into(), json!(v));
                } else if rng.bool() {
                    o.insert("v".into(), Json::Null);
                }
                d.extend_from_slice(vcommon::serde_json::to_string(&Json::Object(o)).unwrap().as_bytes());
            } else {
                let needs_quote = s.contains(',') || s.contains('"') || s.contains('\n') || s.contains('\r') || rng.chance(1, 6);
                let field = if s_null {
                    String::new()
                } else if needs_quote {
                    format!("\"{}\"", s.replace('"', "\"\""))
                } else {
                    s.clone()
                };
                d.extend_from_slice(format!("{id},{field},{}", v.map(|x| x.to_string()).unwrap_or_default()).as_bytes());
            }
            let last = r + 1 == n;
            if !last || c.trailing_newline {
                d.extend_from_slice(nl);
            }
            if c.blank_lines && !last && rng.chance(1, 5) {
                d.extend_from_slice(nl);
            }
            let sval = if s_null || (!c.json && s.is_empty()) { Value::Null } else { Value::Str(s) };
            rows.push(vec![Value::Int(id), sval, v.map(Value::Int).unwrap_or(Value::Null)]);
        }
        files.push(d);
    }
    (files, rows)
}

struct ScanOut {
    rows: Vec<Row>,
    groups: usize,
    ranges: Vec<(String, Option<(i64, i64)>)>,
}

async fn scan(c: &E2e, files: &[Vec<u8>], parallel: bool, dir: &std::path::Path) -> Result<ScanOut, String> {
    let mut cfg = SessionConfig::new().with_batch_size(c.batch_size).with_information_schema(false);
    if parallel {
        cfg = cfg.with_target_partitions(c.target_partitions).with_repartition_file_scans(true).with_repartition_file_min_size(1);
    } else {
        cfg = cfg.with_target_partitions(1).with_repartition_file_scans(false);
    }
    let ctx = SessionContext::new_with_config(cfg);
    let ext = if c.json { ".json" } else { ".csv" };
    let location = if c.mem_store {
        let store = Arc::new(ChunkStore::new(c.chunking));
        for (i, d) in files.iter().enumerate() {
            store.put(&Path::from(format!("t/f{i}{ext}")), PutPayload::from(d.clone())).await.map_err(|e| e.to_string())?;
        }
        ctx.register_object_store(&url::Url::parse("mem://c26").unwrap(), store);
        "mem://c26/t/".to_string()
    } else {
        for (i, d) in files.iter().enumerate() {
            std::fs::write(dir.join(format!("f{i}{ext}")), d).map_err(|e| e.to_string())?;
        }
        format!("{}/", dir.display())
    };
    let schema = Schema::new(vec![Field::new("id", DataType::Int64, true), Field::new("s", DataType::Utf8, true), Field::new("v", DataType::Int64, true)]);
    let e = |e: datafusion::error::DataFusionError| e.to_string();
    if c.json {
        ctx.register_json("t", &location, JsonReadOptions::default().schema(&schema).file_extension(ext)).await.map_err(e)?;
    } else {
        ctx.register_csv("t", &location, CsvReadOptions::new().schema(&schema).has_header(c.header).file_extension(ext).newlines_in_values(c.quoted_newlines)).await.map_err(e)?;
    }
    let df = ctx.sql("SELECT id, s, v FROM t").await.map_err(e)?;
    let plan = df.create_physical_plan().await.map_err(e)?;
    let scans = plan_file_groups(&plan);
    let groups = scans.first().map(|g| g.len()).unwrap_or(0);
    let ranges = scans.first().map(|g| g.iter().flatten().map(|f| (f.path.clone(), f.range)).collect()).unwrap_or_default();
    let batches = datafusion::physical_plan::collect(plan, ctx.task_ctx()).await.map_err(e)?;
    Ok(ScanOut { rows: batches_to_rows(&batches), groups, ranges })
}

fn e2e_case(rep: &Report, c: &E2e, seed: u64, selftest: bool) {
    let mut rng = Rng::derive(seed, &[26, 2, c.idx]);
    let (files, gen_rows) = gen_e2e_files(c, &mut rng);
    let total: usize = files.iter().map(|f| f.len()).sum();
    let fp = fp_mix(fp_bytes(format!("{c:?}").as_bytes()), files.iter().fold(0, |a, f| fp_mix(a, fp_bytes(f))));
    let dir = tempfile::tempdir().expect("tempdir");
    let res = vcommon::par::guard(|| {
        let rt = current_thread_rt();
        rt.block_on(async {
            let par = scan(c, &files, true, dir.path()).await?;
            let single = scan(c, &files, false, dir.path()).await?;
            Ok::<_, String>((par, single))
        })
    });
    let w = |note: &str, par: Option<&ScanOut>, single: Option<&ScanOut>| {
        json!({
            "part": "end-to-end", "case": format!("{c:?}"), "files": files.iter().map(|f| json!({"len": f.len(), "text": show(f), "rle": if f.len() > 4000 { rle(f) } else { Json::Null }})).collect::<Vec<_>>(),
            "config": {"repartition_file_scans": true, "repartition_file_min_size": 1, "target_partitions": c.target_partitions, "batch_size": c.batch_size},
            "ranges": par.map(|p| json!(p.ranges)), "observed_rows": par.map(|p| p.rows.len()), "single_scan_rows": single.map(|s| s.rows.len()),
            "observed_ids": par.map(|p| json!(p.rows.iter().map(|r| r[0].to_json()).collect::<Vec<_>>())),
            "expected_ids": single.map(|s| json!(s.rows.iter().map(|r| r[0].to_json()).collect::<Vec<_>>())),
            "note": note,
        })
    };
    match res {
        Err(p) => {
            rep.case(fp, true);
            rep.violation("scan-panic", w(&format!("panic: {p}"), None, None));
        }
        Ok(Err(e)) => {
            rep.case(fp, false);
            rep.skip(&format!("scan-error: {}", e.chars().take(60).collect::<String>()));
        }
        Ok(Ok((mut par, single))) => {
            if selftest && !par.rows.is_empty() {
                par.rows.pop();
            }
            let kind = format!("{}/{}", if c.json { "ndjson" } else { "csv" }, if c.mem_store { "mem" } else { "local" });
            rep.count(&format!("e2e_scans[{kind}]"), 1);
            rep.count(&format!("e2e_partitions_used[{:02}]", par.groups), 1);
            rep.count(&format!("e2e_target_partitions[{:02}]", c.target_partitions), 1);
            let split = par.ranges.iter().any(|(_, r)| r.is_some());
            rep.case(fp, split && par.groups > 1 && !single.rows.is_empty());
            // where do the engine's own range boundaries fall?
            for (path, r) in &par.ranges {
                let Some((a, b)) = r else { continue };
                let Some(fi) = path.rsplit('/').next().and_then(|n| n.trim_start_matches('f').split('.').next()).and_then(|n| n.parse::<usize>().ok()) else { continue };
                let Some(d) = files.get(fi) else { continue };
                for x in [*a as usize, *b as usize] {
                    if x > 0 && x < d.len() {
                        rep.count(&format!("e2e_boundary_vs_newline[{}]", boundary_bucket(d, b'\n', x)), 1);
                    }
                }
            }
            if !dfv::canon::multiset_eq(&par.rows, &single.rows) {
                let (mut pi, mut si): (Vec<i64>, Vec<i64>) = (vec![], vec![]);
                for (rows, out) in [(&par.rows, &mut pi), (&single.rows, &mut si)] {
                    for r in rows.iter() {
                        if let dfv::value::Value::Int(i) = r[0] {
                            out.push(i);
                        }
                    }
                    out.sort();
                }
                let dup = pi.windows(2).any(|w| w[0] == w[1]);
                let lost = si.iter().any(|i| pi.binary_search(i).is_err());
                let sig = match (lost, dup) {
                    (true, true) => "records-lost-and-duplicated",
                    (true, false) => "records-lost",
                    (false, true) => "records-duplicated",
                    _ => "records-differ",
                };
                rep.violation(&format!("{sig}/{}", if c.json { "ndjson" } else { "csv" }), w("byte-range repartitioned scan != single-partition scan", Some(&par), Some(&single)));
            } else if rep.want_sample() && split && par.groups > 2 {
                rep.sample(json!({"part": "end-to-end", "format": kind, "bytes": total, "rows": single.rows.len(), "groups": par.groups, "ranges": par.ranges.iter().take(8).collect::<Vec<_>>()}));
            }
            // harness sanity (never a verdict): the single scan should see the generated rows
            if !c.quoted_newlines || !c.json {
                if dfv::canon::multiset_eq(&single.rows, &gen_rows) {
                    rep.count("e2e_reference_equals_generated", 1);
                } else {
                    rep.count("e2e_reference_differs_from_generated", 1);
                    if rep.get_count("e2e_reference_differs_from_generated") <= 2 {
                        rep.extra(&format!("reference_vs_generated_{}", c.idx), json!({"case": format!("{c:?}"), "single": rows_to_json(&single.rows).to_string().chars().take(600).collect::<String>(), "generated": rows_to_json(&gen_rows).to_string().chars().take(600).collect::<String>()}));
                    }
                }
            }
        }
    }
}

fn e2e_cases(n_sys: u64, n_rand: u64, seed: u64) -> Vec<E2e> {
    let mut v = vec![];
    let chunkings = [Chunking::Fixed(1), Chunking::Fixed(2), Chunking::Fixed(7), Chunking::Random { seed: 7, max: 9 }, Chunking::Whole, Chunking::Fixed(4096)];
    for i in 0..n_sys + n_rand {
        let systematic = i < n_sys;
        let mut r = if systematic { Rng::derive(0xC26, &[3, i]) } else { Rng::derive(seed, &[26, 3, i]) };
        let json = i % 2 == 1;
        let long_line = r.chance(1, 12);
        let quoted_newlines = !json && r.chance(1, 6);
        v.push(E2e {
            idx: i,
            json,
            header: !json && (i / 2) % 2 == 0,
            crlf: r.chance(1, 4),
            trailing_newline: r.chance(3, 4),
            blank_lines: r.chance(1, 5) && !quoted_newlines,
            quoted_newlines,
            long_line,
            nfiles: 1 + r.usize(3),
            rows_per_file: if long_line { 1 + r.usize(6) } else { { let m = if r.chance(1, 6) { 300 } else { 40 }; 1 + r.usize(m) } },
            mem_store: (i / 4) % 2 == 0,
            chunking: if long_line { *r.pick(&chunkings[2..]) } else { *r.pick(&chunkings) },
            target_partitions: if systematic { 1 + (i % 16) as usize } else { 1 + r.usize(16) },
            batch_size: *r.pick(&[1usize, 3, 64, 8192]),
        });
    }
    v
}

// ------------------------------------------------------------------------------------------

enum Unit {
    Small(FileSpec, Chunking),
    Long(FileSpec, Chunking, bool),
    Partitioner(u64),
    E2e(E2e),
}

fn run(args: &Args) -> i32 {
    let rep = Report::new("C26", "exploration", args);
    rep.set_rule(
        "component case = (file, chunk policy, split of [0,len) into 2 or 3 consecutive ranges) through AlignedBoundaryStream; non-trivial = some inner boundary is not a record start (alignment has to move it); \
         partitioner case = (file sizes, groups, target, min size, preserve order), non-trivial = ranges produced; end-to-end case = (generated CSV/NDJSON files, store, chunking, target_partitions), non-trivial = the plan really scans byte ranges in > 1 group and the file has records",
    );
    rep.assume("end-to-end reference = the engine's own scan of the same files with target_partitions=1 and repartition_file_scans=false");
    rep.assume("component positions are derived from lengths: a prefix/suffix of the file of a given length is the corresponding slice");
    let selftest = args.opt_u64("selftest", 0) == 1;
    let reduce = match args.stage.as_str() {
        "miri" => 100,
        "memcheck" | "tsan" => 10,
        _ => 1,
    };
    let small_policies = [Chunking::Fixed(1), Chunking::Fixed(2), Chunking::Fixed(7), Chunking::Random { seed: args.seed, max: 5 }, Chunking::Whole];
    let long3 = [Chunking::Fixed(7), Chunking::Random { seed: args.seed, max: 64 }, Chunking::Fixed(4096), Chunking::Fixed(8192), Chunking::Whole];
    let long2 = [Chunking::Fixed(1), Chunking::Fixed(2)];

    let mut units: Vec<Unit> = vec![];
    let mut smalls = small_files();
    let n_small_rand = args.bound("small_random", 96, 1200) / reduce;
    for i in 0..n_small_rand {
        smalls.push(random_small(&mut Rng::derive(args.seed, &[26, 0, i]), i));
    }
    let mut longs = long_files();
    let n_long_rand = args.bound("long_random", 4, 40) / reduce;
    for i in 0..n_long_rand {
        longs.push(random_long(&mut Rng::derive(args.seed, &[26, 1, i]), i));
    }
    if reduce > 1 {
        smalls.truncate(6);
        longs.truncate(1);
    }
    // long units first: they are the slowest
    for f in &longs {
        for p in long3 {
            units.push(Unit::Long(f.clone(), p, true));
        }
        for p in long2 {
            units.push(Unit::Long(f.clone(), p, false));
        }
    }
    for f in &smalls {
        for p in small_policies {
            units.push(Unit::Small(f.clone(), p));
        }
    }
    let n_part = args.bound("partitioner", 6000, 100_000) / reduce;
    for i in 0..n_part {
        units.push(Unit::Partitioner(i));
    }
    let n_e2e_sys = args.bound("e2e_systematic", 384, 960) / reduce;
    let n_e2e_rand = args.bound("e2e_random", 2400, 24_000) / reduce;
    if args.stage != "miri" {
        for c in e2e_cases(n_e2e_sys, n_e2e_rand, args.seed) {
            units.push(Unit::E2e(c));
        }
    }
    let cfg = CompCfg { selftest };
    vcommon::par::run(args.workers, units.into_iter(), |u| {
        let r = vcommon::par::guard(|| match &u {
            Unit::Small(f, p) => {
                let cands: Vec<usize> = (0..=f.data.len()).collect();
                component_unit(&rep, &cfg, f, *p, &cands, true, true);
                rep.count("component_units_small", 1);
            }
            Unit::Long(f, p, three) => {
                component_unit(&rep, &cfg, f, *p, &long_candidates(f), *three, false);
                rep.count("component_units_long", 1);
            }
            Unit::Partitioner(i) => partitioner_case(&rep, &mut Rng::derive(args.seed, &[26, 4, *i]), selftest),
            Unit::E2e(c) => e2e_case(&rep, c, args.seed, selftest),
        });
        if let Err(p) = r {
            let what = match &u {
                Unit::Small(f, c) | Unit::Long(f, c, _) => json!({"part": "component", "file": f.name, "file_rle": rle(&f.data), "chunking": c.name()}),
                Unit::Partitioner(i) => json!({"part": "partitioner", "index": i}),
                Unit::E2e(c) => json!({"part": "end-to-end", "case": format!("{c:?}")}),
            };
            rep.violation("panic", json!({"unit": what, "panic": p}));
        }
    });
    rep.set_exhaustive(false);
    rep.extra("small_files_all_positions", json!(smalls.iter().map(|f| json!({"name": f.name, "len": f.data.len()})).collect::<Vec<_>>()));
    rep.extra("long_files", json!(longs.iter().map(|f| json!({"name": f.name, "len": f.data.len(), "boundary_candidates": long_candidates(f).len()})).collect::<Vec<_>>()));
    if reduce == 1 {
        for b in ["-2", "-1", "+0", "+1", "+2"] {
            rep.obligation(&format!("boundary-at-newline{b}"), rep.get_count(&format!("boundary_vs_newline[{b}]")) > 0, "component boundaries must be exercised at every offset -2..+2 of a terminator");
        }
        rep.obligation("lookahead-refill-observed", rep.get_count("lookahead_refills_observed") > 0, "a line longer than END_SCAN_LOOKAHEAD must force at least one extra GET");
        let used_multi = (2..=16).any(|g| rep.get_count(&format!("e2e_partitions_used[{g:02}]")) > 0);
        rep.obligation("e2e-byte-ranges-used", used_multi, "the end-to-end plans must really split files into several groups");
    }
    rep.finish()
}

fn main() {
    let args = Args::parse();
    vcommon::par::quiet_panics();
    std::process::exit(run(&args));
}
