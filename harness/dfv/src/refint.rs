//! Independent reference interpreter for the Query AST: three-valued logic, nested-loop joins,
//! grouping by linear scan, window frames by definition, multiset set operations, subqueries by
//! environment passing, recursive CTEs by naive fixpoint. Shares no code with DataFusion.

use crate::ast::*;
use crate::value::*;
use std::cmp::Ordering;

#[derive(Clone, Debug)]
pub struct Table {
    pub name: String,
    pub cols: Vec<(String, Ty)>,
    pub rows: Vec<Row>,
}

#[derive(Clone, Debug, Default)]
pub struct Db {
    pub tables: Vec<Table>,
}

#[derive(Clone, Debug, PartialEq)]
pub enum RefErr {
    DivZero,
    ScalarCard,
    /// the reference declines to define the answer (case is skipped, never a violation)
    Unsupported(String),
}

#[derive(Clone, Debug)]
pub struct Rel {
    /// (relation alias, column name)
    pub cols: Vec<(String, String)>,
    pub rows: Vec<Row>,
}

#[derive(Clone, Debug, Default)]
pub struct RefOpts {
    /// evaluate INTERSECT ALL / EXCEPT ALL with semi/anti-join semantics (the engine's known deviation)
    pub setop_all_semi_anti: bool,
    /// evaluate `x [NOT] IN (subquery)` two-valued (a plain EXISTS-match mark) unless it is a
    /// top-level conjunct of WHERE (the engine's known deviation for IN under OR / NOT / CASE)
    pub in_subquery_two_valued_nested: bool,
}

pub struct Interp<'a> {
    pub db: &'a Db,
    pub opts: RefOpts,
    pub params: Vec<Value>,
    ctes: Vec<(String, Rel)>,
    pub steps: u64,
    /// addresses of IN-subquery nodes that are top-level WHERE conjuncts (possibly under one NOT)
    top_in: Vec<*const Expr>,
}

struct GroupCtx<'a> {
    keys: &'a [Expr],
    key_vals: &'a [Value],
    rows: &'a [&'a Row],
}

#[derive(Clone, Copy)]
struct Scope<'a> {
    cols: &'a [(String, String)],
    row: &'a [Value],
    parent: Option<&'a Scope<'a>>,
    group: Option<&'a GroupCtx<'a>>,
    win: Option<(&'a [(Expr, Vec<Value>)], usize)>,
}

type R<T> = Result<T, RefErr>;

fn tv(b: Option<bool>) -> Value {
    match b {
        Some(x) => Value::Bool(x),
        None => Value::Null,
    }
}

fn truth(v: &Value) -> Option<bool> {
    match v {
        Value::Bool(b) => Some(*b),
        _ => None,
    }
}

fn and3(a: Option<bool>, b: Option<bool>) -> Option<bool> {
    match (a, b) {
        (Some(false), _) | (_, Some(false)) => Some(false),
        (Some(true), Some(true)) => Some(true),
        _ => None,
    }
}

fn or3(a: Option<bool>, b: Option<bool>) -> Option<bool> {
    match (a, b) {
        (Some(true), _) | (_, Some(true)) => Some(true),
        (Some(false), Some(false)) => Some(false),
        _ => None,
    }
}

fn cmp_op(op: BinOp, a: &Value, b: &Value) -> Option<bool> {
    let o = cmp_nonnull(a, b)?;
    Some(match op {
        BinOp::Eq => o == Ordering::Equal,
        BinOp::Ne => o != Ordering::Equal,
        BinOp::Lt => o == Ordering::Less,
        BinOp::Le => o != Ordering::Greater,
        BinOp::Gt => o == Ordering::Greater,
        BinOp::Ge => o != Ordering::Less,
        _ => unreachable!(),
    })
}

pub fn like_match(s: &str, pat: &str, ci: bool) -> bool {
    let (s, pat): (Vec<char>, Vec<char>) = if ci {
        (s.to_lowercase().chars().collect(), pat.to_lowercase().chars().collect())
    } else {
        (s.chars().collect(), pat.chars().collect())
    };
    // classic DP over pattern with % and _ ; backslash escapes the next char
    #[derive(Clone, Copy, PartialEq)]
    enum P {
        Any,
        One,
        Ch(char),
    }
    let mut toks = vec![];
    let mut i = 0;
    while i < pat.len() {
        match pat[i] {
            '%' => toks.push(P::Any),
            '_' => toks.push(P::One),
            '\\' if i + 1 < pat.len() => {
                i += 1;
                toks.push(P::Ch(pat[i]));
            }
            c => toks.push(P::Ch(c)),
        }
        i += 1;
    }
    let n = s.len();
    let mut cur = vec![false; n + 1];
    cur[0] = true;
    for t in toks {
        let mut next = vec![false; n + 1];
        match t {
            P::Any => {
                let mut seen = false;
                for j in 0..=n {
                    seen |= cur[j];
                    next[j] = seen;
                }
            }
            P::One => {
                for j in 0..n {
                    if cur[j] {
                        next[j + 1] = true;
                    }
                }
            }
            P::Ch(c) => {
                for j in 0..n {
                    if cur[j] && s[j] == c {
                        next[j + 1] = true;
                    }
                }
            }
        }
        cur = next;
    }
    cur[n]
}

fn arith(op: BinOp, a: &Value, b: &Value) -> R<Value> {
    match (a, b) {
        (Value::Null, _) | (_, Value::Null) => Ok(Value::Null),
        (Value::Int(x), Value::Int(y)) => Ok(Value::Int(match op {
            BinOp::Add => x.wrapping_add(*y),
            BinOp::Sub => x.wrapping_sub(*y),
            BinOp::Mul => x.wrapping_mul(*y),
            BinOp::Div => {
                if *y == 0 {
                    return Err(RefErr::DivZero);
                }
                x.wrapping_div(*y)
            }
            BinOp::Mod => {
                if *y == 0 {
                    return Err(RefErr::DivZero);
                }
                x.wrapping_rem(*y)
            }
            _ => unreachable!(),
        })),
        _ => {
            let (x, y) = match (a.as_f64(), b.as_f64()) {
                (Some(x), Some(y)) => (x, y),
                _ => return Err(RefErr::Unsupported("arithmetic on non-numeric".into())),
            };
            Ok(Value::Float(match op {
                BinOp::Add => x + y,
                BinOp::Sub => x - y,
                BinOp::Mul => x * y,
                BinOp::Div => x / y,
                BinOp::Mod => x % y,
                _ => unreachable!(),
            }))
        }
    }
}

pub fn cast_value(v: &Value, ty: Ty) -> R<Value> {
    Ok(match (v, ty) {
        (Value::Null, _) => Value::Null,
        (Value::Int(i), Ty::Int) => Value::Int(*i),
        (Value::Int(i), Ty::Float) => Value::Float(*i as f64),
        (Value::Int(i), Ty::Str) => Value::Str(i.to_string()),
        (Value::Float(f), Ty::Float) => Value::Float(*f),
        (Value::Float(f), Ty::Int) => {
            if !f.is_finite() || f.abs() >= 9.2e18 {
                return Err(RefErr::Unsupported("float→int out of range".into()));
            }
            Value::Int(f.trunc() as i64)
        }
        (Value::Str(s), Ty::Str) => Value::Str(s.clone()),
        (Value::Bool(b), Ty::Bool) => Value::Bool(*b),
        (Value::Bool(b), Ty::Int) => Value::Int(*b as i64),
        _ => return Err(RefErr::Unsupported(format!("cast {v:?} → {ty:?}"))),
    })
}

fn contains_agg(e: &Expr) -> bool {
    let mut found = false;
    walk_expr(e, &mut |x| {
        if matches!(x, Expr::Agg { .. }) {
            found = true;
        }
    });
    found
}

/// visit every sub-expression (not descending into subqueries)
pub fn walk_expr(e: &Expr, f: &mut dyn FnMut(&Expr)) {
    f(e);
    match e {
        Expr::Bin(a, _, b) | Expr::NullIf(a, b) => {
            walk_expr(a, f);
            walk_expr(b, f);
        }
        Expr::Not(a) | Expr::Neg(a) | Expr::IsNull(a, _) | Expr::Cast(a, _) => walk_expr(a, f),
        Expr::InList { e, list, .. } => {
            walk_expr(e, f);
            list.iter().for_each(|x| walk_expr(x, f));
        }
        Expr::Between { e, lo, hi, .. } => {
            walk_expr(e, f);
            walk_expr(lo, f);
            walk_expr(hi, f);
        }
        Expr::Like { e, pat, .. } => {
            walk_expr(e, f);
            walk_expr(pat, f);
        }
        Expr::Case { operand, whens, else_ } => {
            if let Some(o) = operand {
                walk_expr(o, f);
            }
            for (w, t) in whens {
                walk_expr(w, f);
                walk_expr(t, f);
            }
            if let Some(x) = else_ {
                walk_expr(x, f);
            }
        }
        Expr::Coalesce(xs) | Expr::Func(_, xs) => xs.iter().for_each(|x| walk_expr(x, f)),
        Expr::InSubquery { e, .. } | Expr::Quantified { e, .. } => walk_expr(e, f),
        Expr::Agg { arg, filter, .. } => {
            if let Some(a) = arg {
                walk_expr(a, f);
            }
            if let Some(a) = filter {
                walk_expr(a, f);
            }
        }
        Expr::Win { args, partition_by, order_by, .. } => {
            args.iter().for_each(|x| walk_expr(x, f));
            partition_by.iter().for_each(|x| walk_expr(x, f));
            order_by.iter().for_each(|x| walk_expr(&x.expr, f));
        }
        Expr::Col { .. } | Expr::OutCol(_) | Expr::Lit(..) | Expr::Param(..) | Expr::Exists { .. } | Expr::Scalar(_) => {}
    }
}

fn sort_cmp(a: &Value, b: &Value, desc: bool, nulls_first: bool) -> Ordering {
    match (a.is_null(), b.is_null()) {
        (true, true) => Ordering::Equal,
        (true, false) => {
            if nulls_first { Ordering::Less } else { Ordering::Greater }
        }
        (false, true) => {
            if nulls_first { Ordering::Greater } else { Ordering::Less }
        }
        _ => {
            let o = cmp_nonnull(a, b).unwrap_or(Ordering::Equal);
            if desc { o.reverse() } else { o }
        }
    }
}

impl<'a> Interp<'a> {
    pub fn new(db: &'a Db) -> Self {
        Interp { db, opts: RefOpts::default(), params: vec![], ctes: vec![], steps: 0, top_in: vec![] }
    }

    pub fn run(&mut self, q: &Query) -> R<Rel> {
        self.ctes.clear();
        self.top_in.clear();
        self.query(q, None)
    }

    fn tick(&mut self, n: u64) -> R<()> {
        self.steps += n;
        if self.steps > 30_000_000 {
            return Err(RefErr::Unsupported("reference step budget exceeded".into()));
        }
        Ok(())
    }

    fn lookup(&self, sc: &Scope, rel: &str, name: &str) -> R<Value> {
        let mut s = Some(sc);
        while let Some(x) = s {
            if let Some(i) = x.cols.iter().position(|(r, n)| r == rel && n == name) {
                return Ok(x.row[i].clone());
            }
            s = x.parent;
        }
        Err(RefErr::Unsupported(format!("unresolved column {rel}.{name}")))
    }

    fn eval(&mut self, e: &Expr, sc: &Scope) -> R<Value> {
        // grouped context: a group-by key expression evaluates to its key value
        if let Some(g) = sc.group {
            if let Some(i) = g.keys.iter().position(|k| k == e) {
                return Ok(g.key_vals[i].clone());
            }
        }
        if let Some((wins, idx)) = sc.win {
            if matches!(e, Expr::Win { .. }) {
                if let Some((_, vals)) = wins.iter().find(|(w, _)| w == e) {
                    return Ok(vals[idx].clone());
                }
            }
        }
        match e {
            Expr::Col { rel, name } => self.lookup(sc, rel, name),
            Expr::OutCol(name) => {
                if let Some(i) = sc.cols.iter().position(|(_, n)| n == name) {
                    Ok(sc.row[i].clone())
                } else {
                    Err(RefErr::Unsupported(format!("unresolved output column {name}")))
                }
            }
            Expr::Lit(v, _) => Ok(v.clone()),
            Expr::Param(i, ty) => match self.params.get(*i) {
                Some(v) => cast_value(v, *ty).or_else(|_| Ok(v.clone())),
                None => Err(RefErr::Unsupported("missing parameter".into())),
            },
            Expr::Bin(a, op, b) => {
                let x = self.eval(a, sc)?;
                let y = self.eval(b, sc)?;
                match op {
                    BinOp::And => Ok(tv(and3(truth(&x), truth(&y)))),
                    BinOp::Or => Ok(tv(or3(truth(&x), truth(&y)))),
                    BinOp::Eq | BinOp::Ne | BinOp::Lt | BinOp::Le | BinOp::Gt | BinOp::Ge => Ok(tv(cmp_op(*op, &x, &y))),
                    BinOp::IsDistinct => Ok(Value::Bool(!group_eq(&x, &y))),
                    BinOp::IsNotDistinct => Ok(Value::Bool(group_eq(&x, &y))),
                    BinOp::Concat => match (&x, &y) {
                        (Value::Str(p), Value::Str(q)) => Ok(Value::Str(format!("{p}{q}"))),
                        (Value::Null, _) | (_, Value::Null) => Ok(Value::Null),
                        _ => Err(RefErr::Unsupported("concat of non-strings".into())),
                    },
                    _ => arith(*op, &x, &y),
                }
            }
            Expr::Not(a) => Ok(tv(truth(&self.eval(a, sc)?).map(|b| !b))),
            Expr::Neg(a) => match self.eval(a, sc)? {
                Value::Null => Ok(Value::Null),
                Value::Int(i) => Ok(Value::Int(i.wrapping_neg())),
                Value::Float(f) => Ok(Value::Float(-f)),
                _ => Err(RefErr::Unsupported("neg".into())),
            },
            Expr::IsNull(a, neg) => {
                let v = self.eval(a, sc)?;
                Ok(Value::Bool(v.is_null() != *neg))
            }
            Expr::InList { e, list, negated } => {
                let v = self.eval(e, sc)?;
                let mut vals = vec![];
                for x in list {
                    vals.push(self.eval(x, sc)?);
                }
                let r = in_values(&v, &vals);
                Ok(tv(if *negated { r.map(|b| !b) } else { r }))
            }
            Expr::Between { e, lo, hi, negated } => {
                let v = self.eval(e, sc)?;
                let l = self.eval(lo, sc)?;
                let h = self.eval(hi, sc)?;
                let r = and3(cmp_op(BinOp::Ge, &v, &l), cmp_op(BinOp::Le, &v, &h));
                Ok(tv(if *negated { r.map(|b| !b) } else { r }))
            }
            Expr::Like { e, pat, negated, ci } => {
                let v = self.eval(e, sc)?;
                let p = self.eval(pat, sc)?;
                match (&v, &p) {
                    (Value::Str(s), Value::Str(p)) => Ok(Value::Bool(like_match(s, p, *ci) != *negated)),
                    (Value::Null, _) | (_, Value::Null) => Ok(Value::Null),
                    _ => Err(RefErr::Unsupported("like on non-strings".into())),
                }
            }
            Expr::Case { operand, whens, else_ } => {
                let op = match operand {
                    Some(o) => Some(self.eval(o, sc)?),
                    None => None,
                };
                for (w, t) in whens {
                    let wv = self.eval(w, sc)?;
                    let hit = match &op {
                        Some(o) => cmp_op(BinOp::Eq, o, &wv) == Some(true),
                        None => truth(&wv) == Some(true),
                    };
                    if hit {
                        return self.eval(t, sc);
                    }
                }
                match else_ {
                    Some(x) => self.eval(x, sc),
                    None => Ok(Value::Null),
                }
            }
            Expr::Coalesce(xs) => {
                for x in xs {
                    let v = self.eval(x, sc)?;
                    if !v.is_null() {
                        return Ok(v);
                    }
                }
                Ok(Value::Null)
            }
            Expr::NullIf(a, b) => {
                let x = self.eval(a, sc)?;
                let y = self.eval(b, sc)?;
                if cmp_op(BinOp::Eq, &x, &y) == Some(true) { Ok(Value::Null) } else { Ok(x) }
            }
            Expr::Cast(a, ty) => {
                let v = self.eval(a, sc)?;
                cast_value(&v, *ty)
            }
            Expr::Func(name, args) => {
                let mut vs = vec![];
                for a in args {
                    vs.push(self.eval(a, sc)?);
                }
                match (*name, vs.as_slice()) {
                    (_, [Value::Null]) => Ok(Value::Null),
                    ("abs", [Value::Int(i)]) => Ok(Value::Int(i.wrapping_abs())),
                    ("abs", [Value::Float(f)]) => Ok(Value::Float(f.abs())),
                    ("length", [Value::Str(s)]) | ("character_length", [Value::Str(s)]) => Ok(Value::Int(s.chars().count() as i64)),
                    ("upper", [Value::Str(s)]) => Ok(Value::Str(s.to_uppercase())),
                    ("lower", [Value::Str(s)]) => Ok(Value::Str(s.to_lowercase())),
                    _ => Err(RefErr::Unsupported(format!("function {name}"))),
                }
            }
            Expr::Exists { q, negated } => {
                let r = self.query(q, Some(sc))?;
                Ok(Value::Bool(r.rows.is_empty() == *negated))
            }
            Expr::InSubquery { e: ie, q, negated } => {
                let v = self.eval(ie, sc)?;
                let r = self.query(q, Some(sc))?;
                let vals: Vec<Value> = r.rows.iter().map(|x| x[0].clone()).collect();
                let mut res = in_values(&v, &vals);
                if self.opts.in_subquery_two_valued_nested && !self.top_in.contains(&(e as *const Expr)) {
                    res = Some(res == Some(true));
                }
                Ok(tv(if *negated { res.map(|b| !b) } else { res }))
            }
            Expr::Scalar(q) => {
                let r = self.query(q, Some(sc))?;
                match r.rows.len() {
                    0 => Ok(Value::Null),
                    1 => Ok(r.rows[0][0].clone()),
                    _ => Err(RefErr::ScalarCard),
                }
            }
            Expr::Quantified { e, op, all, q } => {
                let v = self.eval(e, sc)?;
                let r = self.query(q, Some(sc))?;
                let mut acc: Option<bool> = Some(*all);
                for row in &r.rows {
                    let c = cmp_op(*op, &v, &row[0]);
                    acc = if *all { and3(acc, c) } else { or3(acc, c) };
                }
                Ok(tv(acc))
            }
            Expr::Agg { f, arg, distinct, filter } => {
                let Some(g) = sc.group else { return Err(RefErr::Unsupported("aggregate outside grouping".into())) };
                let mut vals: Vec<Value> = vec![];
                let mut n_rows = 0i64;
                let rows: Vec<&Row> = g.rows.to_vec();
                for row in rows {
                    let rs = Scope { cols: sc.cols, row, parent: sc.parent, group: None, win: None };
                    if let Some(fe) = filter {
                        if truth(&self.eval(fe, &rs)?) != Some(true) {
                            continue;
                        }
                    }
                    n_rows += 1;
                    if let Some(a) = arg {
                        let v = self.eval(a, &rs)?;
                        if !v.is_null() {
                            vals.push(v);
                        }
                    }
                }
                if *distinct {
                    let mut d: Vec<Value> = vec![];
                    for v in vals {
                        if !d.iter().any(|x| group_eq(x, &v)) {
                            d.push(v);
                        }
                    }
                    vals = d;
                }
                Ok(fold_agg(*f, &vals, n_rows))
            }
            Expr::Win { .. } => Err(RefErr::Unsupported("window function in unsupported position".into())),
        }
    }

    // --------------------------------------------------------------------------------------

    fn query(&mut self, q: &Query, parent: Option<&Scope>) -> R<Rel> {
        let n_ctes_before = self.ctes.len();
        for c in &q.ctes {
            let rel = if c.recursive { self.recursive_cte(c, parent)? } else { self.query(&c.q, parent)? };
            let cols = c.cols.iter().map(|n| (c.name.clone(), n.clone())).collect::<Vec<_>>();
            if cols.len() != rel.cols.len() {
                return Err(RefErr::Unsupported("cte column count".into()));
            }
            self.ctes.push((c.name.clone(), Rel { cols, rows: rel.rows }));
        }
        let mut rel = self.set_expr(&q.body, parent)?;
        if !q.order_by.is_empty() {
            let mut keyed: Vec<(Vec<Value>, Row)> = vec![];
            let cols = rel.cols.clone();
            for row in rel.rows.drain(..) {
                let sc = Scope { cols: &cols, row: &row, parent, group: None, win: None };
                let mut k = vec![];
                for o in &q.order_by {
                    k.push(self.eval(&o.expr, &sc)?);
                }
                keyed.push((k, row));
            }
            keyed.sort_by(|a, b| {
                for (i, o) in q.order_by.iter().enumerate() {
                    let c = sort_cmp(&a.0[i], &b.0[i], o.desc, o.nulls_first_eff());
                    if c != Ordering::Equal {
                        return c;
                    }
                }
                Ordering::Equal
            });
            rel.rows = keyed.into_iter().map(|x| x.1).collect();
        }
        if let Some(o) = q.offset {
            let o = (o as usize).min(rel.rows.len());
            rel.rows.drain(..o);
        }
        if let Some(l) = q.limit {
            rel.rows.truncate(l as usize);
        }
        self.ctes.truncate(n_ctes_before);
        Ok(rel)
    }

    fn recursive_cte(&mut self, c: &Cte, parent: Option<&Scope>) -> R<Rel> {
        let SetExpr::SetOp { op: SetOp::Union, all, left, right } = &c.q.body else {
            return Err(RefErr::Unsupported("recursive cte shape".into()));
        };
        let anchor = self.set_expr(left, parent)?;
        let cols: Vec<(String, String)> = c.cols.iter().map(|n| (c.name.clone(), n.clone())).collect();
        let mut result: Vec<Row> = vec![];
        let push_new = |result: &mut Vec<Row>, rows: Vec<Row>| -> Vec<Row> {
            let mut fresh = vec![];
            for r in rows {
                if *all || (!result.iter().any(|x| row_group_eq(x, &r)) && !fresh.iter().any(|x: &Row| row_group_eq(x, &r))) {
                    fresh.push(r);
                }
            }
            result.extend(fresh.iter().cloned());
            fresh
        };
        let mut working = push_new(&mut result, anchor.rows);
        let mut iters = 0;
        while !working.is_empty() {
            iters += 1;
            if iters > 200 || result.len() > 5000 {
                return Err(RefErr::Unsupported("recursive cte does not converge within bounds".into()));
            }
            self.ctes.push((c.name.clone(), Rel { cols: cols.clone(), rows: working }));
            let step = self.set_expr(right, parent);
            self.ctes.pop();
            working = push_new(&mut result, step?.rows);
        }
        Ok(Rel { cols, rows: result })
    }

    fn set_expr(&mut self, s: &SetExpr, parent: Option<&Scope>) -> R<Rel> {
        match s {
            SetExpr::Select(sel) => self.select(sel, parent),
            SetExpr::SetOp { op, all, left, right } => {
                let l = self.set_expr(left, parent)?;
                let r = self.set_expr(right, parent)?;
                if l.cols.len() != r.cols.len() {
                    return Err(RefErr::Unsupported("set operation arity".into()));
                }
                self.tick((l.rows.len() * r.rows.len().max(1)) as u64)?;
                let rows = match (op, all) {
                    (SetOp::Union, true) => l.rows.into_iter().chain(r.rows).collect(),
                    (SetOp::Union, false) => dedup(l.rows.into_iter().chain(r.rows).collect()),
                    (SetOp::Intersect, false) => dedup(l.rows.into_iter().filter(|x| r.rows.iter().any(|y| row_group_eq(x, y))).collect()),
                    (SetOp::Except, false) => dedup(l.rows.into_iter().filter(|x| !r.rows.iter().any(|y| row_group_eq(x, y))).collect()),
                    (SetOp::Intersect, true) => {
                        if self.opts.setop_all_semi_anti {
                            l.rows.into_iter().filter(|x| r.rows.iter().any(|y| row_group_eq(x, y))).collect()
                        } else {
                            let mut used = vec![false; r.rows.len()];
                            let mut out = vec![];
                            for x in l.rows {
                                if let Some(j) = (0..r.rows.len()).find(|&j| !used[j] && row_group_eq(&x, &r.rows[j])) {
                                    used[j] = true;
                                    out.push(x);
                                }
                            }
                            out
                        }
                    }
                    (SetOp::Except, true) => {
                        if self.opts.setop_all_semi_anti {
                            l.rows.into_iter().filter(|x| !r.rows.iter().any(|y| row_group_eq(x, y))).collect()
                        } else {
                            let mut used = vec![false; r.rows.len()];
                            let mut out = vec![];
                            for x in l.rows {
                                if let Some(j) = (0..r.rows.len()).find(|&j| !used[j] && row_group_eq(&x, &r.rows[j])) {
                                    used[j] = true;
                                } else {
                                    out.push(x);
                                }
                            }
                            out
                        }
                    }
                };
                Ok(Rel { cols: l.cols, rows })
            }
        }
    }

    fn from(&mut self, f: &From, parent: Option<&Scope>) -> R<Rel> {
        match f {
            From::Table { name, alias } => {
                if let Some((_, rel)) = self.ctes.iter().rev().find(|(n, _)| n == name) {
                    return Ok(Rel { cols: rel.cols.iter().map(|(_, c)| (alias.clone(), c.clone())).collect(), rows: rel.rows.clone() });
                }
                let t = self.db.tables.iter().find(|t| &t.name == name).ok_or_else(|| RefErr::Unsupported(format!("no table {name}")))?;
                Ok(Rel { cols: t.cols.iter().map(|(c, _)| (alias.clone(), c.clone())).collect(), rows: t.rows.clone() })
            }
            From::Derived { q, alias } => {
                let r = self.query(q, parent)?;
                Ok(Rel { cols: r.cols.iter().map(|(_, c)| (alias.clone(), c.clone())).collect(), rows: r.rows })
            }
            From::Series { func, start, stop, step, alias } => {
                let step = step.unwrap_or(1);
                if step == 0 {
                    return Err(RefErr::Unsupported("series step 0".into()));
                }
                let inclusive = *func == "generate_series";
                let mut rows = vec![];
                let mut x = *start;
                loop {
                    let done = if step > 0 { if inclusive { x > *stop } else { x >= *stop } } else if inclusive { x < *stop } else { x <= *stop };
                    if done || rows.len() > 10_000 {
                        break;
                    }
                    rows.push(vec![Value::Int(x)]);
                    x += step;
                }
                Ok(Rel { cols: vec![(alias.clone(), "value".into())], rows })
            }
            From::Join { left, right, kind, on } => {
                let l = self.from(left, parent)?;
                let r = self.from(right, parent)?;
                self.tick((l.rows.len() * r.rows.len().max(1)) as u64)?;
                let mut cols = l.cols.clone();
                cols.extend(r.cols.iter().cloned());
                let mut matches: Vec<Vec<usize>> = vec![vec![]; l.rows.len()];
                let mut r_matched = vec![false; r.rows.len()];
                for (i, lr) in l.rows.iter().enumerate() {
                    for (j, rr) in r.rows.iter().enumerate() {
                        let hit = match on {
                            None => true,
                            Some(e) => {
                                let mut row = lr.clone();
                                row.extend(rr.iter().cloned());
                                let sc = Scope { cols: &cols, row: &row, parent, group: None, win: None };
                                truth(&self.eval(e, &sc)?) == Some(true)
                            }
                        };
                        if hit {
                            matches[i].push(j);
                            r_matched[j] = true;
                        }
                    }
                }
                let lnull = vec![Value::Null; l.cols.len()];
                let rnull = vec![Value::Null; r.cols.len()];
                let cat = |a: &Row, b: &Row| -> Row { a.iter().cloned().chain(b.iter().cloned()).collect() };
                let mut rows = vec![];
                match kind {
                    JoinKind::Inner | JoinKind::Cross | JoinKind::Left | JoinKind::Right | JoinKind::Full => {
                        for (i, lr) in l.rows.iter().enumerate() {
                            for &j in &matches[i] {
                                rows.push(cat(lr, &r.rows[j]));
                            }
                            if matches[i].is_empty() && matches!(kind, JoinKind::Left | JoinKind::Full) {
                                rows.push(cat(lr, &rnull));
                            }
                        }
                        if matches!(kind, JoinKind::Right | JoinKind::Full) {
                            for (j, rr) in r.rows.iter().enumerate() {
                                if !r_matched[j] {
                                    rows.push(cat(&lnull, rr));
                                }
                            }
                        }
                        Ok(Rel { cols, rows })
                    }
                    JoinKind::LeftSemi | JoinKind::LeftAnti => {
                        for (i, lr) in l.rows.iter().enumerate() {
                            if matches[i].is_empty() == (*kind == JoinKind::LeftAnti) {
                                rows.push(lr.clone());
                            }
                        }
                        Ok(Rel { cols: l.cols, rows })
                    }
                    JoinKind::RightSemi | JoinKind::RightAnti => {
                        for (j, rr) in r.rows.iter().enumerate() {
                            if r_matched[j] != (*kind == JoinKind::RightAnti) {
                                rows.push(rr.clone());
                            }
                        }
                        Ok(Rel { cols: r.cols, rows })
                    }
                }
            }
        }
    }

    fn select(&mut self, s: &Select, parent: Option<&Scope>) -> R<Rel> {
        let input = match &s.from {
            Some(f) => self.from(f, parent)?,
            None => Rel { cols: vec![], rows: vec![vec![]] },
        };
        let cols = input.cols.clone();
        // WHERE
        if let Some(w) = &s.where_ {
            fn conjuncts<'x>(e: &'x Expr, out: &mut Vec<*const Expr>) {
                match e {
                    Expr::Bin(a, BinOp::And, b) => {
                        conjuncts(a, out);
                        conjuncts(b, out);
                    }
                    Expr::InSubquery { .. } => out.push(e as *const Expr),
                    Expr::Not(inner) if matches!(**inner, Expr::InSubquery { .. }) => out.push(&**inner as *const Expr),
                    _ => {}
                }
            }
            conjuncts(w, &mut self.top_in);
        }
        let mut rows: Vec<Row> = vec![];
        for row in input.rows {
            let keep = match &s.where_ {
                None => true,
                Some(w) => {
                    let sc = Scope { cols: &cols, row: &row, parent, group: None, win: None };
                    truth(&self.eval(w, &sc)?) == Some(true)
                }
            };
            if keep {
                rows.push(row);
            }
        }
        self.tick(rows.len() as u64 + 1)?;
        let out_cols: Vec<(String, String)> = s.items.iter().map(|(_, a)| (String::new(), a.clone())).collect();
        let grouped = !s.group_by.is_empty() || s.grouping == Grouping::Sets || s.items.iter().any(|(e, _)| contains_agg(e)) || s.having.as_ref().is_some_and(contains_agg);
        let mut out: Vec<Row> = vec![];
        if grouped {
            let nk = s.group_by.len();
            let full: u32 = if nk == 0 { 0 } else { (1u32 << nk) - 1 };
            let sets: Vec<u32> = match s.grouping {
                Grouping::Plain => vec![full],
                Grouping::Rollup => (0..=nk).rev().map(|k| if k == 0 { 0 } else { (1u32 << k) - 1 }).collect(),
                Grouping::Cube => (0..=full).rev().collect(),
                Grouping::Sets => s.sets.clone(),
            };
            // key values per row
            let mut keyvals: Vec<Vec<Value>> = vec![];
            for row in &rows {
                let sc = Scope { cols: &cols, row, parent, group: None, win: None };
                let mut k = vec![];
                for e in &s.group_by {
                    k.push(self.eval(e, &sc)?);
                }
                keyvals.push(k);
            }
            for mask in sets {
                // groups in first-seen order
                let mut groups: Vec<(Vec<Value>, Vec<usize>)> = vec![];
                for (i, kv) in keyvals.iter().enumerate() {
                    let k: Vec<Value> = kv.iter().enumerate().map(|(j, v)| if mask & (1 << j) != 0 { v.clone() } else { Value::Null }).collect();
                    match groups.iter_mut().find(|(gk, _)| row_group_eq(gk, &k)) {
                        Some(g) => g.1.push(i),
                        None => groups.push((k, vec![i])),
                    }
                }
                self.tick((rows.len() * groups.len().max(1)) as u64)?;
                if groups.is_empty() && mask == 0 {
                    // the empty grouping set always produces one (grand total) group
                    groups.push((vec![Value::Null; nk], vec![]));
                }
                let empty_row: Row = vec![Value::Null; cols.len()];
                for (k, idxs) in &groups {
                    let grows: Vec<&Row> = idxs.iter().map(|i| &rows[*i]).collect();
                    let g = GroupCtx { keys: &s.group_by, key_vals: k, rows: &grows };
                    let rep: &Row = grows.first().copied().unwrap_or(&empty_row);
                    let sc = Scope { cols: &cols, row: rep, parent, group: Some(&g), win: None };
                    if let Some(h) = &s.having {
                        if truth(&self.eval(h, &sc)?) != Some(true) {
                            continue;
                        }
                    }
                    let mut o = vec![];
                    for (e, _) in &s.items {
                        o.push(self.eval(e, &sc)?);
                    }
                    out.push(o);
                }
            }
        } else {
            // window pre-pass
            let mut wins: Vec<(Expr, Vec<Value>)> = vec![];
            for (e, _) in &s.items {
                let mut found = vec![];
                walk_expr(e, &mut |x| {
                    if matches!(x, Expr::Win { .. }) {
                        found.push(x.clone());
                    }
                });
                for w in found {
                    if !wins.iter().any(|(x, _)| *x == w) {
                        let vals = self.window(&w, &cols, &rows, parent)?;
                        wins.push((w, vals));
                    }
                }
            }
            for (i, row) in rows.iter().enumerate() {
                let sc = Scope { cols: &cols, row, parent, group: None, win: if wins.is_empty() { None } else { Some((&wins, i)) } };
                let mut o = vec![];
                for (e, _) in &s.items {
                    o.push(self.eval(e, &sc)?);
                }
                out.push(o);
            }
        }
        if s.distinct {
            out = dedup(out);
        }
        Ok(Rel { cols: out_cols, rows: out })
    }

    /// value of a window expression for every input row, by definition:
    /// partition → sort → per-row frame bounds → fold.
    fn window(&mut self, w: &Expr, cols: &[(String, String)], rows: &[Row], parent: Option<&Scope>) -> R<Vec<Value>> {
        let Expr::Win { f, args, partition_by, order_by, frame } = w else { unreachable!() };
        let n = rows.len();
        let mut pk: Vec<Vec<Value>> = vec![];
        let mut ok: Vec<Vec<Value>> = vec![];
        let mut av: Vec<Vec<Value>> = vec![];
        for row in rows {
            let sc = Scope { cols, row, parent, group: None, win: None };
            let mut p = vec![];
            for e in partition_by {
                p.push(self.eval(e, &sc)?);
            }
            pk.push(p);
            let mut o = vec![];
            for e in order_by {
                o.push(self.eval(&e.expr, &sc)?);
            }
            ok.push(o);
            let mut a = vec![];
            for e in args {
                a.push(self.eval(e, &sc)?);
            }
            av.push(a);
        }
        self.tick((n * n) as u64)?;
        let mut out = vec![Value::Null; n];
        let mut parts: Vec<Vec<usize>> = vec![];
        for i in 0..n {
            match parts.iter_mut().find(|p| row_group_eq(&pk[p[0]], &pk[i])) {
                Some(p) => p.push(i),
                None => parts.push(vec![i]),
            }
        }
        let ord_cmp = |a: usize, b: usize| -> Ordering {
            for (k, o) in order_by.iter().enumerate() {
                let c = sort_cmp(&ok[a][k], &ok[b][k], o.desc, o.nulls_first_eff());
                if c != Ordering::Equal {
                    return c;
                }
            }
            Ordering::Equal
        };
        for p in parts.iter_mut() {
            p.sort_by(|a, b| ord_cmp(*a, *b)); // stable: ties keep input order (generator guarantees irrelevance)
            let m = p.len();
            // peer groups
            let mut grp = vec![0usize; m];
            for i in 1..m {
                grp[i] = grp[i - 1] + if ord_cmp(p[i - 1], p[i]) == Ordering::Equal { 0 } else { 1 };
            }
            let first_of = |g: usize| (0..m).find(|&i| grp[i] == g).unwrap();
            let last_of = |g: usize| (0..m).rev().find(|&i| grp[i] == g).unwrap();
            let ngroups = grp.last().map(|g| g + 1).unwrap_or(0);
            let default_frame = if order_by.is_empty() {
                Frame { unit: FrameUnit::Rows, start: Bound::UnboundedPreceding, end: Bound::UnboundedFollowing }
            } else {
                Frame { unit: FrameUnit::Range, start: Bound::UnboundedPreceding, end: Bound::CurrentRow }
            };
            let fr = frame.clone().unwrap_or(default_frame);
            for i in 0..m {
                // frame [lo, hi] inclusive indices in partition order; empty if lo > hi
                let (lo, hi): (i64, i64) = match fr.unit {
                    FrameUnit::Rows => {
                        let b = |b: &Bound, start: bool| -> i64 {
                            match b {
                                Bound::UnboundedPreceding => 0,
                                Bound::Preceding(k) => i as i64 - *k as i64,
                                Bound::CurrentRow => i as i64,
                                Bound::Following(k) => i as i64 + *k as i64,
                                Bound::UnboundedFollowing => m as i64 - 1,
                            }
                            .max(if start { 0 } else { -1 })
                            .min(if start { m as i64 } else { m as i64 - 1 })
                        };
                        (b(&fr.start, true), b(&fr.end, false))
                    }
                    FrameUnit::Groups => {
                        let g = grp[i] as i64;
                        let gs = match fr.start {
                            Bound::UnboundedPreceding => 0,
                            Bound::Preceding(k) => g - k as i64,
                            Bound::CurrentRow => g,
                            Bound::Following(k) => g + k as i64,
                            Bound::UnboundedFollowing => ngroups as i64,
                        };
                        let ge = match fr.end {
                            Bound::UnboundedPreceding => -1,
                            Bound::Preceding(k) => g - k as i64,
                            Bound::CurrentRow => g,
                            Bound::Following(k) => g + k as i64,
                            Bound::UnboundedFollowing => ngroups as i64 - 1,
                        };
                        let gs = gs.max(0);
                        let ge = ge.min(ngroups as i64 - 1);
                        if gs > ge || gs >= ngroups as i64 || ge < 0 { (1, 0) } else { (first_of(gs as usize) as i64, last_of(ge as usize) as i64) }
                    }
                    FrameUnit::Range => {
                        // offsets only with exactly one numeric order key (generator guarantees)
                        let needs_off = matches!(fr.start, Bound::Preceding(_) | Bound::Following(_)) || matches!(fr.end, Bound::Preceding(_) | Bound::Following(_));
                        if needs_off {
                            if order_by.len() != 1 {
                                return Err(RefErr::Unsupported("range offset with several keys".into()));
                            }
                            let desc = order_by[0].desc;
                            let cur = &ok[p[i]][0];
                            let in_frame = |j: usize| -> R<bool> {
                                let v = &ok[p[j]][0];
                                if cur.is_null() || v.is_null() {
                                    // NULL order keys are peers of each other; a NULL/non-NULL pair is
                                    // only related through an unbounded side
                                    if cur.is_null() && v.is_null() {
                                        return Ok(true);
                                    }
                                    return Ok(if j < i { matches!(fr.start, Bound::UnboundedPreceding) } else { matches!(fr.end, Bound::UnboundedFollowing) });
                                }
                                let (c, x) = (cur.as_f64().ok_or(RefErr::Unsupported("range key".into()))?, v.as_f64().ok_or(RefErr::Unsupported("range key".into()))?);
                                // distance along the sort direction: positive = after current
                                let d = if desc { c - x } else { x - c };
                                let lo_ok = match fr.start {
                                    Bound::UnboundedPreceding => true,
                                    Bound::Preceding(k) => d >= -(k as f64),
                                    Bound::CurrentRow => d >= 0.0,
                                    Bound::Following(k) => d >= k as f64,
                                    Bound::UnboundedFollowing => false,
                                };
                                let hi_ok = match fr.end {
                                    Bound::UnboundedPreceding => false,
                                    Bound::Preceding(k) => d <= -(k as f64),
                                    Bound::CurrentRow => d <= 0.0,
                                    Bound::Following(k) => d <= k as f64,
                                    Bound::UnboundedFollowing => true,
                                };
                                Ok(lo_ok && hi_ok)
                            };
                            let mut idx = vec![];
                            for j in 0..m {
                                if in_frame(j)? {
                                    idx.push(j);
                                }
                            }
                            if idx.is_empty() { (1, 0) } else { (idx[0] as i64, *idx.last().unwrap() as i64) }
                        } else {
                            let g = grp[i];
                            let lo = match fr.start {
                                Bound::UnboundedPreceding => 0,
                                Bound::CurrentRow => first_of(g) as i64,
                                Bound::UnboundedFollowing => m as i64,
                                _ => unreachable!(),
                            };
                            let hi = match fr.end {
                                Bound::UnboundedFollowing => m as i64 - 1,
                                Bound::CurrentRow => last_of(g) as i64,
                                Bound::UnboundedPreceding => -1,
                                _ => unreachable!(),
                            };
                            (lo, hi)
                        }
                    }
                };
                let frame_idx: Vec<usize> = if lo > hi { vec![] } else { (lo.max(0) as usize..=(hi.min(m as i64 - 1)) as usize).collect() };
                let arg0 = |j: usize| av[p[j]].first().cloned().unwrap_or(Value::Null);
                let v = match f {
                    WinFn::RowNumber => Value::Int(i as i64 + 1),
                    WinFn::Rank => Value::Int(first_of(grp[i]) as i64 + 1),
                    WinFn::DenseRank => Value::Int(grp[i] as i64 + 1),
                    WinFn::Lag | WinFn::Lead => {
                        let off = match av[p[i]].get(1) {
                            Some(Value::Int(k)) => *k,
                            None => 1,
                            _ => return Err(RefErr::Unsupported("lag offset".into())),
                        };
                        let j = if *f == WinFn::Lag { i as i64 - off } else { i as i64 + off };
                        if j >= 0 && (j as usize) < m { arg0(j as usize) } else { av[p[i]].get(2).cloned().unwrap_or(Value::Null) }
                    }
                    WinFn::FirstValue => frame_idx.first().map(|j| arg0(*j)).unwrap_or(Value::Null),
                    WinFn::LastValue => frame_idx.last().map(|j| arg0(*j)).unwrap_or(Value::Null),
                    WinFn::Sum | WinFn::Count | WinFn::Min | WinFn::Max | WinFn::Avg => {
                        let star = args.is_empty();
                        let vals: Vec<Value> = frame_idx.iter().map(|j| arg0(*j)).filter(|v| !v.is_null()).collect();
                        let af = match f {
                            WinFn::Sum => AggFn::Sum,
                            WinFn::Count => {
                                if star { AggFn::CountStar } else { AggFn::Count }
                            }
                            WinFn::Min => AggFn::Min,
                            WinFn::Max => AggFn::Max,
                            _ => AggFn::Avg,
                        };
                        fold_agg(af, &vals, frame_idx.len() as i64)
                    }
                };
                out[p[i]] = v;
            }
        }
        Ok(out)
    }
}

fn in_values(v: &Value, vals: &[Value]) -> Option<bool> {
    if v.is_null() {
        return if vals.is_empty() { Some(false) } else { None };
    }
    let mut saw_null = false;
    for x in vals {
        match cmp_op(BinOp::Eq, v, x) {
            Some(true) => return Some(true),
            None => saw_null = true,
            _ => {}
        }
    }
    if saw_null { None } else { Some(false) }
}

pub fn fold_agg(f: AggFn, vals: &[Value], n_rows: i64) -> Value {
    match f {
        AggFn::CountStar => Value::Int(n_rows),
        AggFn::Count => Value::Int(vals.len() as i64),
        AggFn::Sum => {
            if vals.is_empty() {
                return Value::Null;
            }
            if vals.iter().all(|v| matches!(v, Value::Int(_))) {
                Value::Int(vals.iter().fold(0i64, |a, v| if let Value::Int(i) = v { a.wrapping_add(*i) } else { a }))
            } else {
                Value::Float(vals.iter().filter_map(|v| v.as_f64()).sum())
            }
        }
        AggFn::Avg => {
            if vals.is_empty() {
                return Value::Null;
            }
            let s: f64 = vals.iter().filter_map(|v| v.as_f64()).sum();
            Value::Float(s / vals.len() as f64)
        }
        AggFn::Min | AggFn::Max => {
            let mut best: Option<&Value> = None;
            for v in vals {
                best = match best {
                    None => Some(v),
                    Some(b) => {
                        let c = cmp_nonnull(v, b).unwrap_or(Ordering::Equal);
                        if (f == AggFn::Min && c == Ordering::Less) || (f == AggFn::Max && c == Ordering::Greater) { Some(v) } else { Some(b) }
                    }
                };
            }
            best.cloned().unwrap_or(Value::Null)
        }
    }
}

pub fn dedup(rows: Vec<Row>) -> Vec<Row> {
    let mut out: Vec<Row> = vec![];
    for r in rows {
        if !out.iter().any(|x| row_group_eq(x, &r)) {
            out.push(r);
        }
    }
    out
}
