//! Seeded generators: small typed tables with hostile value distributions and a typed,
//! scope-aware query grammar that only emits programs whose answer is uniquely defined
//! (determinism discipline, DESIGN §3.1).

use crate::ast::*;
use crate::refint::{Db, Table};
use crate::value::*;
use std::collections::BTreeSet;
use vcommon::Rng;

pub const STR_POOL: &[&str] = &["a", "b", "ab", "A", "", "x y", "é", "abc", "b%", "a_"];

#[derive(Clone, Debug)]
pub struct GCol {
    pub rel: String,
    pub name: String,
    pub ty: Ty,
    /// unique, non-null integer (base-table id) — usable as RANGE key / tie breaker
    pub is_id: bool,
}

pub type GScope = Vec<GCol>;

#[derive(Clone, Debug)]
pub struct GenCfg {
    pub max_depth: usize,
    pub windows: bool,
    pub setops: bool,
    pub subqueries: bool,
    pub ctes: bool,
    pub grouping_sets: bool,
    pub series: bool,
    pub semi_anti_joins: bool,
    pub limit: bool,
    pub max_rows: usize,
}

impl Default for GenCfg {
    fn default() -> Self {
        GenCfg { max_depth: 3, windows: true, setops: true, subqueries: true, ctes: true, grouping_sets: true, series: true, semi_anti_joins: true, limit: true, max_rows: 12 }
    }
}

pub fn gen_value(rng: &mut Rng, ty: Ty, null_pct: u64, few: bool) -> Value {
    if rng.below(100) < null_pct {
        return Value::Null;
    }
    match ty {
        Ty::Int => Value::Int(if few { rng.range(0, 2) } else { rng.range(-2, 9) }),
        Ty::Float => Value::Float(if few { rng.range(0, 2) as f64 * 0.5 } else { rng.range(-16, 40) as f64 / 8.0 }),
        Ty::Str => Value::Str(if few { STR_POOL[rng.usize(3)].to_string() } else { rng.pick(STR_POOL).to_string() }),
        Ty::Bool => Value::Bool(rng.bool()),
    }
}

/// 1–3 tables `t0..`, each with a unique non-null `id` plus 2–4 typed nullable columns.
pub fn gen_db(rng: &mut Rng, max_rows: usize) -> Db {
    let nt = 1 + rng.usize(3);
    let mut tables = vec![];
    for t in 0..nt {
        let ncols = 2 + rng.usize(3);
        let mut cols = vec![("id".to_string(), Ty::Int)];
        let names = ["a", "b", "c", "d"];
        for c in 0..ncols {
            // first extra column is always Int so equi-joins always have candidates
            let ty = if c == 0 { Ty::Int } else { *rng.pick(&[Ty::Int, Ty::Int, Ty::Float, Ty::Str, Ty::Str, Ty::Bool]) };
            cols.push((names[c].to_string(), ty));
        }
        // data shape
        let shape = rng.below(8);
        let nrows = match shape {
            0 => 0,
            1 => 1,
            _ => 1 + rng.usize(max_rows),
        };
        let col_null: Vec<u64> = cols.iter().map(|_| *rng.pick(&[0u64, 0, 15, 40, 70])).collect();
        let col_few: Vec<bool> = cols.iter().map(|_| rng.chance(1, 3)).collect();
        let mut rows = vec![];
        let template: Row = cols.iter().enumerate().map(|(i, (_, ty))| gen_value(rng, *ty, col_null[i], col_few[i])).collect();
        for r in 0..nrows {
            let mut row: Row = match shape {
                2 => vec![Value::Null; cols.len()],                               // all NULL
                3 => template.clone(),                                            // all duplicate
                _ => cols.iter().enumerate().map(|(i, (_, ty))| gen_value(rng, *ty, col_null[i], col_few[i])).collect(),
            };
            row[0] = Value::Int(r as i64 + 1);
            rows.push(row);
        }
        rng.shuffle(&mut rows);
        tables.push(Table { name: format!("t{t}"), cols, rows });
    }
    Db { tables }
}

pub struct Gen<'a> {
    pub rng: &'a mut Rng,
    pub db: &'a Db,
    pub cfg: GenCfg,
    next: usize,
    pub features: BTreeSet<&'static str>,
    /// visible CTEs: (name, columns)
    ctes: Vec<(String, Vec<(String, Ty)>)>,
    /// outer scopes for correlation (innermost last)
    outer: Vec<GScope>,
    pub n_params: usize,
}

impl<'a> Gen<'a> {
    pub fn new(rng: &'a mut Rng, db: &'a Db, cfg: GenCfg) -> Self {
        Gen { rng, db, cfg, next: 0, features: BTreeSet::new(), ctes: vec![], outer: vec![], n_params: 0 }
    }

    fn fresh(&mut self, p: &str) -> String {
        self.next += 1;
        format!("{p}{}", self.next)
    }

    fn feat(&mut self, f: &'static str) {
        self.features.insert(f);
    }

    // ---------------------------------------------------------------- literals

    pub fn lit(&mut self, ty: Ty) -> Expr {
        let v = match ty {
            Ty::Int => Value::Int(self.rng.range(-3, 9)),
            Ty::Float => Value::Float(self.rng.range(-16, 40) as f64 / 8.0),
            Ty::Str => Value::Str(self.rng.pick(STR_POOL).to_string()),
            Ty::Bool => Value::Bool(self.rng.bool()),
        };
        if self.rng.chance(1, 25) { Expr::Lit(Value::Null, ty) } else { Expr::Lit(v, ty) }
    }

    fn cols_of(&self, sc: &GScope, ty: Ty) -> Vec<GCol> {
        sc.iter().filter(|c| c.ty == ty).cloned().collect()
    }

    fn col(&mut self, sc: &GScope, ty: Ty) -> Option<Expr> {
        let cs = self.cols_of(sc, ty);
        if cs.is_empty() {
            return None;
        }
        let c = self.rng.pick(&cs).clone();
        Some(Expr::Col { rel: c.rel, name: c.name })
    }

    // ---------------------------------------------------------------- expressions

    /// typed scalar expression over `sc` (no aggregates, no windows, no subqueries)
    pub fn expr(&mut self, sc: &GScope, ty: Ty, depth: usize) -> Expr {
        let leaf = depth == 0 || self.rng.chance(2, 5);
        if leaf {
            if self.rng.chance(3, 4) {
                if let Some(c) = self.col(sc, ty) {
                    return c;
                }
            }
            return self.lit(ty);
        }
        let d = depth - 1;
        match ty {
            Ty::Int => match self.rng.below(12) {
                0..=2 => {
                    let op = *self.rng.pick(&[BinOp::Add, BinOp::Sub, BinOp::Mul]);
                    Expr::Bin(Box::new(self.expr(sc, Ty::Int, d)), op, Box::new(self.expr(sc, Ty::Int, 0)))
                }
                3 => {
                    self.feat("int-div-mod");
                    let op = *self.rng.pick(&[BinOp::Div, BinOp::Mod]);
                    let divisor = Expr::NullIf(Box::new(self.expr(sc, Ty::Int, 0)), Box::new(Expr::Lit(Value::Int(0), Ty::Int)));
                    Expr::Bin(Box::new(self.expr(sc, Ty::Int, d)), op, Box::new(divisor))
                }
                4 => Expr::Neg(Box::new(self.expr(sc, Ty::Int, d))),
                5 => Expr::Func("abs", vec![self.expr(sc, Ty::Int, d)]),
                6 => Expr::Func("length", vec![self.expr(sc, Ty::Str, d)]),
                7 => self.case(sc, Ty::Int, d),
                8 => {
                    self.feat("coalesce");
                    Expr::Coalesce(vec![self.expr(sc, Ty::Int, d), self.expr(sc, Ty::Int, 0)])
                }
                9 => {
                    self.feat("nullif");
                    Expr::NullIf(Box::new(self.expr(sc, Ty::Int, d)), Box::new(self.expr(sc, Ty::Int, 0)))
                }
                10 => {
                    self.feat("cast");
                    Expr::Cast(Box::new(self.expr(sc, Ty::Float, d)), Ty::Int)
                }
                _ => self.expr(sc, Ty::Int, 0),
            },
            Ty::Float => match self.rng.below(8) {
                0..=2 => {
                    // no float multiplication: it is the only way to create -0.0, whose ordering vs
                    // +0.0 differs between comparison (equal) and sorting (smaller) in the engine
                    let op = *self.rng.pick(&[BinOp::Add, BinOp::Sub]);
                    let rhs_ty = if self.rng.bool() { Ty::Float } else { Ty::Int };
                    Expr::Bin(Box::new(self.expr(sc, Ty::Float, d)), op, Box::new(self.expr(sc, rhs_ty, 0)))
                }
                3 => self.case(sc, Ty::Float, d),
                4 => Expr::Coalesce(vec![self.expr(sc, Ty::Float, d), self.expr(sc, Ty::Float, 0)]),
                5 => {
                    self.feat("cast");
                    Expr::Cast(Box::new(self.expr(sc, Ty::Int, d)), Ty::Float)
                }
                6 => Expr::Func("abs", vec![self.expr(sc, Ty::Float, d)]),
                _ => self.expr(sc, Ty::Float, 0),
            },
            Ty::Str => match self.rng.below(8) {
                0..=1 => {
                    self.feat("concat");
                    Expr::Bin(Box::new(self.expr(sc, Ty::Str, d)), BinOp::Concat, Box::new(self.expr(sc, Ty::Str, 0)))
                }
                2 => Expr::Func(if self.rng.bool() { "upper" } else { "lower" }, vec![self.expr(sc, Ty::Str, d)]),
                3 => self.case(sc, Ty::Str, d),
                4 => Expr::Coalesce(vec![self.expr(sc, Ty::Str, d), self.expr(sc, Ty::Str, 0)]),
                5 => {
                    self.feat("cast");
                    Expr::Cast(Box::new(self.expr(sc, Ty::Int, d)), Ty::Str)
                }
                _ => self.expr(sc, Ty::Str, 0),
            },
            Ty::Bool => self.pred(sc, d, false),
        }
    }

    fn case(&mut self, sc: &GScope, ty: Ty, d: usize) -> Expr {
        self.feat("case");
        let n = 1 + self.rng.usize(2);
        if self.rng.chance(1, 3) {
            let oty = *self.rng.pick(&[Ty::Int, Ty::Str]);
            let operand = self.expr(sc, oty, d);
            let whens = (0..n).map(|_| (self.lit(oty), self.expr(sc, ty, d))).collect();
            let else_ = if self.rng.bool() { Some(Box::new(self.expr(sc, ty, 0))) } else { None };
            Expr::Case { operand: Some(Box::new(operand)), whens, else_ }
        } else {
            let whens = (0..n).map(|_| (self.pred(sc, d, false), self.expr(sc, ty, d))).collect();
            let else_ = if self.rng.bool() { Some(Box::new(self.expr(sc, ty, 0))) } else { None };
            Expr::Case { operand: None, whens, else_ }
        }
    }

    fn cmp_pair(&mut self, sc: &GScope, d: usize) -> (Expr, Expr) {
        let ty = *self.rng.pick(&[Ty::Int, Ty::Int, Ty::Float, Ty::Str]);
        let a = self.expr(sc, ty, d);
        let bty = if ty.is_num() && self.rng.chance(1, 5) { if ty == Ty::Int { Ty::Float } else { Ty::Int } } else { ty };
        let b = self.expr(sc, bty, d.min(1));
        (a, b)
    }

    /// boolean predicate; `subq` allows EXISTS / IN / ANY / ALL / scalar-subquery comparisons
    pub fn pred(&mut self, sc: &GScope, depth: usize, subq: bool) -> Expr {
        let d = depth.saturating_sub(1);
        if subq && self.cfg.subqueries && self.rng.chance(1, 3) {
            return self.subquery_pred(sc, d);
        }
        match self.rng.below(if depth == 0 { 7 } else { 13 }) {
            0..=2 => {
                let (a, b) = self.cmp_pair(sc, d);
                let op = *self.rng.pick(&[BinOp::Eq, BinOp::Ne, BinOp::Lt, BinOp::Le, BinOp::Gt, BinOp::Ge]);
                Expr::Bin(Box::new(a), op, Box::new(b))
            }
            3 => {
                let ty = *self.rng.pick(&[Ty::Int, Ty::Float, Ty::Str, Ty::Bool]);
                Expr::IsNull(Box::new(self.expr(sc, ty, d)), self.rng.bool())
            }
            4 => {
                self.feat("in-list");
                let ty = *self.rng.pick(&[Ty::Int, Ty::Str]);
                let n = 1 + self.rng.usize(4);
                Expr::InList { e: Box::new(self.expr(sc, ty, d)), list: (0..n).map(|_| self.lit(ty)).collect(), negated: self.rng.chance(1, 3) }
            }
            5 => {
                if let Some(c) = self.col(sc, Ty::Bool) { c } else { self.lit(Ty::Bool) }
            }
            6 => {
                self.feat("like");
                let pat = *self.rng.pick(&["a%", "%b", "_", "%", "a_", "%a%", "ab", "", "b\\%", "A%"]);
                Expr::Like { e: Box::new(self.expr(sc, Ty::Str, d)), pat: Box::new(Expr::Lit(Value::Str(pat.into()), Ty::Str)), negated: self.rng.chance(1, 4), ci: self.rng.chance(1, 4) }
            }
            7..=8 => {
                let op = if self.rng.bool() { BinOp::And } else { BinOp::Or };
                Expr::Bin(Box::new(self.pred(sc, d, subq)), op, Box::new(self.pred(sc, d, subq)))
            }
            9 => Expr::Not(Box::new(self.pred(sc, d, subq))),
            10 => {
                self.feat("between");
                let ty = *self.rng.pick(&[Ty::Int, Ty::Float]);
                Expr::Between { e: Box::new(self.expr(sc, ty, d)), lo: Box::new(self.lit(ty)), hi: Box::new(self.lit(ty)), negated: self.rng.chance(1, 4) }
            }
            11 => {
                self.feat("is-distinct-from");
                let ty = *self.rng.pick(&[Ty::Int, Ty::Str, Ty::Bool]);
                let op = if self.rng.bool() { BinOp::IsDistinct } else { BinOp::IsNotDistinct };
                Expr::Bin(Box::new(self.expr(sc, ty, d)), op, Box::new(self.expr(sc, ty, d)))
            }
            _ => {
                let (a, b) = self.cmp_pair(sc, 0);
                Expr::Bin(Box::new(a), BinOp::Eq, Box::new(b))
            }
        }
    }

    // ---------------------------------------------------------------- subqueries

    /// a small SELECT usable as subquery, with `want` output types; correlated to `outer_sc`
    /// through equality predicates with some probability
    fn sub_select(&mut self, outer_sc: &GScope, want: &[Ty], depth: usize, single_row_agg: bool) -> Query {
        let t = self.rng.usize(self.db.tables.len());
        let tab = &self.db.tables[t];
        let alias = self.fresh("s");
        let sc: GScope = tab.cols.iter().map(|(n, ty)| GCol { rel: alias.clone(), name: n.clone(), ty: *ty, is_id: n == "id" }).collect();
        let mut from = From::Table { name: tab.name.clone(), alias: alias.clone() };
        let mut sc = sc;
        if depth > 0 && self.rng.chance(1, 5) && self.db.tables.len() > 1 {
            // join with another table inside the subquery
            let t2 = self.rng.usize(self.db.tables.len());
            let tab2 = &self.db.tables[t2];
            let a2 = self.fresh("s");
            let sc2: GScope = tab2.cols.iter().map(|(n, ty)| GCol { rel: a2.clone(), name: n.clone(), ty: *ty, is_id: false }).collect();
            let on = self.join_on(&sc, &sc2);
            from = From::Join { left: Box::new(from), right: Box::new(From::Table { name: tab2.name.clone(), alias: a2 }), kind: JoinKind::Inner, on: Some(on) };
            for c in sc.iter_mut() {
                c.is_id = false;
            }
            sc.extend(sc2);
        }
        let mut conj: Vec<Expr> = vec![];
        if self.rng.chance(3, 5) {
            // correlation: inner.col = outer.col of the same type
            let cands: Vec<(GCol, GCol)> = sc.iter().flat_map(|i| outer_sc.iter().filter(move |o| o.ty == i.ty && i.ty != Ty::Bool && i.ty != Ty::Float).map(move |o| (i.clone(), o.clone()))).collect();
            if !cands.is_empty() {
                self.feat("correlated-subquery");
                let (i, o) = self.rng.pick(&cands).clone();
                conj.push(Expr::Bin(Box::new(Expr::Col { rel: i.rel, name: i.name }), BinOp::Eq, Box::new(Expr::Col { rel: o.rel, name: o.name })));
            }
        }
        if self.rng.chance(1, 2) {
            conj.push(self.pred(&sc, depth.min(1), false));
        }
        let where_ = conj.into_iter().reduce(|a, b| Expr::Bin(Box::new(a), BinOp::And, Box::new(b)));
        let items: Vec<(Expr, String)> = if single_row_agg {
            self.feat("scalar-agg-subquery");
            want.iter().map(|ty| (self.agg_of(&sc, *ty), self.fresh("c"))).collect()
        } else {
            want.iter().map(|ty| (self.expr(&sc, *ty, depth.min(1)), self.fresh("c"))).collect()
        };
        let distinct = !single_row_agg && self.rng.chance(1, 6);
        Query::simple(Select { distinct, items, from: Some(from), where_, group_by: vec![], grouping: Grouping::Plain, sets: vec![], having: None })
    }

    /// aggregate expression of result type `ty` over `sc`
    fn agg_of(&mut self, sc: &GScope, ty: Ty) -> Expr {
        let distinct = self.rng.chance(1, 6);
        let filter = if self.rng.chance(1, 8) { Some(Box::new(self.pred(sc, 0, false))) } else { None };
        if filter.is_some() {
            self.feat("agg-filter");
        }
        if distinct {
            self.feat("agg-distinct");
        }
        match ty {
            Ty::Int => match self.rng.below(5) {
                0 => Expr::Agg { f: AggFn::CountStar, arg: None, distinct: false, filter },
                1 => {
                    let aty = *self.rng.pick(&[Ty::Int, Ty::Str, Ty::Float]);
                    Expr::Agg { f: AggFn::Count, arg: Some(Box::new(self.expr(sc, aty, 1))), distinct, filter }
                }
                2 => Expr::Agg { f: AggFn::Sum, arg: Some(Box::new(self.expr(sc, Ty::Int, 1))), distinct, filter },
                3 => Expr::Agg { f: AggFn::Min, arg: Some(Box::new(self.expr(sc, Ty::Int, 1))), distinct: false, filter },
                _ => Expr::Agg { f: AggFn::Max, arg: Some(Box::new(self.expr(sc, Ty::Int, 1))), distinct: false, filter },
            },
            Ty::Float => match self.rng.below(4) {
                0 => Expr::Agg { f: AggFn::Sum, arg: Some(Box::new(self.expr(sc, Ty::Float, 1))), distinct, filter },
                1 => {
                    let aty = *self.rng.pick(&[Ty::Int, Ty::Float]);
                    Expr::Agg { f: AggFn::Avg, arg: Some(Box::new(self.expr(sc, aty, 1))), distinct: false, filter }
                }
                2 => Expr::Agg { f: AggFn::Min, arg: Some(Box::new(self.expr(sc, Ty::Float, 1))), distinct: false, filter },
                _ => Expr::Agg { f: AggFn::Max, arg: Some(Box::new(self.expr(sc, Ty::Float, 1))), distinct: false, filter },
            },
            Ty::Str => Expr::Agg { f: if self.rng.bool() { AggFn::Min } else { AggFn::Max }, arg: Some(Box::new(self.expr(sc, Ty::Str, 1))), distinct: false, filter },
            Ty::Bool => {
                // no boolean aggregate in the fragment: compare an aggregate instead
                let a = self.agg_of(sc, Ty::Int);
                Expr::Bin(Box::new(a), BinOp::Gt, Box::new(self.lit(Ty::Int)))
            }
        }
    }

    fn subquery_pred(&mut self, sc: &GScope, depth: usize) -> Expr {
        match self.rng.below(5) {
            0 => {
                self.feat("exists");
                let q = self.sub_select(sc, &[Ty::Int], depth, false);
                Expr::Exists { q: Box::new(q), negated: self.rng.chance(1, 3) }
            }
            1 => {
                let ty = *self.rng.pick(&[Ty::Int, Ty::Int, Ty::Str]);
                let negated = self.rng.chance(1, 2);
                self.feat(if negated { "not-in-subquery" } else { "in-subquery" });
                // correlated NOT IN needs a multi-key null-aware anti join, which the engine rejects at planning
                let empty: GScope = vec![];
                let q = if negated && self.rng.chance(4, 5) { self.sub_select(&empty, &[ty], depth, false) } else { self.sub_select(sc, &[ty], depth, false) };
                Expr::InSubquery { e: Box::new(self.expr(sc, ty, 1)), q: Box::new(q), negated }
            }
            2 => {
                self.feat("scalar-subquery");
                let ty = *self.rng.pick(&[Ty::Int, Ty::Float]);
                let q = self.sub_select(sc, &[ty], depth, true);
                let op = *self.rng.pick(&[BinOp::Eq, BinOp::Lt, BinOp::Ge, BinOp::Ne]);
                Expr::Bin(Box::new(self.expr(sc, ty, 1)), op, Box::new(Expr::Scalar(Box::new(q))))
            }
            _ => {
                let all = self.rng.bool();
                self.feat(if all { "quantified-all" } else { "quantified-any" });
                let ty = *self.rng.pick(&[Ty::Int, Ty::Int, Ty::Float]);
                let q = self.sub_select(sc, &[ty], depth, false);
                let op = *self.rng.pick(&[BinOp::Eq, BinOp::Ne, BinOp::Lt, BinOp::Le, BinOp::Gt, BinOp::Ge]);
                Expr::Quantified { e: Box::new(self.expr(sc, ty, 1)), op, all, q: Box::new(q) }
            }
        }
    }

    // ---------------------------------------------------------------- FROM

    fn join_on(&mut self, l: &GScope, r: &GScope) -> Expr {
        // equality on a same-typed pair (mostly), optionally with a residual
        let pairs: Vec<(GCol, GCol)> = l.iter().flat_map(|a| r.iter().filter(move |b| b.ty == a.ty && a.ty != Ty::Bool && a.ty != Ty::Float).map(move |b| (a.clone(), b.clone()))).collect();
        let mut both = l.clone();
        both.extend(r.iter().cloned());
        if pairs.is_empty() || self.rng.chance(1, 8) {
            self.feat("join-non-equi");
            return self.pred(&both, 1, false);
        }
        let (a, b) = self.rng.pick(&pairs).clone();
        let mut on = Expr::Bin(Box::new(Expr::Col { rel: a.rel, name: a.name }), BinOp::Eq, Box::new(Expr::Col { rel: b.rel, name: b.name }));
        if self.rng.chance(1, 4) {
            self.feat("join-residual");
            let res = self.pred(&both, 1, false);
            on = Expr::Bin(Box::new(on), BinOp::And, Box::new(res));
        }
        on
    }

    fn from_leaf(&mut self, depth: usize) -> (From, GScope) {
        let r = self.rng.below(20);
        if r == 0 && self.cfg.series {
            self.feat("series");
            let alias = self.fresh("g");
            let func = if self.rng.bool() { "generate_series" } else { "range" };
            let start = self.rng.range(-1, 3);
            let stop = start + self.rng.range(-1, 6);
            let step = if self.rng.chance(1, 3) { Some(*self.rng.pick(&[1i64, 2, 3])) } else { None };
            return (From::Series { func, start, stop, step, alias: alias.clone() }, vec![GCol { rel: alias, name: "value".into(), ty: Ty::Int, is_id: true }]);
        }
        if r <= 2 && !self.ctes.is_empty() {
            self.feat("cte-ref");
            let (name, cols) = self.rng.pick(&self.ctes).clone();
            let alias = self.fresh("r");
            let sc = cols.iter().map(|(n, ty)| GCol { rel: alias.clone(), name: n.clone(), ty: *ty, is_id: false }).collect();
            return (From::Table { name, alias }, sc);
        }
        if r <= 5 && depth > 0 {
            self.feat("derived-table");
            let alias = self.fresh("q");
            let saved_outer = std::mem::take(&mut self.outer); // derived tables are not lateral
            let (q, tys) = self.query(depth - 1, None);
            self.outer = saved_outer;
            let names = q.output_names();
            let sc = names.iter().zip(tys.iter()).map(|(n, ty)| GCol { rel: alias.clone(), name: n.clone(), ty: *ty, is_id: false }).collect();
            return (From::Derived { q: Box::new(q), alias }, sc);
        }
        let t = self.rng.usize(self.db.tables.len());
        let tab = &self.db.tables[t];
        let alias = self.fresh("r");
        let sc = tab.cols.iter().map(|(n, ty)| GCol { rel: alias.clone(), name: n.clone(), ty: *ty, is_id: n == "id" }).collect();
        (From::Table { name: tab.name.clone(), alias }, sc)
    }

    fn from(&mut self, depth: usize) -> (From, GScope) {
        let (mut f, mut sc) = self.from_leaf(depth);
        let njoins = match self.rng.below(10) {
            0..=4 => 0,
            5..=8 => 1,
            _ => 2,
        };
        for _ in 0..njoins {
            let (rf, rsc) = self.from_leaf(depth.saturating_sub(1));
            let kinds: &[JoinKind] = if self.cfg.semi_anti_joins {
                &[JoinKind::Inner, JoinKind::Inner, JoinKind::Left, JoinKind::Left, JoinKind::Right, JoinKind::Full, JoinKind::Cross, JoinKind::LeftSemi, JoinKind::LeftAnti, JoinKind::RightSemi, JoinKind::RightAnti]
            } else {
                &[JoinKind::Inner, JoinKind::Inner, JoinKind::Left, JoinKind::Left, JoinKind::Right, JoinKind::Full, JoinKind::Cross]
            };
            let kind = *self.rng.pick(kinds);
            self.feat(match kind {
                JoinKind::Inner => "join-inner",
                JoinKind::Left => "join-left",
                JoinKind::Right => "join-right",
                JoinKind::Full => "join-full",
                JoinKind::Cross => "join-cross",
                JoinKind::LeftSemi => "join-left-semi",
                JoinKind::LeftAnti => "join-left-anti",
                JoinKind::RightSemi => "join-right-semi",
                JoinKind::RightAnti => "join-right-anti",
            });
            let on = if kind == JoinKind::Cross { None } else { Some(self.join_on(&sc, &rsc)) };
            f = From::Join { left: Box::new(f), right: Box::new(rf), kind, on };
            match kind {
                JoinKind::LeftSemi | JoinKind::LeftAnti => {}
                JoinKind::RightSemi | JoinKind::RightAnti => sc = rsc,
                _ => {
                    // ids are unique per side only; after a join they are tie-breakers only jointly
                    sc.extend(rsc);
                    if kind != JoinKind::Inner && kind != JoinKind::Cross {
                        for c in sc.iter_mut() {
                            c.is_id = false;
                        }
                    }
                }
            }
        }
        if njoins > 0 {
            for c in sc.iter_mut() {
                c.is_id = false;
            }
        }
        (f, sc)
    }

    // ---------------------------------------------------------------- windows

    /// `allow_tie_sensitive`: with duplicate input rows two tie-order-sensitive window functions could
    /// legitimately order the duplicates differently, so at most one per SELECT is generated.
    fn window(&mut self, sc: &GScope, allow_tie_sensitive: bool) -> Option<(Expr, Ty, bool)> {
        if sc.len() > 9 || sc.is_empty() {
            return None;
        }
        self.feat("window");
        let total_order = |g: &mut Gen, lead: Vec<OrderItem>| -> Vec<OrderItem> {
            // append every scope column so that only *identical* rows tie
            let mut items = lead;
            for c in sc.iter() {
                let e = Expr::Col { rel: c.rel.clone(), name: c.name.clone() };
                if !items.iter().any(|i| i.expr == e) {
                    items.push(OrderItem { expr: e, desc: g.rng.chance(1, 4), nulls_first: None });
                }
            }
            items
        };
        let partition_by: Vec<Expr> = if self.rng.bool() {
            let c = self.rng.pick(sc).clone();
            vec![Expr::Col { rel: c.rel, name: c.name }]
        } else {
            vec![]
        };
        let oc = self.rng.pick(sc).clone();
        let lead = vec![OrderItem { expr: Expr::Col { rel: oc.rel.clone(), name: oc.name.clone() }, desc: self.rng.chance(1, 3), nulls_first: if self.rng.chance(1, 3) { Some(self.rng.bool()) } else { None } }];
        let mut k = self.rng.below(12);
        if !allow_tie_sensitive && matches!(k, 0 | 3 | 4 | 5 | 6 | 8 | 9) {
            k = *self.rng.pick(&[1u64, 2, 7, 10]);
        }
        let sensitive = matches!(k, 0 | 3 | 4 | 5 | 6 | 8 | 9);
        let num_ty = *self.rng.pick(&[Ty::Int, Ty::Float]);
        let (e, ty) = match k {
            // ranking functions are UInt64 in the engine: cast so that set operations / comparisons with
            // BIGINT do not depend on the engine's unsigned/signed coercion choice (types are C30's business)
            0 => (Expr::Cast(Box::new(Expr::Win { f: WinFn::RowNumber, args: vec![], partition_by, order_by: total_order(self, lead), frame: None }), Ty::Int), Ty::Int),
            1 => (Expr::Cast(Box::new(Expr::Win { f: WinFn::Rank, args: vec![], partition_by, order_by: lead, frame: None }), Ty::Int), Ty::Int),
            2 => (Expr::Cast(Box::new(Expr::Win { f: WinFn::DenseRank, args: vec![], partition_by, order_by: lead, frame: None }), Ty::Int), Ty::Int),
            3 | 4 => {
                let f = if k == 3 { WinFn::Lag } else { WinFn::Lead };
                let ty = *self.rng.pick(&[Ty::Int, Ty::Str]);
                let mut args = vec![self.expr(sc, ty, 1)];
                if self.rng.bool() {
                    args.push(Expr::Lit(Value::Int(self.rng.range(0, 3)), Ty::Int));
                    if self.rng.bool() {
                        args.push(Expr::Lit(if ty == Ty::Int { Value::Int(-7) } else { Value::Str("dflt".into()) }, ty));
                    }
                }
                (Expr::Win { f, args, partition_by, order_by: total_order(self, lead), frame: None }, ty)
            }
            5 | 6 => {
                let f = if k == 5 { WinFn::FirstValue } else { WinFn::LastValue };
                let ty = *self.rng.pick(&[Ty::Int, Ty::Str]);
                let frame = Some(self.frame(FrameUnit::Rows));
                (Expr::Win { f, args: vec![self.expr(sc, ty, 1)], partition_by, order_by: total_order(self, lead), frame }, ty)
            }
            7 => {
                // aggregate over the default RANGE frame (peer-insensitive ⇒ no total order needed)
                let (f, ty) = *self.rng.pick(&[(WinFn::Sum, Ty::Int), (WinFn::Min, Ty::Int), (WinFn::Max, Ty::Int), (WinFn::Count, Ty::Int)]);
                (Expr::Win { f, args: vec![self.expr(sc, Ty::Int, 1)], partition_by, order_by: if self.rng.bool() { lead } else { vec![] }, frame: None }, ty)
            }
            8 | 9 => {
                // ROWS frame aggregates need a total order
                let f = *self.rng.pick(&[WinFn::Sum, WinFn::Min, WinFn::Max, WinFn::Count, WinFn::Avg]);
                let arg_ty = if f == WinFn::Avg { num_ty } else { Ty::Int };
                let ty = if f == WinFn::Avg { Ty::Float } else { Ty::Int };
                let frame = Some(self.frame(FrameUnit::Rows));
                (Expr::Win { f, args: vec![self.expr(sc, arg_ty, 1)], partition_by, order_by: total_order(self, lead), frame }, ty)
            }
            10 => {
                // GROUPS frame: defined on peer groups ⇒ deterministic without total order
                let f = *self.rng.pick(&[WinFn::Sum, WinFn::Count, WinFn::Max]);
                let frame = Some(self.frame(FrameUnit::Groups));
                (Expr::Win { f, args: vec![self.expr(sc, Ty::Int, 1)], partition_by, order_by: lead, frame }, Ty::Int)
            }
            _ => {
                // RANGE with offsets over a unique non-null integer key
                let ids: Vec<GCol> = sc.iter().filter(|c| c.is_id).cloned().collect();
                if ids.is_empty() {
                    return None;
                }
                let idc = self.rng.pick(&ids).clone();
                let order_by = vec![OrderItem { expr: Expr::Col { rel: idc.rel, name: idc.name }, desc: self.rng.chance(1, 3), nulls_first: None }];
                let f = *self.rng.pick(&[WinFn::Sum, WinFn::Count, WinFn::Min]);
                let frame = Some(self.frame(FrameUnit::Range));
                (Expr::Win { f, args: vec![self.expr(sc, Ty::Int, 1)], partition_by, order_by, frame }, Ty::Int)
            }
        };
        Some((e, ty, sensitive))
    }

    fn frame(&mut self, unit: FrameUnit) -> Frame {
        self.feat(match unit {
            FrameUnit::Rows => "frame-rows",
            FrameUnit::Range => "frame-range",
            FrameUnit::Groups => "frame-groups",
        });
        loop {
            let b = |g: &mut Gen| match g.rng.below(5) {
                0 => Bound::UnboundedPreceding,
                1 => Bound::Preceding(1 + g.rng.below(2)),
                2 => Bound::CurrentRow,
                3 => Bound::Following(1 + g.rng.below(2)),
                _ => Bound::UnboundedFollowing,
            };
            let (s, e) = (b(self), b(self));
            let rank = |x: &Bound| match x {
                Bound::UnboundedPreceding => (0, 0i64),
                Bound::Preceding(k) => (1, -(*k as i64)),
                Bound::CurrentRow => (1, 0),
                Bound::Following(k) => (1, *k as i64),
                Bound::UnboundedFollowing => (2, 0),
            };
            if s == Bound::UnboundedFollowing || e == Bound::UnboundedPreceding {
                continue;
            }
            if rank(&s) <= rank(&e) {
                return Frame { unit, start: s, end: e };
            }
        }
    }

    // ---------------------------------------------------------------- SELECT / query

    fn select(&mut self, depth: usize, want: Option<&[Ty]>) -> (Select, Vec<Ty>) {
        let (from, sc) = self.from(depth);
        let where_ = if self.rng.chance(3, 5) { Some(self.pred(&sc, depth.min(2), true)) } else { None };
        let grouped = self.rng.chance(3, 10);
        let n_items = match want {
            Some(w) => w.len(),
            None => 1 + self.rng.usize(4),
        };
        let item_ty = |g: &mut Gen, i: usize| -> Ty {
            match want {
                Some(w) => w[i],
                None => *g.rng.pick(&[Ty::Int, Ty::Int, Ty::Float, Ty::Str, Ty::Bool]),
            }
        };
        if grouped {
            self.feat("group-by");
            let nk = self.rng.usize(3); // 0 keys = global aggregate
            let mut keys: Vec<(Expr, Ty)> = vec![];
            for _ in 0..nk {
                let ty = *self.rng.pick(&[Ty::Int, Ty::Str, Ty::Bool, Ty::Float]);
                let (e, ety) = if self.rng.chance(3, 4) {
                    match self.col(&sc, ty) {
                        Some(c) => (c, ty),
                        None => (self.expr(&sc, Ty::Int, 1), Ty::Int),
                    }
                } else {
                    (self.expr(&sc, ty, 1), ty)
                };
                if !keys.iter().any(|(k, _)| *k == e) && !matches!(e, Expr::Lit(..)) {
                    keys.push((e, ety));
                }
            }
            if nk == 0 {
                self.feat("global-aggregate");
            }
            let mut grouping = Grouping::Plain;
            let mut sets = vec![];
            if self.cfg.grouping_sets && !keys.is_empty() && self.rng.chance(1, 6) {
                match self.rng.below(3) {
                    0 => {
                        grouping = Grouping::Rollup;
                        self.feat("rollup");
                    }
                    1 => {
                        grouping = Grouping::Cube;
                        self.feat("cube");
                    }
                    _ => {
                        grouping = Grouping::Sets;
                        self.feat("grouping-sets");
                        let full = (1u32 << keys.len()) - 1;
                        let n = 1 + self.rng.usize(3);
                        for _ in 0..n {
                            let m = self.rng.below(full as u64 + 1) as u32;
                            if !sets.contains(&m) {
                                sets.push(m);
                            }
                        }
                        // every key must appear in some set (else it is not a grouping column at all)
                        let covered = sets.iter().fold(0u32, |a, m| a | m);
                        if covered != full {
                            sets.push(full & !covered | (covered & self.rng.below(full as u64 + 1) as u32));
                            sets.dedup();
                        }
                    }
                }
            }
            let mut items = vec![];
            let mut tys = vec![];
            for i in 0..n_items {
                let ty = item_ty(self, i);
                let key_of_ty: Vec<Expr> = keys.iter().filter(|(_, t)| *t == ty).map(|(e, _)| e.clone()).collect();
                let e = if !key_of_ty.is_empty() && self.rng.chance(1, 2) { self.rng.pick(&key_of_ty).clone() } else { self.agg_of(&sc, ty) };
                items.push((e, self.fresh("c")));
                tys.push(ty);
            }
            let having = if self.rng.chance(1, 3) {
                self.feat("having");
                let a = self.agg_of(&sc, Ty::Int);
                let op = *self.rng.pick(&[BinOp::Gt, BinOp::Le, BinOp::Eq, BinOp::Ne]);
                Some(Expr::Bin(Box::new(a), op, Box::new(Expr::Lit(Value::Int(self.rng.range(0, 4)), Ty::Int))))
            } else {
                None
            };
            let distinct = self.rng.chance(1, 10);
            return (Select { distinct, items, from: Some(from), where_, group_by: keys.into_iter().map(|k| k.0).collect(), grouping, sets, having }, tys);
        }
        let mut items = vec![];
        let mut tys = vec![];
        let mut tie_sensitive_used = false;
        for i in 0..n_items {
            let ty = item_ty(self, i);
            let mut e = None;
            if self.cfg.windows && self.outer.is_empty() && self.rng.chance(1, 8) {
                if let Some((w, wty, sensitive)) = self.window(&sc, !tie_sensitive_used) {
                    if wty == ty || want.is_none() {
                        tys.push(wty);
                        e = Some(w);
                        tie_sensitive_used |= sensitive;
                    }
                }
            }
            let e = match e {
                Some(e) => e,
                None => {
                    tys.push(ty);
                    if self.cfg.subqueries && ty != Ty::Bool && ty != Ty::Str && self.rng.chance(1, 20) {
                        self.feat("scalar-subquery-select-list");
                        Expr::Scalar(Box::new(self.sub_select(&sc, &[ty], 0, true)))
                    } else {
                        self.expr(&sc, ty, depth.min(2))
                    }
                }
            };
            items.push((e, self.fresh("c")));
        }
        let distinct = self.rng.chance(1, 7);
        if distinct {
            self.feat("distinct");
        }
        (Select { distinct, items, from: Some(from), where_, group_by: vec![], grouping: Grouping::Plain, sets: vec![], having: None }, tys)
    }

    fn set_expr(&mut self, depth: usize, want: Option<&[Ty]>) -> (SetExpr, Vec<Ty>) {
        if self.cfg.setops && depth > 0 && self.rng.chance(1, 6) {
            let (l, tys) = self.set_expr(depth - 1, want);
            let (r, _) = self.set_expr(depth - 1, Some(&tys));
            let op = *self.rng.pick(&[SetOp::Union, SetOp::Union, SetOp::Intersect, SetOp::Except]);
            let all = self.rng.bool();
            self.feat(match (op, all) {
                (SetOp::Union, true) => "union-all",
                (SetOp::Union, false) => "union",
                (SetOp::Intersect, true) => "intersect-all",
                (SetOp::Intersect, false) => "intersect",
                (SetOp::Except, true) => "except-all",
                (SetOp::Except, false) => "except",
            });
            return (SetExpr::SetOp { op, all, left: Box::new(l), right: Box::new(r) }, tys);
        }
        let (s, tys) = self.select(depth, want);
        (SetExpr::Select(Box::new(s)), tys)
    }

    fn cte(&mut self, depth: usize) -> Cte {
        let name = self.fresh("w");
        if self.rng.chance(1, 2) {
            self.feat("recursive-cte");
            let k = self.rng.range(1, 6);
            let a = self.fresh("x");
            let n = Expr::Col { rel: a.clone(), name: "n".into() };
            let variant = self.rng.below(3);
            let (all, step, cond, cols, anchor_items): (bool, Vec<(Expr, String)>, Expr, Vec<String>, Vec<(Expr, String)>) = match variant {
                0 => (
                    true,
                    vec![(Expr::Bin(Box::new(n.clone()), BinOp::Add, Box::new(Expr::Lit(Value::Int(1), Ty::Int))), "n".into())],
                    Expr::Bin(Box::new(n.clone()), BinOp::Lt, Box::new(Expr::Lit(Value::Int(k), Ty::Int))),
                    vec!["n".into()],
                    vec![(Expr::Lit(Value::Int(self.rng.range(0, 2)), Ty::Int), "n".into())],
                ),
                1 => (
                    false,
                    vec![(Expr::Bin(Box::new(Expr::Bin(Box::new(n.clone()), BinOp::Add, Box::new(Expr::Lit(Value::Int(1), Ty::Int)))), BinOp::Mod, Box::new(Expr::Lit(Value::Int(k + 1), Ty::Int))), "n".into())],
                    Expr::Lit(Value::Bool(true), Ty::Bool),
                    vec!["n".into()],
                    vec![(Expr::Lit(Value::Int(0), Ty::Int), "n".into())],
                ),
                _ => (
                    true,
                    vec![
                        (Expr::Bin(Box::new(n.clone()), BinOp::Add, Box::new(Expr::Lit(Value::Int(1), Ty::Int))), "n".into()),
                        (Expr::Bin(Box::new(Expr::Col { rel: a.clone(), name: "m".into() }), BinOp::Mul, Box::new(Expr::Lit(Value::Int(2), Ty::Int))), "m".into()),
                    ],
                    Expr::Bin(Box::new(n.clone()), BinOp::Lt, Box::new(Expr::Lit(Value::Int(k), Ty::Int))),
                    vec!["n".into(), "m".into()],
                    vec![(Expr::Lit(Value::Int(1), Ty::Int), "n".into()), (Expr::Lit(Value::Int(1), Ty::Int), "m".into())],
                ),
            };
            let anchor = Select { distinct: false, items: anchor_items, from: None, where_: None, group_by: vec![], grouping: Grouping::Plain, sets: vec![], having: None };
            let rec = Select { distinct: false, items: step, from: Some(From::Table { name: name.clone(), alias: a }), where_: Some(cond), group_by: vec![], grouping: Grouping::Plain, sets: vec![], having: None };
            let body = SetExpr::SetOp { op: SetOp::Union, all, left: Box::new(SetExpr::Select(Box::new(anchor))), right: Box::new(SetExpr::Select(Box::new(rec))) };
            let q = Query { ctes: vec![], body, order_by: vec![], limit: None, offset: None };
            let tys = vec![Ty::Int; cols.len()];
            self.ctes.push((name.clone(), cols.iter().cloned().zip(tys).collect()));
            Cte { name, cols, recursive: true, q: Box::new(q) }
        } else {
            self.feat("cte");
            let saved = std::mem::take(&mut self.outer);
            let (q, tys) = self.query(depth.saturating_sub(1), None);
            self.outer = saved;
            let cols: Vec<String> = (0..tys.len()).map(|i| format!("k{i}")).collect();
            self.ctes.push((name.clone(), cols.iter().cloned().zip(tys).collect()));
            Cte { name, cols, recursive: false, q: Box::new(q) }
        }
    }

    pub fn query(&mut self, depth: usize, want: Option<&[Ty]>) -> (Query, Vec<Ty>) {
        let n_ctes_before = self.ctes.len();
        let mut ctes = vec![];
        if self.cfg.ctes && self.outer.is_empty() && self.rng.chance(1, 8) {
            ctes.push(self.cte(depth));
        }
        let (body, tys) = self.set_expr(depth, want);
        let mut q = Query { ctes, body, order_by: vec![], limit: None, offset: None };
        let names = q.output_names();
        match self.rng.below(10) {
            0..=2 => {
                // total order over all output columns ⇒ the sequence is fully determined
                self.feat("order-by-total");
                let mut idx: Vec<usize> = (0..names.len()).collect();
                self.rng.shuffle(&mut idx);
                q.order_by = idx
                    .into_iter()
                    .map(|i| OrderItem { expr: Expr::OutCol(names[i].clone()), desc: self.rng.chance(1, 3), nulls_first: if self.rng.chance(1, 3) { Some(self.rng.bool()) } else { None } })
                    .collect();
                if self.cfg.limit && self.rng.chance(1, 2) {
                    self.feat("limit");
                    q.limit = Some(self.rng.below(6));
                    if self.rng.chance(1, 2) {
                        self.feat("offset");
                        q.offset = Some(self.rng.below(4));
                    }
                }
            }
            3 => {
                self.feat("order-by-partial");
                let i = self.rng.usize(names.len());
                q.order_by = vec![OrderItem { expr: Expr::OutCol(names[i].clone()), desc: self.rng.bool(), nulls_first: if self.rng.chance(1, 3) { Some(self.rng.bool()) } else { None } }];
            }
            _ => {}
        }
        self.ctes.truncate(n_ctes_before);
        (q, tys)
    }
}

/// top-level entry: one query over `db`
pub fn gen_query(rng: &mut Rng, db: &Db, cfg: &GenCfg) -> (Query, Vec<Ty>, BTreeSet<&'static str>) {
    let mut g = Gen::new(rng, db, cfg.clone());
    let (q, tys) = g.query(cfg.max_depth, None);
    (q, tys, g.features)
}
