//! Our own query AST (not sqlparser's) + SQL text renderer.

use crate::value::{Ty, Value};

#[derive(Clone, Copy, Debug, PartialEq, Eq, Hash)]
pub enum BinOp {
    Add,
    Sub,
    Mul,
    Div,
    Mod,
    Eq,
    Ne,
    Lt,
    Le,
    Gt,
    Ge,
    And,
    Or,
    IsDistinct,
    IsNotDistinct,
    Concat,
}

impl BinOp {
    pub fn sql(&self) -> &'static str {
        match self {
            BinOp::Add => "+",
            BinOp::Sub => "-",
            BinOp::Mul => "*",
            BinOp::Div => "/",
            BinOp::Mod => "%",
            BinOp::Eq => "=",
            BinOp::Ne => "<>",
            BinOp::Lt => "<",
            BinOp::Le => "<=",
            BinOp::Gt => ">",
            BinOp::Ge => ">=",
            BinOp::And => "AND",
            BinOp::Or => "OR",
            BinOp::IsDistinct => "IS DISTINCT FROM",
            BinOp::IsNotDistinct => "IS NOT DISTINCT FROM",
            BinOp::Concat => "||",
        }
    }
    pub fn is_cmp(&self) -> bool {
        matches!(self, BinOp::Eq | BinOp::Ne | BinOp::Lt | BinOp::Le | BinOp::Gt | BinOp::Ge)
    }
}

#[derive(Clone, Copy, Debug, PartialEq, Eq, Hash)]
pub enum AggFn {
    CountStar,
    Count,
    Sum,
    Min,
    Max,
    Avg,
}

#[derive(Clone, Copy, Debug, PartialEq, Eq, Hash)]
pub enum WinFn {
    RowNumber,
    Rank,
    DenseRank,
    Lag,
    Lead,
    FirstValue,
    LastValue,
    Sum,
    Count,
    Min,
    Max,
    Avg,
}

#[derive(Clone, Copy, Debug, PartialEq, Eq, Hash)]
pub enum FrameUnit {
    Rows,
    Range,
    Groups,
}

#[derive(Clone, Copy, Debug, PartialEq, Eq, Hash)]
pub enum Bound {
    UnboundedPreceding,
    Preceding(u64),
    CurrentRow,
    Following(u64),
    UnboundedFollowing,
}

#[derive(Clone, Debug, PartialEq)]
pub struct Frame {
    pub unit: FrameUnit,
    pub start: Bound,
    pub end: Bound,
}

#[derive(Clone, Debug, PartialEq)]
pub struct OrderItem {
    pub expr: Expr,
    pub desc: bool,
    /// None = engine default (ASC → NULLS LAST, DESC → NULLS FIRST)
    pub nulls_first: Option<bool>,
}

impl OrderItem {
    pub fn nulls_first_eff(&self) -> bool {
        self.nulls_first.unwrap_or(self.desc)
    }
}

#[derive(Clone, Debug, PartialEq)]
pub enum Expr {
    Col { rel: String, name: String },
    /// reference to an output column of the enclosing query by name (ORDER BY of set operations)
    OutCol(String),
    Lit(Value, Ty),
    Param(usize, Ty),
    Bin(Box<Expr>, BinOp, Box<Expr>),
    Not(Box<Expr>),
    Neg(Box<Expr>),
    IsNull(Box<Expr>, bool),
    InList { e: Box<Expr>, list: Vec<Expr>, negated: bool },
    Between { e: Box<Expr>, lo: Box<Expr>, hi: Box<Expr>, negated: bool },
    Like { e: Box<Expr>, pat: Box<Expr>, negated: bool, ci: bool },
    Case { operand: Option<Box<Expr>>, whens: Vec<(Expr, Expr)>, else_: Option<Box<Expr>> },
    Coalesce(Vec<Expr>),
    NullIf(Box<Expr>, Box<Expr>),
    Cast(Box<Expr>, Ty),
    Func(&'static str, Vec<Expr>),
    Exists { q: Box<Query>, negated: bool },
    InSubquery { e: Box<Expr>, q: Box<Query>, negated: bool },
    Scalar(Box<Query>),
    Quantified { e: Box<Expr>, op: BinOp, all: bool, q: Box<Query> },
    Agg { f: AggFn, arg: Option<Box<Expr>>, distinct: bool, filter: Option<Box<Expr>> },
    Win { f: WinFn, args: Vec<Expr>, partition_by: Vec<Expr>, order_by: Vec<OrderItem>, frame: Option<Frame> },
}

#[derive(Clone, Copy, Debug, PartialEq, Eq, Hash)]
pub enum JoinKind {
    Inner,
    Left,
    Right,
    Full,
    Cross,
    LeftSemi,
    LeftAnti,
    RightSemi,
    RightAnti,
}

impl JoinKind {
    pub fn sql(&self) -> &'static str {
        match self {
            JoinKind::Inner => "INNER JOIN",
            JoinKind::Left => "LEFT JOIN",
            JoinKind::Right => "RIGHT JOIN",
            JoinKind::Full => "FULL JOIN",
            JoinKind::Cross => "CROSS JOIN",
            JoinKind::LeftSemi => "LEFT SEMI JOIN",
            JoinKind::LeftAnti => "LEFT ANTI JOIN",
            JoinKind::RightSemi => "RIGHT SEMI JOIN",
            JoinKind::RightAnti => "RIGHT ANTI JOIN",
        }
    }
}

#[derive(Clone, Debug, PartialEq)]
pub enum From {
    Table { name: String, alias: String },
    Derived { q: Box<Query>, alias: String },
    Join { left: Box<From>, right: Box<From>, kind: JoinKind, on: Option<Expr> },
    /// generate_series / range table function; output column `value`
    Series { func: &'static str, start: i64, stop: i64, step: Option<i64>, alias: String },
}

#[derive(Clone, Copy, Debug, PartialEq, Eq, Hash)]
pub enum Grouping {
    Plain,
    Rollup,
    Cube,
    /// GROUPING SETS given by index masks into group_by (bit i set = key i present)
    Sets,
}

#[derive(Clone, Debug, PartialEq)]
pub struct Select {
    pub distinct: bool,
    pub items: Vec<(Expr, String)>,
    pub from: Option<From>,
    pub where_: Option<Expr>,
    pub group_by: Vec<Expr>,
    pub grouping: Grouping,
    pub sets: Vec<u32>,
    pub having: Option<Expr>,
}

#[derive(Clone, Copy, Debug, PartialEq, Eq, Hash)]
pub enum SetOp {
    Union,
    Intersect,
    Except,
}

#[derive(Clone, Debug, PartialEq)]
pub enum SetExpr {
    Select(Box<Select>),
    SetOp { op: SetOp, all: bool, left: Box<SetExpr>, right: Box<SetExpr> },
}

#[derive(Clone, Debug, PartialEq)]
pub struct Cte {
    pub name: String,
    pub cols: Vec<String>,
    pub recursive: bool,
    pub q: Box<Query>,
}

#[derive(Clone, Debug, PartialEq)]
pub struct Query {
    pub ctes: Vec<Cte>,
    pub body: SetExpr,
    pub order_by: Vec<OrderItem>,
    pub limit: Option<u64>,
    pub offset: Option<u64>,
}

impl Query {
    pub fn simple(sel: Select) -> Query {
        Query { ctes: vec![], body: SetExpr::Select(Box::new(sel)), order_by: vec![], limit: None, offset: None }
    }
    pub fn output_names(&self) -> Vec<String> {
        fn left_most(s: &SetExpr) -> &Select {
            match s {
                SetExpr::Select(s) => s,
                SetExpr::SetOp { left, .. } => left_most(left),
            }
        }
        left_most(&self.body).items.iter().map(|(_, a)| a.clone()).collect()
    }
}

// ------------------------------------------------------------------------------------------
// SQL rendering
// ------------------------------------------------------------------------------------------

pub fn quote_str(s: &str) -> String {
    format!("'{}'", s.replace('\'', "''"))
}

pub fn lit_sql(v: &Value, ty: Ty) -> String {
    match v {
        Value::Null => format!("CAST(NULL AS {})", ty.sql()),
        Value::Int(i) => {
            if *i < 0 {
                format!("({i})")
            } else {
                i.to_string()
            }
        }
        Value::Float(f) => {
            if f.is_nan() {
                "CAST('NaN' AS DOUBLE)".into()
            } else if f.is_infinite() {
                if *f > 0.0 { "CAST('inf' AS DOUBLE)".into() } else { "CAST('-inf' AS DOUBLE)".into() }
            } else {
                // always as a DOUBLE-typed literal
                format!("CAST({f:?} AS DOUBLE)")
            }
        }
        Value::Str(s) => quote_str(s),
        Value::Bool(b) => if *b { "TRUE".into() } else { "FALSE".into() },
    }
}

pub struct Renderer {
    /// render `Param(i)` as `$i+1` (true) or never expected (false)
    pub params: bool,
}

impl Default for Renderer {
    fn default() -> Self {
        Renderer { params: true }
    }
}

impl Renderer {
    pub fn expr(&self, e: &Expr) -> String {
        match e {
            Expr::Col { rel, name } => format!("{rel}.{name}"),
            Expr::OutCol(n) => n.clone(),
            Expr::Lit(v, ty) => lit_sql(v, *ty),
            Expr::Param(i, _) => format!("${}", i + 1),
            Expr::Bin(a, op, b) => format!("({} {} {})", self.expr(a), op.sql(), self.expr(b)),
            Expr::Not(a) => format!("(NOT {})", self.expr(a)),
            Expr::Neg(a) => format!("(- {})", self.expr(a)),
            Expr::IsNull(a, neg) => format!("({} IS {}NULL)", self.expr(a), if *neg { "NOT " } else { "" }),
            Expr::InList { e, list, negated } => format!(
                "({} {}IN ({}))",
                self.expr(e),
                if *negated { "NOT " } else { "" },
                list.iter().map(|x| self.expr(x)).collect::<Vec<_>>().join(", ")
            ),
            Expr::Between { e, lo, hi, negated } => {
                format!("({} {}BETWEEN {} AND {})", self.expr(e), if *negated { "NOT " } else { "" }, self.expr(lo), self.expr(hi))
            }
            Expr::Like { e, pat, negated, ci } => {
                format!("({} {}{} {})", self.expr(e), if *negated { "NOT " } else { "" }, if *ci { "ILIKE" } else { "LIKE" }, self.expr(pat))
            }
            Expr::Case { operand, whens, else_ } => {
                let mut s = String::from("CASE");
                if let Some(o) = operand {
                    s += &format!(" {}", self.expr(o));
                }
                for (w, t) in whens {
                    s += &format!(" WHEN {} THEN {}", self.expr(w), self.expr(t));
                }
                if let Some(e) = else_ {
                    s += &format!(" ELSE {}", self.expr(e));
                }
                s + " END"
            }
            Expr::Coalesce(xs) => format!("coalesce({})", xs.iter().map(|x| self.expr(x)).collect::<Vec<_>>().join(", ")),
            Expr::NullIf(a, b) => format!("nullif({}, {})", self.expr(a), self.expr(b)),
            Expr::Cast(a, ty) => format!("CAST({} AS {})", self.expr(a), ty.sql()),
            Expr::Func(name, args) => format!("{name}({})", args.iter().map(|x| self.expr(x)).collect::<Vec<_>>().join(", ")),
            Expr::Exists { q, negated } => format!("({}EXISTS ({}))", if *negated { "NOT " } else { "" }, self.query(q)),
            Expr::InSubquery { e, q, negated } => format!("({} {}IN ({}))", self.expr(e), if *negated { "NOT " } else { "" }, self.query(q)),
            Expr::Scalar(q) => format!("({})", self.query(q)),
            Expr::Quantified { e, op, all, q } => format!("({} {} {} ({}))", self.expr(e), op.sql(), if *all { "ALL" } else { "ANY" }, self.query(q)),
            Expr::Agg { f, arg, distinct, filter } => {
                let d = if *distinct { "DISTINCT " } else { "" };
                let mut s = match f {
                    AggFn::CountStar => "count(*)".to_string(),
                    AggFn::Count => format!("count({d}{})", self.expr(arg.as_ref().unwrap())),
                    AggFn::Sum => format!("sum({d}{})", self.expr(arg.as_ref().unwrap())),
                    AggFn::Min => format!("min({d}{})", self.expr(arg.as_ref().unwrap())),
                    AggFn::Max => format!("max({d}{})", self.expr(arg.as_ref().unwrap())),
                    AggFn::Avg => format!("avg({d}{})", self.expr(arg.as_ref().unwrap())),
                };
                if let Some(f) = filter {
                    s += &format!(" FILTER (WHERE {})", self.expr(f));
                }
                s
            }
            Expr::Win { f, args, partition_by, order_by, frame } => {
                let name = match f {
                    WinFn::RowNumber => "row_number",
                    WinFn::Rank => "rank",
                    WinFn::DenseRank => "dense_rank",
                    WinFn::Lag => "lag",
                    WinFn::Lead => "lead",
                    WinFn::FirstValue => "first_value",
                    WinFn::LastValue => "last_value",
                    WinFn::Sum => "sum",
                    WinFn::Count => "count",
                    WinFn::Min => "min",
                    WinFn::Max => "max",
                    WinFn::Avg => "avg",
                };
                let mut over = vec![];
                if !partition_by.is_empty() {
                    over.push(format!("PARTITION BY {}", partition_by.iter().map(|x| self.expr(x)).collect::<Vec<_>>().join(", ")));
                }
                if !order_by.is_empty() {
                    over.push(format!("ORDER BY {}", self.order_items(order_by)));
                }
                if let Some(fr) = frame {
                    over.push(self.frame(fr));
                }
                format!("{name}({}) OVER ({})", args.iter().map(|x| self.expr(x)).collect::<Vec<_>>().join(", "), over.join(" "))
            }
        }
    }

    pub fn frame(&self, fr: &Frame) -> String {
        let unit = match fr.unit {
            FrameUnit::Rows => "ROWS",
            FrameUnit::Range => "RANGE",
            FrameUnit::Groups => "GROUPS",
        };
        let b = |b: &Bound| match b {
            Bound::UnboundedPreceding => "UNBOUNDED PRECEDING".to_string(),
            Bound::Preceding(k) => format!("{k} PRECEDING"),
            Bound::CurrentRow => "CURRENT ROW".to_string(),
            Bound::Following(k) => format!("{k} FOLLOWING"),
            Bound::UnboundedFollowing => "UNBOUNDED FOLLOWING".to_string(),
        };
        format!("{unit} BETWEEN {} AND {}", b(&fr.start), b(&fr.end))
    }

    pub fn order_items(&self, items: &[OrderItem]) -> String {
        items
            .iter()
            .map(|o| {
                let mut s = self.expr(&o.expr);
                s += if o.desc { " DESC" } else { " ASC" };
                match o.nulls_first {
                    Some(true) => s += " NULLS FIRST",
                    Some(false) => s += " NULLS LAST",
                    None => {}
                }
                s
            })
            .collect::<Vec<_>>()
            .join(", ")
    }

    pub fn from(&self, f: &From) -> String {
        match f {
            From::Table { name, alias } => format!("{name} AS {alias}"),
            From::Derived { q, alias } => format!("({}) AS {alias}", self.query(q)),
            From::Join { left, right, kind, on } => {
                let r = match **right {
                    From::Join { .. } => format!("({})", self.from(right)),
                    _ => self.from(right),
                };
                match on {
                    Some(e) => format!("{} {} {} ON {}", self.from(left), kind.sql(), r, self.expr(e)),
                    None => format!("{} {} {}", self.from(left), kind.sql(), r),
                }
            }
            From::Series { func, start, stop, step, alias } => match step {
                Some(s) => format!("{func}({start}, {stop}, {s}) AS {alias}"),
                None => format!("{func}({start}, {stop}) AS {alias}"),
            },
        }
    }

    pub fn select(&self, s: &Select) -> String {
        let mut out = String::from("SELECT ");
        if s.distinct {
            out += "DISTINCT ";
        }
        out += &s.items.iter().map(|(e, a)| format!("{} AS {a}", self.expr(e))).collect::<Vec<_>>().join(", ");
        if let Some(f) = &s.from {
            out += &format!(" FROM {}", self.from(f));
        }
        if let Some(w) = &s.where_ {
            out += &format!(" WHERE {}", self.expr(w));
        }
        if !s.group_by.is_empty() || s.grouping == Grouping::Sets {
            let keys: Vec<String> = s.group_by.iter().map(|x| self.expr(x)).collect();
            out += " GROUP BY ";
            out += &match s.grouping {
                Grouping::Plain => keys.join(", "),
                Grouping::Rollup => format!("ROLLUP({})", keys.join(", ")),
                Grouping::Cube => format!("CUBE({})", keys.join(", ")),
                Grouping::Sets => format!(
                    "GROUPING SETS ({})",
                    s.sets
                        .iter()
                        .map(|m| format!("({})", keys.iter().enumerate().filter(|(i, _)| m & (1 << i) != 0).map(|(_, k)| k.clone()).collect::<Vec<_>>().join(", ")))
                        .collect::<Vec<_>>()
                        .join(", ")
                ),
            };
        }
        if let Some(h) = &s.having {
            out += &format!(" HAVING {}", self.expr(h));
        }
        out
    }

    pub fn set_expr(&self, s: &SetExpr) -> String {
        match s {
            SetExpr::Select(s) => self.select(s),
            SetExpr::SetOp { op, all, left, right } => {
                let o = match op {
                    SetOp::Union => "UNION",
                    SetOp::Intersect => "INTERSECT",
                    SetOp::Except => "EXCEPT",
                };
                format!("({}) {o}{} ({})", self.set_expr(left), if *all { " ALL" } else { "" }, self.set_expr(right))
            }
        }
    }

    pub fn query(&self, q: &Query) -> String {
        let mut out = String::new();
        if !q.ctes.is_empty() {
            out += "WITH ";
            if q.ctes.iter().any(|c| c.recursive) {
                out += "RECURSIVE ";
            }
            out += &q
                .ctes
                .iter()
                .map(|c| format!("{}({}) AS ({})", c.name, c.cols.join(", "), self.query(&c.q)))
                .collect::<Vec<_>>()
                .join(", ");
            out += " ";
        }
        out += &self.set_expr(&q.body);
        if !q.order_by.is_empty() {
            out += &format!(" ORDER BY {}", self.order_items(&q.order_by));
        }
        if let Some(l) = q.limit {
            out += &format!(" LIMIT {l}");
        }
        if let Some(o) = q.offset {
            out += &format!(" OFFSET {o}");
        }
        out
    }
}

pub fn to_sql(q: &Query) -> String {
    Renderer::default().query(q)
}
