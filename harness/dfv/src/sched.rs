//! `sched` — schedules, faults, drop points and resource observers (DESIGN §3.5).
//!
//! * [`ChaosSourceExec`] / [`ChaosTable`]: a leaf plan / table provider that serves pre-generated (or
//!   endless, generated) partitions and consults a scripted + seeded decision at every `poll_next`.
//! * [`fail_udf`]: scalar UDF `fail_at(x)` that fails on a marker value / at the k-th row.
//! * [`CountingPool`]: `MemoryPool` wrapper failing exactly the j-th `try_grow`, recording the peak.
//! * [`Env`]: runtime environment with that pool, a private spill directory and an optional disk quota.
//! * [`run_vtq`] / [`run_mt`]: virtual-time quiescence runner and a multi-thread runner.
//! * [`Observers`]: pool / disk / spill-dir / alive-task / live-stream observers and the settle loop.

use arrow::array::{Array, ArrayRef, Int64Array, StringArray};
use arrow::compute::SortOptions;
use arrow::datatypes::{DataType, Field, Schema, SchemaRef};
use arrow::record_batch::RecordBatch;
use async_trait::async_trait;
use datafusion::catalog::{Session, TableProvider};
use datafusion::common::tree_node::TreeNodeRecursion;
use datafusion::error::{DataFusionError, Result};
use datafusion::execution::disk_manager::{DiskManager, DiskManagerBuilder, DiskManagerMode};
use datafusion::execution::memory_pool::{
    FairSpillPool, GreedyMemoryPool, MemoryConsumer, MemoryLimit, MemoryPool, MemoryReservation, UnboundedMemoryPool,
};
use datafusion::execution::runtime_env::{RuntimeEnv, RuntimeEnvBuilder};
use datafusion::execution::{RecordBatchStream, SendableRecordBatchStream, TaskContext};
use datafusion::logical_expr::{
    ColumnarValue, Expr, ScalarFunctionArgs, ScalarUDF, ScalarUDFImpl, Signature, TableType, Volatility,
};
use datafusion::physical_expr::expressions::Column;
use datafusion::physical_expr::{EquivalenceProperties, LexOrdering, PhysicalExpr, PhysicalSortExpr};
use datafusion::physical_plan::execution_plan::{Boundedness, EmissionType};
use datafusion::physical_plan::{DisplayAs, DisplayFormatType, ExecutionPlan, Partitioning, PlanProperties, ReplaceChildrenOptions};
use futures::Stream;
use std::fmt;
use std::future::Future;
use std::path::{Path, PathBuf};
use std::pin::Pin;
use std::sync::atomic::{AtomicBool, AtomicI64, AtomicU64, Ordering};
use std::sync::{Arc, Mutex};
use std::task::{Context, Poll};
use std::time::Duration;
use vcommon::Rng;

/// Every injected failure carries this marker plus a per-case tag in its message.
pub const TAG_PREFIX: &str = "VERIF-INJECTED";

pub fn make_tag(kind: &str, n: u64) -> String {
    format!("{TAG_PREFIX}[{kind}#{n}]")
}

// ------------------------------------------------------------------------------------------
// shared, observable state of one chaos source (all partitions / all executions of one table)

#[derive(Debug)]
pub struct ChaosState {
    pub tag: String,
    live: AtomicI64,
    opened: AtomicU64,
    served: AtomicU64,
    served_after_deadline: AtomicU64,
    fault_fired: AtomicBool,
    /// virtual (tokio) instant after which served batches are counted separately
    deadline: Mutex<Option<tokio::time::Instant>>,
    /// hard cap on served batches for endless sources: reaching it ends the stream and sets `cap_hit`
    cap: AtomicU64,
    cap_hit: AtomicBool,
    /// wall-clock guard: after this instant the source fails with a harness error and sets `wall_hit`
    wall: Mutex<Option<std::time::Instant>>,
    wall_hit: AtomicBool,
    per_part: Mutex<Vec<u64>>,
}

impl ChaosState {
    pub fn new(tag: &str) -> Arc<ChaosState> {
        Arc::new(ChaosState {
            tag: tag.to_string(),
            live: AtomicI64::new(0),
            opened: AtomicU64::new(0),
            served: AtomicU64::new(0),
            served_after_deadline: AtomicU64::new(0),
            fault_fired: AtomicBool::new(false),
            deadline: Mutex::new(None),
            cap: AtomicU64::new(u64::MAX),
            cap_hit: AtomicBool::new(false),
            wall: Mutex::new(None),
            wall_hit: AtomicBool::new(false),
            per_part: Mutex::new(vec![]),
        })
    }
    /// streams created and not yet dropped
    pub fn live_streams(&self) -> i64 {
        self.live.load(Ordering::SeqCst)
    }
    pub fn opened(&self) -> u64 {
        self.opened.load(Ordering::SeqCst)
    }
    pub fn served(&self) -> u64 {
        self.served.load(Ordering::SeqCst)
    }
    pub fn served_of(&self, partition: usize) -> u64 {
        self.per_part.lock().unwrap().get(partition).copied().unwrap_or(0)
    }
    pub fn served_after_deadline(&self) -> u64 {
        self.served_after_deadline.load(Ordering::SeqCst)
    }
    pub fn fault_fired(&self) -> bool {
        self.fault_fired.load(Ordering::SeqCst)
    }
    pub fn set_deadline(&self, at: tokio::time::Instant) {
        *self.deadline.lock().unwrap() = Some(at);
    }
    pub fn set_cap(&self, batches: u64) {
        self.cap.store(batches, Ordering::SeqCst);
    }
    pub fn cap_hit(&self) -> bool {
        self.cap_hit.load(Ordering::SeqCst)
    }
    pub fn set_wall_guard(&self, d: Duration) {
        *self.wall.lock().unwrap() = Some(std::time::Instant::now() + d);
    }
    pub fn wall_hit(&self) -> bool {
        self.wall_hit.load(Ordering::SeqCst)
    }
    fn note_served(&self, partition: usize) {
        self.served.fetch_add(1, Ordering::SeqCst);
        {
            let mut g = self.per_part.lock().unwrap();
            if g.len() <= partition {
                g.resize(partition + 1, 0);
            }
            g[partition] += 1;
        }
        if let Some(d) = *self.deadline.lock().unwrap() {
            if tokio::time::Instant::now() >= d {
                self.served_after_deadline.fetch_add(1, Ordering::SeqCst);
            }
        }
    }
}

struct LiveToken(Arc<ChaosState>);
impl LiveToken {
    fn new(s: &Arc<ChaosState>) -> LiveToken {
        s.live.fetch_add(1, Ordering::SeqCst);
        s.opened.fetch_add(1, Ordering::SeqCst);
        LiveToken(s.clone())
    }
}
impl Drop for LiveToken {
    fn drop(&mut self) {
        self.0.live.fetch_sub(1, Ordering::SeqCst);
    }
}

// ------------------------------------------------------------------------------------------
// decisions

#[derive(Clone, Copy, Debug, PartialEq, Eq)]
pub enum FaultKind {
    /// `Some(Err(tagged))`, afterwards `None`
    Error,
    /// `panic!(tagged)`
    Panic,
    /// premature `None` (used by self tests of the oracles only)
    End,
}

/// Scripted fault: instead of serving batch `at_batch` (0-based; `== len` means "instead of EOS") of `partition`.
#[derive(Clone, Copy, Debug)]
pub struct SourceFault {
    pub partition: usize,
    pub at_batch: u64,
    pub kind: FaultKind,
}

/// Seeded scheduling noise: before serving a batch (and before EOS) the stream may yield
/// (`wake_by_ref` + `Pending`) or sleep `1..=max_sleep_ms` virtual milliseconds.
#[derive(Clone, Copy, Debug, Default)]
pub struct Noise {
    pub seed: u64,
    pub yield_pct: u32,
    pub sleep_pct: u32,
    pub max_sleep_ms: u64,
    /// length of one sleep unit in microseconds (0 = 1000, i.e. milliseconds); real-time runtimes use short units
    pub unit_us: u64,
}

impl Noise {
    pub fn none() -> Noise {
        Noise::default()
    }
    /// same decisions, but a sleep unit is 20 µs (for real-time runtimes)
    pub fn seeded_real(seed: u64) -> Noise {
        Noise { unit_us: 20, ..Noise::seeded(seed) }
    }
    pub fn seeded(seed: u64) -> Noise {
        Noise { seed, yield_pct: 20, sleep_pct: 15, max_sleep_ms: 5, unit_us: 0 }
    }
}

#[derive(Clone)]
pub enum ChaosData {
    /// partitions -> batches
    Fixed(Arc<Vec<Vec<RecordBatch>>>),
    /// (partition, batch index) -> batch; never ends (except by the state's cap)
    Endless { partitions: usize, generate: Arc<dyn Fn(usize, u64) -> RecordBatch + Send + Sync> },
}

impl ChaosData {
    pub fn fixed(parts: Vec<Vec<RecordBatch>>) -> ChaosData {
        ChaosData::Fixed(Arc::new(parts))
    }
    pub fn partitions(&self) -> usize {
        match self {
            ChaosData::Fixed(p) => p.len(),
            ChaosData::Endless { partitions, .. } => *partitions,
        }
    }
    pub fn is_endless(&self) -> bool {
        matches!(self, ChaosData::Endless { .. })
    }
}

impl fmt::Debug for ChaosData {
    fn fmt(&self, f: &mut fmt::Formatter<'_>) -> fmt::Result {
        match self {
            ChaosData::Fixed(p) => write!(f, "Fixed({:?})", p.iter().map(|x| x.len()).collect::<Vec<_>>()),
            ChaosData::Endless { partitions, .. } => write!(f, "Endless({partitions})"),
        }
    }
}

/// (column name, descending, nulls first)
pub type DeclaredOrder = Vec<(String, bool, bool)>;

#[derive(Clone, Debug)]
pub struct ChaosCfg {
    pub noise: Noise,
    pub fault: Option<SourceFault>,
    /// declare `Boundedness::Unbounded` (independent of whether the data is endless: an endless source may
    /// pretend to be bounded, which the engine cannot tell from a huge table)
    pub unbounded: bool,
    pub order: DeclaredOrder,
    /// self-test switch: declare `SchedulingType::Cooperative` without consuming any task budget, so that
    /// `EnsureCooperative` does not wrap the source (a deliberately non-cooperative pipeline)
    pub claim_cooperative: bool,
}

impl Default for ChaosCfg {
    fn default() -> Self {
        ChaosCfg { noise: Noise::none(), fault: None, unbounded: false, order: vec![], claim_cooperative: false }
    }
}

// ------------------------------------------------------------------------------------------
// the leaf plan

#[derive(Debug)]
pub struct ChaosSourceExec {
    full_schema: SchemaRef,
    schema: SchemaRef,
    projection: Option<Vec<usize>>,
    data: ChaosData,
    cfg: ChaosCfg,
    state: Arc<ChaosState>,
    props: Arc<PlanProperties>,
}

impl ChaosSourceExec {
    pub fn new(full_schema: SchemaRef, data: ChaosData, cfg: ChaosCfg, state: Arc<ChaosState>, projection: Option<&[usize]>) -> Result<ChaosSourceExec> {
        let schema = match projection {
            Some(p) => Arc::new(full_schema.project(p)?),
            None => full_schema.clone(),
        };
        // the declared ordering survives the projection up to its first projected-away column
        let mut sort_exprs = vec![];
        for (name, desc, nulls_first) in &cfg.order {
            match schema.index_of(name) {
                Ok(i) => sort_exprs.push(PhysicalSortExpr::new(
                    Arc::new(Column::new(name, i)) as Arc<dyn PhysicalExpr>,
                    SortOptions { descending: *desc, nulls_first: *nulls_first },
                )),
                Err(_) => break,
            }
        }
        let eq = EquivalenceProperties::new_with_orderings(schema.clone(), LexOrdering::new(sort_exprs));
        let bounded = if cfg.unbounded { Boundedness::Unbounded { requires_infinite_memory: false } } else { Boundedness::Bounded };
        let mut props = PlanProperties::new(eq, Partitioning::UnknownPartitioning(data.partitions()), EmissionType::Incremental, bounded);
        if cfg.claim_cooperative {
            props = props.with_scheduling_type(datafusion::physical_plan::execution_plan::SchedulingType::Cooperative);
        }
        Ok(ChaosSourceExec { full_schema, schema, projection: projection.map(|p| p.to_vec()), data, cfg, state, props: Arc::new(props) })
    }
    pub fn state(&self) -> &Arc<ChaosState> {
        &self.state
    }
    pub fn full_schema(&self) -> &SchemaRef {
        &self.full_schema
    }
}

impl DisplayAs for ChaosSourceExec {
    fn fmt_as(&self, _t: DisplayFormatType, f: &mut fmt::Formatter) -> fmt::Result {
        write!(f, "ChaosSourceExec: partitions={}, endless={}, unbounded={}", self.data.partitions(), self.data.is_endless(), self.cfg.unbounded)
    }
}

impl ExecutionPlan for ChaosSourceExec {
    fn name(&self) -> &str {
        "ChaosSourceExec"
    }
    fn properties(&self) -> &Arc<PlanProperties> {
        &self.props
    }
    fn children(&self) -> Vec<&Arc<dyn ExecutionPlan>> {
        vec![]
    }
    fn apply_expressions(&self, _f: &mut dyn FnMut(&Arc<dyn PhysicalExpr>) -> Result<TreeNodeRecursion>) -> Result<TreeNodeRecursion> {
        Ok(TreeNodeRecursion::Continue)
    }
    fn replace_children(self: Arc<Self>, _children: Vec<Arc<dyn ExecutionPlan>>, _o: ReplaceChildrenOptions) -> Result<Arc<dyn ExecutionPlan>> {
        Ok(self)
    }
    fn with_new_children(self: Arc<Self>, _children: Vec<Arc<dyn ExecutionPlan>>) -> Result<Arc<dyn ExecutionPlan>> {
        Ok(self)
    }
    fn execute(&self, partition: usize, _ctx: Arc<TaskContext>) -> Result<SendableRecordBatchStream> {
        if partition >= self.data.partitions() {
            return Err(DataFusionError::Internal(format!("ChaosSourceExec: no partition {partition}")));
        }
        Ok(Box::pin(ChaosStream {
            schema: self.schema.clone(),
            projection: self.projection.clone(),
            partition,
            idx: 0,
            data: self.data.clone(),
            fault: self.cfg.fault.filter(|f| f.partition == partition),
            noise: self.cfg.noise,
            rng: Rng::derive(self.cfg.noise.seed, &[0x5C4ED, partition as u64]),
            noise_done: false,
            sleep: None,
            done: false,
            token: LiveToken::new(&self.state),
        }))
    }
}

struct ChaosStream {
    schema: SchemaRef,
    projection: Option<Vec<usize>>,
    partition: usize,
    idx: u64,
    data: ChaosData,
    fault: Option<SourceFault>,
    noise: Noise,
    rng: Rng,
    noise_done: bool,
    sleep: Option<Pin<Box<tokio::time::Sleep>>>,
    done: bool,
    token: LiveToken,
}

impl ChaosStream {
    fn state(&self) -> &ChaosState {
        &self.token.0
    }
}

impl Stream for ChaosStream {
    type Item = Result<RecordBatch>;

    fn poll_next(mut self: Pin<&mut Self>, cx: &mut Context<'_>) -> Poll<Option<Self::Item>> {
        let this = &mut *self;
        if this.done {
            return Poll::Ready(None);
        }
        if let Some(s) = this.sleep.as_mut() {
            match s.as_mut().poll(cx) {
                Poll::Pending => return Poll::Pending,
                Poll::Ready(()) => this.sleep = None,
            }
        }
        // wall-clock guard (harness protection only; the caller reports it as inconclusive)
        let wall = *this.state().wall.lock().unwrap();
        if let Some(w) = wall {
            if std::time::Instant::now() >= w {
                this.state().wall_hit.store(true, Ordering::SeqCst);
                this.done = true;
                return Poll::Ready(Some(Err(DataFusionError::External("HARNESS-WALL-GUARD".into()))));
            }
        }
        // scripted fault
        if let Some(f) = this.fault {
            if f.at_batch == this.idx {
                this.state().fault_fired.store(true, Ordering::SeqCst);
                this.done = true;
                let tag = this.state().tag.clone();
                return match f.kind {
                    FaultKind::Error => Poll::Ready(Some(Err(DataFusionError::Execution(format!("{tag} source failure at partition {} batch {}", f.partition, f.at_batch))))),
                    FaultKind::Panic => panic!("{tag} source panic at partition {} batch {}", f.partition, f.at_batch),
                    FaultKind::End => Poll::Ready(None),
                };
            }
        }
        // seeded noise, once per position
        if !this.noise_done && (this.noise.yield_pct > 0 || this.noise.sleep_pct > 0) {
            this.noise_done = true;
            let r = this.rng.below(100) as u32;
            if r < this.noise.yield_pct {
                cx.waker().wake_by_ref();
                return Poll::Pending;
            } else if r < this.noise.yield_pct + this.noise.sleep_pct {
                let ms = 1 + this.rng.below(this.noise.max_sleep_ms.max(1));
                let unit = if this.noise.unit_us == 0 { 1000 } else { this.noise.unit_us };
                let mut s = Box::pin(tokio::time::sleep(Duration::from_micros(ms * unit)));
                if s.as_mut().poll(cx).is_pending() {
                    this.sleep = Some(s);
                    return Poll::Pending;
                }
            }
        }
        this.noise_done = false;
        let batch = match &this.data {
            ChaosData::Fixed(parts) => match parts[this.partition].get(this.idx as usize) {
                Some(b) => b.clone(),
                None => {
                    this.done = true;
                    return Poll::Ready(None);
                }
            },
            ChaosData::Endless { generate, .. } => {
                if this.state().served() >= this.state().cap.load(Ordering::SeqCst) {
                    this.state().cap_hit.store(true, Ordering::SeqCst);
                    this.done = true;
                    return Poll::Ready(None);
                }
                generate(this.partition, this.idx)
            }
        };
        this.idx += 1;
        this.state().note_served(this.partition);
        let batch = match &this.projection {
            Some(p) => batch.project(p).map_err(DataFusionError::from),
            None => Ok(batch),
        };
        Poll::Ready(Some(batch))
    }
}

impl RecordBatchStream for ChaosStream {
    fn schema(&self) -> SchemaRef {
        self.schema.clone()
    }
}

// ------------------------------------------------------------------------------------------
// table provider

#[derive(Debug)]
pub struct ChaosTable {
    schema: SchemaRef,
    data: ChaosData,
    cfg: ChaosCfg,
    state: Arc<ChaosState>,
}

impl ChaosTable {
    pub fn new(schema: SchemaRef, data: ChaosData, cfg: ChaosCfg, state: Arc<ChaosState>) -> ChaosTable {
        ChaosTable { schema, data, cfg, state }
    }
    pub fn state(&self) -> &Arc<ChaosState> {
        &self.state
    }
}

#[async_trait]
impl TableProvider for ChaosTable {
    fn schema(&self) -> SchemaRef {
        self.schema.clone()
    }
    fn table_type(&self) -> TableType {
        TableType::Base
    }
    async fn scan(&self, _state: &dyn Session, projection: Option<&[usize]>, _filters: &[Expr], _limit: Option<usize>) -> Result<Arc<dyn ExecutionPlan>> {
        Ok(Arc::new(ChaosSourceExec::new(self.schema.clone(), self.data.clone(), self.cfg.clone(), self.state.clone(), projection)?))
    }
}

// ------------------------------------------------------------------------------------------
// endless ordered generator: columns (k, id, v) — `id` unique and increasing inside a partition,
// `k = id / kdiv` monotone non-decreasing, `v` a small pseudo-random payload

#[derive(Clone, Copy, Debug)]
pub struct EndlessSpec {
    pub partitions: usize,
    pub rows_per_batch: usize,
    pub kdiv: i64,
}

impl EndlessSpec {
    pub fn schema() -> SchemaRef {
        Arc::new(Schema::new(vec![Field::new("k", DataType::Int64, false), Field::new("id", DataType::Int64, false), Field::new("v", DataType::Int64, false)]))
    }
    /// (k, id, v) of row `j` (0-based) of `partition`
    pub fn row(&self, partition: usize, j: u64) -> [i64; 3] {
        let id = (j * self.partitions as u64 + partition as u64) as i64;
        let v = (vcommon::fp_mix(0xE5D1E55, id as u64) % 1000) as i64;
        [id / self.kdiv.max(1), id, v]
    }
    pub fn batch(&self, partition: usize, b: u64) -> RecordBatch {
        let n = self.rows_per_batch as u64;
        let rows: Vec<[i64; 3]> = (b * n..(b + 1) * n).map(|j| self.row(partition, j)).collect();
        let col = |c: usize| Arc::new(Int64Array::from_iter_values(rows.iter().map(|r| r[c]))) as ArrayRef;
        RecordBatch::try_new(Self::schema(), vec![col(0), col(1), col(2)]).expect("endless batch")
    }
    /// all rows of the first `batches` batches of `partition`
    pub fn prefix(&self, partition: usize, batches: u64) -> Vec<[i64; 3]> {
        (0..batches * self.rows_per_batch as u64).map(|j| self.row(partition, j)).collect()
    }
    pub fn data(&self) -> ChaosData {
        let s = *self;
        ChaosData::Endless { partitions: s.partitions, generate: Arc::new(move |p, b| s.batch(p, b)) }
    }
    pub fn order_k_id() -> DeclaredOrder {
        vec![("k".into(), false, false), ("id".into(), false, false)]
    }
}

// ------------------------------------------------------------------------------------------
// generated bounded tables: (id unique, k small key, v payload, s wide string)

pub fn wide_schema() -> SchemaRef {
    Arc::new(Schema::new(vec![
        Field::new("id", DataType::Int64, false),
        Field::new("k", DataType::Int64, false),
        Field::new("v", DataType::Int64, true),
        Field::new("s", DataType::Utf8, false),
    ]))
}

/// `rows` rows: id = `id0 + i` (unique), k in `0..nkeys`, v random (some NULL), s a string of `width` bytes whose
/// prefix is unique per row (so sorting / grouping on it is total). Rows are spread over `partitions` partitions in
/// batches of `<= max_batch` rows. With `sorted_on_k`, every partition is sorted on (k, id).
pub fn gen_wide_table(rng: &mut Rng, rows: usize, id0: i64, nkeys: i64, width: usize, partitions: usize, max_batch: usize, sorted_on_k: bool) -> Vec<Vec<RecordBatch>> {
    let schema = wide_schema();
    let mut all: Vec<(i64, i64, Option<i64>, String)> = (0..rows)
        .map(|i| {
            let id = id0 + i as i64;
            let k = rng.below(nkeys.max(1) as u64) as i64;
            let v = if rng.chance(1, 12) { None } else { Some(rng.range(-500, 500)) };
            let mut s = format!("{:08x}-{id}-", rng.next_u32());
            while s.len() < width {
                s.push((b'a' + (rng.below(26) as u8)) as char);
            }
            (id, k, v, s)
        })
        .collect();
    let mut parts: Vec<Vec<(i64, i64, Option<i64>, String)>> = vec![vec![]; partitions.max(1)];
    for (i, r) in all.drain(..).enumerate() {
        parts[i % partitions.max(1)].push(r);
    }
    parts
        .into_iter()
        .map(|mut p| {
            if sorted_on_k {
                p.sort_by_key(|r| (r.1, r.0));
            }
            let mut out = vec![];
            let mut i = 0;
            while i < p.len() {
                let n = (1 + rng.usize(max_batch.max(1))).min(p.len() - i);
                let sl = &p[i..i + n];
                out.push(
                    RecordBatch::try_new(
                        schema.clone(),
                        vec![
                            Arc::new(Int64Array::from_iter_values(sl.iter().map(|r| r.0))) as ArrayRef,
                            Arc::new(Int64Array::from_iter_values(sl.iter().map(|r| r.1))),
                            Arc::new(Int64Array::from_iter(sl.iter().map(|r| r.2))),
                            Arc::new(StringArray::from_iter_values(sl.iter().map(|r| r.3.as_str()))),
                        ],
                    )
                    .expect("wide batch"),
                );
                i += n;
            }
            out
        })
        .collect()
}

// ------------------------------------------------------------------------------------------
// failing scalar UDF

#[derive(Clone, Copy, Debug, PartialEq, Eq, Hash)]
pub enum FailMode {
    Never,
    /// fail when an argument value equals the marker
    Marker(i64),
    /// fail when the k-th row overall (0-based, in evaluation order) is evaluated
    NthRow(u64),
}

#[derive(Debug)]
pub struct FailUdfState {
    pub tag: String,
    pub mode: FailMode,
    rows: AtomicU64,
    fired: AtomicBool,
}

impl FailUdfState {
    pub fn fired(&self) -> bool {
        self.fired.load(Ordering::SeqCst)
    }
    pub fn rows_seen(&self) -> u64 {
        self.rows.load(Ordering::SeqCst)
    }
}

#[derive(Debug)]
struct FailUdf {
    name: String,
    sig: Signature,
    st: Arc<FailUdfState>,
}

impl PartialEq for FailUdf {
    fn eq(&self, o: &Self) -> bool {
        self.name == o.name && Arc::ptr_eq(&self.st, &o.st)
    }
}
impl Eq for FailUdf {}
impl std::hash::Hash for FailUdf {
    fn hash<H: std::hash::Hasher>(&self, h: &mut H) {
        self.name.hash(h);
    }
}

impl ScalarUDFImpl for FailUdf {
    fn name(&self) -> &str {
        &self.name
    }
    fn signature(&self) -> &Signature {
        &self.sig
    }
    fn return_type(&self, _arg_types: &[DataType]) -> Result<DataType> {
        Ok(DataType::Int64)
    }
    fn invoke_with_args(&self, args: ScalarFunctionArgs) -> Result<ColumnarValue> {
        let arr = args.args[0].clone().into_array(args.number_rows)?;
        let a = arr.as_any().downcast_ref::<Int64Array>().ok_or_else(|| DataFusionError::Internal("fail_at expects Int64".into()))?;
        let base = self.st.rows.fetch_add(a.len() as u64, Ordering::SeqCst);
        let hit = match self.st.mode {
            FailMode::Never => None,
            FailMode::Marker(m) => (0..a.len()).find(|i| a.is_valid(*i) && a.value(*i) == m),
            FailMode::NthRow(k) => (k >= base && k < base + a.len() as u64).then(|| (k - base) as usize),
        };
        if let Some(i) = hit {
            self.st.fired.store(true, Ordering::SeqCst);
            return Err(DataFusionError::Execution(format!("{} fail_at fired at row {} of its batch ({:?})", self.st.tag, i, self.st.mode)));
        }
        Ok(ColumnarValue::Array(arr))
    }
}

/// `name(x BIGINT) -> BIGINT`: identity, except that it fails per `mode` with a tagged error. Volatile, so the
/// optimizer neither folds nor duplicates it.
pub fn fail_udf(name: &str, mode: FailMode, tag: &str) -> (ScalarUDF, Arc<FailUdfState>) {
    let st = Arc::new(FailUdfState { tag: tag.to_string(), mode, rows: AtomicU64::new(0), fired: AtomicBool::new(false) });
    let udf = FailUdf { name: name.to_string(), sig: Signature::exact(vec![DataType::Int64], Volatility::Volatile), st: st.clone() };
    (ScalarUDF::new_from_impl(udf), st)
}

// ------------------------------------------------------------------------------------------
// memory pool wrapper

#[derive(Debug)]
pub struct CountingPool {
    inner: Arc<dyn MemoryPool>,
    tag: String,
    /// 0-based index of the `try_grow` call to fail; `u64::MAX` = never
    fail_at: AtomicU64,
    try_grow_calls: AtomicU64,
    try_grow_failed_inner: AtomicU64,
    fired: AtomicBool,
    peak: AtomicU64,
}

impl CountingPool {
    pub fn new(inner: Arc<dyn MemoryPool>, tag: &str, fail_at: Option<u64>) -> CountingPool {
        CountingPool {
            inner,
            tag: tag.to_string(),
            fail_at: AtomicU64::new(fail_at.unwrap_or(u64::MAX)),
            try_grow_calls: AtomicU64::new(0),
            try_grow_failed_inner: AtomicU64::new(0),
            fired: AtomicBool::new(false),
            peak: AtomicU64::new(0),
        }
    }
    pub fn try_grow_calls(&self) -> u64 {
        self.try_grow_calls.load(Ordering::SeqCst)
    }
    /// number of `try_grow` calls the inner (limited) pool refused
    pub fn inner_refusals(&self) -> u64 {
        self.try_grow_failed_inner.load(Ordering::SeqCst)
    }
    pub fn fired(&self) -> bool {
        self.fired.load(Ordering::SeqCst)
    }
    pub fn peak(&self) -> u64 {
        self.peak.load(Ordering::SeqCst)
    }
    fn note_peak(&self) {
        self.peak.fetch_max(self.inner.reserved() as u64, Ordering::SeqCst);
    }
}

impl fmt::Display for CountingPool {
    fn fmt(&self, f: &mut fmt::Formatter<'_>) -> fmt::Result {
        write!(f, "CountingPool({})", self.inner)
    }
}

impl MemoryPool for CountingPool {
    fn name(&self) -> &str {
        "CountingPool"
    }
    fn register(&self, c: &MemoryConsumer) {
        self.inner.register(c)
    }
    fn unregister(&self, c: &MemoryConsumer) {
        self.inner.unregister(c)
    }
    fn grow(&self, r: &MemoryReservation, additional: usize) {
        self.inner.grow(r, additional);
        self.note_peak();
    }
    fn shrink(&self, r: &MemoryReservation, shrink: usize) {
        self.inner.shrink(r, shrink)
    }
    fn try_grow(&self, r: &MemoryReservation, additional: usize) -> Result<()> {
        let n = self.try_grow_calls.fetch_add(1, Ordering::SeqCst);
        if n == self.fail_at.load(Ordering::SeqCst) {
            self.fired.store(true, Ordering::SeqCst);
            return Err(DataFusionError::ResourcesExhausted(format!("{} try_grow #{n} of {additional} bytes for {} refused by the harness", self.tag, r.consumer().name())));
        }
        let res = self.inner.try_grow(r, additional);
        if res.is_err() {
            self.try_grow_failed_inner.fetch_add(1, Ordering::SeqCst);
        }
        self.note_peak();
        res
    }
    fn reserved(&self) -> usize {
        self.inner.reserved()
    }
    fn memory_limit(&self) -> MemoryLimit {
        self.inner.memory_limit()
    }
}

// ------------------------------------------------------------------------------------------
// runtime environment with observers

#[derive(Clone, Copy, Debug, PartialEq, Eq)]
pub enum PoolKind {
    Unbounded,
    Greedy(usize),
    Fair(usize),
}

#[derive(Clone, Debug)]
pub struct EnvCfg {
    pub pool: PoolKind,
    pub fail_try_grow_at: Option<u64>,
    pub disk_quota: Option<u64>,
    pub merge_fan_in: Option<usize>,
    pub tag: String,
}

impl Default for EnvCfg {
    fn default() -> Self {
        EnvCfg { pool: PoolKind::Unbounded, fail_try_grow_at: None, disk_quota: None, merge_fan_in: None, tag: TAG_PREFIX.to_string() }
    }
}

pub struct Env {
    pub runtime: Arc<RuntimeEnv>,
    pub pool: Arc<CountingPool>,
    pub disk: Arc<DiskManager>,
    /// private root of the spill directories (deleted when `Env` drops)
    pub spill_root: tempfile::TempDir,
}

impl Env {
    pub fn new(cfg: &EnvCfg) -> Result<Env> {
        let inner: Arc<dyn MemoryPool> = match cfg.pool {
            PoolKind::Unbounded => Arc::new(UnboundedMemoryPool::default()),
            PoolKind::Greedy(n) => Arc::new(GreedyMemoryPool::new(n)),
            PoolKind::Fair(n) => Arc::new(FairSpillPool::new(n)),
        };
        let pool = Arc::new(CountingPool::new(inner, &cfg.tag, cfg.fail_try_grow_at));
        let spill_root = tempfile::Builder::new().prefix("dfv-spill-").tempdir().map_err(|e| DataFusionError::External(Box::new(e)))?;
        let mut dmb = DiskManagerBuilder::default().with_mode(DiskManagerMode::Directories(vec![spill_root.path().to_path_buf()]));
        if let Some(q) = cfg.disk_quota {
            dmb = dmb.with_max_temp_directory_size(q);
        }
        if let Some(f) = cfg.merge_fan_in {
            dmb = dmb.with_max_spill_merge_fan_in(f);
        }
        let runtime = RuntimeEnvBuilder::new().with_memory_pool(pool.clone() as Arc<dyn MemoryPool>).with_disk_manager_builder(dmb).build_arc()?;
        let disk = runtime.disk_manager.clone();
        Ok(Env { runtime, pool, disk, spill_root })
    }
    pub fn reserved(&self) -> usize {
        self.pool.reserved()
    }
    pub fn disk_used(&self) -> u64 {
        self.disk.used_disk_space()
    }
    /// regular files below the spill root (the per-manager temp directories themselves may remain)
    pub fn spill_files(&self) -> Vec<PathBuf> {
        let mut out = vec![];
        list_files(self.spill_root.path(), &mut out);
        out
    }
}

fn list_files(dir: &Path, out: &mut Vec<PathBuf>) {
    if let Ok(rd) = std::fs::read_dir(dir) {
        for e in rd.flatten() {
            let p = e.path();
            match e.file_type() {
                Ok(t) if t.is_dir() => list_files(&p, out),
                Ok(_) => out.push(p),
                Err(_) => {}
            }
        }
    }
}

// ------------------------------------------------------------------------------------------
// observers + settle loop

#[derive(Clone, Debug, Default, PartialEq, Eq)]
pub struct Snapshot {
    pub alive_tasks: usize,
    pub live_streams: i64,
    pub reserved: usize,
    pub disk_used: u64,
    pub spill_files: usize,
}

impl Snapshot {
    pub fn to_json(&self) -> vcommon::Json {
        vcommon::json!({"alive_tasks": self.alive_tasks, "live_streams": self.live_streams, "reserved": self.reserved, "disk_used": self.disk_used, "spill_files": self.spill_files})
    }
    /// everything released (tasks compared against `baseline_tasks`)
    pub fn clean(&self, baseline_tasks: usize) -> bool {
        self.alive_tasks <= baseline_tasks && self.live_streams == 0 && self.reserved == 0 && self.disk_used == 0 && self.spill_files == 0
    }
}

pub struct Observers<'a> {
    pub env: &'a Env,
    pub states: Vec<Arc<ChaosState>>,
}

pub fn alive_tasks() -> usize {
    tokio::runtime::Handle::current().metrics().num_alive_tasks()
}

#[derive(Clone, Copy, Debug)]
pub struct SettleReport {
    pub rounds: usize,
    /// false: the round bound (VTQ) or the wall-clock bound (multi-thread) was exhausted before everything was clean
    pub settled: bool,
    pub wall_exceeded: bool,
}

impl Observers<'_> {
    pub fn snapshot(&self) -> Snapshot {
        Snapshot {
            alive_tasks: alive_tasks(),
            live_streams: self.states.iter().map(|s| s.live_streams()).sum(),
            reserved: self.env.reserved(),
            disk_used: self.env.disk_used(),
            spill_files: self.env.spill_files().len(),
        }
    }

    /// Let the runtime settle after a drop: rounds of (4 × `yield_now`, then a 1 ms sleep — virtual on a paused
    /// runtime, where it also waits for outstanding blocking jobs) until the observers are clean and the alive-task
    /// count has been stable for 3 rounds, or until it has been stable-but-dirty for `max_rounds` rounds.
    pub async fn settle(&self, baseline_tasks: usize, max_rounds: usize, wall: Duration) -> (Snapshot, SettleReport) {
        let start = std::time::Instant::now();
        let mut last = usize::MAX;
        let mut stable = 0usize;
        let mut rounds = 0usize;
        loop {
            for _ in 0..4 {
                tokio::task::yield_now().await;
            }
            tokio::time::sleep(Duration::from_millis(1)).await;
            rounds += 1;
            let snap = self.snapshot();
            if snap.alive_tasks == last {
                stable += 1;
            } else {
                stable = 0;
                last = snap.alive_tasks;
            }
            if stable >= 3 && snap.clean(baseline_tasks) {
                return (snap, SettleReport { rounds, settled: true, wall_exceeded: false });
            }
            if rounds >= max_rounds {
                return (snap, SettleReport { rounds, settled: false, wall_exceeded: false });
            }
            if start.elapsed() > wall {
                return (snap, SettleReport { rounds, settled: false, wall_exceeded: true });
            }
        }
    }
}

// ------------------------------------------------------------------------------------------
// runners

#[derive(Debug)]
pub enum RunOutcome<T> {
    Done(T),
    /// VTQ: the 1-hour virtual timeout fired ⇒ no task runnable, no blocking job outstanding, no earlier timer:
    /// the execution is logically stuck
    Stuck,
    /// wall-clock guard of the multi-thread runner (never a verdict)
    Wall,
    Panic(String),
}

pub const VTQ_TIMEOUT: Duration = Duration::from_secs(3600);

/// Run one case on a fresh paused current-thread runtime under the virtual-time quiescence detector.
pub fn run_vtq<T, Fut: Future<Output = T>>(mk: impl FnOnce() -> Fut) -> RunOutcome<T> {
    let r = vcommon::par::guard(|| {
        let rt = tokio::runtime::Builder::new_current_thread().enable_all().start_paused(true).build().expect("vtq runtime");
        let out = rt.block_on(async { tokio::time::timeout(VTQ_TIMEOUT, mk()).await });
        rt.shutdown_background();
        out
    });
    match r {
        Err(p) => RunOutcome::Panic(p),
        Ok(Err(_elapsed)) => RunOutcome::Stuck,
        Ok(Ok(v)) => RunOutcome::Done(v),
    }
}

/// Run one case on a fresh multi-thread runtime (real time) under a wall-clock guard.
pub fn run_mt<T, Fut: Future<Output = T>>(workers: usize, wall: Duration, mk: impl FnOnce() -> Fut) -> RunOutcome<T> {
    let r = vcommon::par::guard(|| {
        let rt = tokio::runtime::Builder::new_multi_thread().worker_threads(workers.max(1)).enable_all().build().expect("mt runtime");
        let out = rt.block_on(async { tokio::time::timeout(wall, mk()).await });
        rt.shutdown_background();
        out
    });
    match r {
        Err(p) => RunOutcome::Panic(p),
        Ok(Err(_elapsed)) => RunOutcome::Wall,
        Ok(Ok(v)) => RunOutcome::Done(v),
    }
}

/// Spawn a helper that lets the calling task yield `yields` times and then advances the paused clock by `by`.
/// On a paused runtime virtual time only auto-advances when the runtime is idle; a pipeline that yields
/// cooperatively (self-wake) never leaves it idle, so the clock has to be pushed from a sibling task — which only
/// ever gets to run if the pipeline really returns `Pending` to the executor.
pub fn spawn_clock_pusher(yields: usize, by: Duration) -> tokio::task::JoinHandle<()> {
    tokio::spawn(async move {
        for _ in 0..yields {
            tokio::task::yield_now().await;
        }
        tokio::time::advance(by).await;
    })
}

// ------------------------------------------------------------------------------------------
// stream protocol monitor

#[derive(Debug, Default)]
pub struct Protocol {
    pub batches: Vec<RecordBatch>,
    pub error: Option<DataFusionError>,
    /// items (Ok or Err) yielded after the first error
    pub items_after_error: usize,
    pub rows_after_error: usize,
    /// the stream returned `None`
    pub ended: bool,
    pub polls: usize,
    /// a poll before the first error / end did not complete within 1500 virtual seconds (VTQ: logically stuck)
    pub stuck: bool,
    /// same, for a poll after the first error
    pub stuck_after_error: bool,
}

/// Drain `stream`: collects `Ok` batches, the first `Err`, and whatever follows it (at most `extra_polls`
/// further polls after an error). Every poll runs under a 1500 s timeout — meaningful on a paused runtime only.
pub async fn drain_protocol(mut stream: SendableRecordBatchStream, extra_polls: usize) -> Protocol {
    use futures::StreamExt;
    let mut p = Protocol::default();
    let mut after = 0usize;
    let step = Duration::from_secs(1500);
    loop {
        if p.error.is_some() {
            if after >= extra_polls {
                break;
            }
            after += 1;
        }
        p.polls += 1;
        let item = match tokio::time::timeout(step, stream.next()).await {
            Ok(i) => i,
            Err(_) => {
                if p.error.is_some() {
                    p.stuck_after_error = true;
                } else {
                    p.stuck = true;
                }
                break;
            }
        };
        match item {
            None => {
                p.ended = true;
                break;
            }
            Some(Ok(b)) => {
                if p.error.is_some() {
                    p.items_after_error += 1;
                    p.rows_after_error += b.num_rows();
                } else {
                    p.batches.push(b);
                }
            }
            Some(Err(e)) => {
                if p.error.is_some() {
                    p.items_after_error += 1;
                } else {
                    p.error = Some(e);
                }
            }
        }
    }
    p
}

/// Does the error (anywhere in its chain / rendering) carry `tag`?
pub fn carries_tag(e: &DataFusionError, tag: &str) -> bool {
    e.to_string().contains(tag) || format!("{e:?}").contains(tag)
}

pub fn root_is_resources_exhausted(e: &DataFusionError) -> bool {
    matches!(e.find_root(), DataFusionError::ResourcesExhausted(_))
}

/// Operator names of a physical plan (pre-order).
pub fn plan_operators(plan: &Arc<dyn ExecutionPlan>) -> Vec<String> {
    fn walk(p: &Arc<dyn ExecutionPlan>, out: &mut Vec<String>) {
        out.push(p.name().to_string());
        for c in p.children() {
            walk(c, out);
        }
    }
    let mut out = vec![];
    walk(plan, &mut out);
    out
}

/// Sum of a named metric (`spill_count`, `spilled_bytes`, `output_rows`, …) over all nodes of an executed plan.
pub fn sum_metric(plan: &Arc<dyn ExecutionPlan>, name: &str) -> usize {
    let mut total = plan.metrics().and_then(|m| m.sum(|x| x.value().name() == name)).map(|v| v.as_usize()).unwrap_or(0);
    for c in plan.children() {
        total += sum_metric(c, name);
    }
    total
}

// ------------------------------------------------------------------------------------------
// worlds: a session over chaos tables (+ real parquet / csv files) with observers attached

use datafusion::prelude::{CsvReadOptions, ParquetReadOptions, SessionConfig, SessionContext};

/// Generated tables shared by many cases (read-only): `t1` (3 partitions), `t2` (2 partitions), `ts` (3 partitions,
/// every partition sorted on (k, id), declared), all with [`wide_schema`]; `pq` = two parquet files holding t1's rows,
/// `cs` = one csv file holding t2's rows.
pub struct Dataset {
    pub seed: u64,
    pub t1: Vec<Vec<RecordBatch>>,
    pub t2: Vec<Vec<RecordBatch>>,
    pub ts: Vec<Vec<RecordBatch>>,
    /// `tb`: a bigger table (3 partitions) for the shapes that have to spill
    pub tb: Vec<Vec<RecordBatch>>,
    pub dir: tempfile::TempDir,
}

#[derive(Clone, Copy, Debug)]
pub struct DatasetCfg {
    pub rows1: usize,
    pub rows2: usize,
    pub rows_s: usize,
    pub nkeys: i64,
    pub width: usize,
    pub max_batch: usize,
    pub files: bool,
    pub rows_b: usize,
    pub width_b: usize,
    pub max_batch_b: usize,
}

impl Default for DatasetCfg {
    fn default() -> Self {
        DatasetCfg { rows1: 96, rows2: 40, rows_s: 60, nkeys: 9, width: 24, max_batch: 8, files: true, rows_b: 480, width_b: 72, max_batch_b: 24 }
    }
}

impl Dataset {
    pub fn new(seed: u64, c: &DatasetCfg) -> Dataset {
        let mut rng = Rng::derive(seed, &[0xDA7A]);
        let t1 = gen_wide_table(&mut rng, c.rows1, 0, c.nkeys, c.width, 3, c.max_batch, false);
        let t2 = gen_wide_table(&mut rng, c.rows2, 10_000, c.nkeys, c.width, 2, c.max_batch, false);
        let ts = gen_wide_table(&mut rng, c.rows_s, 20_000, c.nkeys, c.width, 3, c.max_batch, true);
        let tb = gen_wide_table(&mut rng, c.rows_b, 30_000, c.nkeys, c.width_b, 3, c.max_batch_b, false);
        let dir = tempfile::Builder::new().prefix("dfv-data-").tempdir().expect("data dir");
        let ds = Dataset { seed, t1, t2, ts, tb, dir };
        if c.files {
            ds.write_files().expect("write data files");
        }
        ds
    }
    pub fn parquet_dir(&self) -> PathBuf {
        self.dir.path().join("pq")
    }
    pub fn csv_path(&self) -> PathBuf {
        self.dir.path().join("cs.csv")
    }
    fn write_files(&self) -> std::result::Result<(), Box<dyn std::error::Error>> {
        std::fs::create_dir_all(self.parquet_dir())?;
        let props = parquet::file::properties::WriterProperties::builder().set_max_row_group_row_count(Some(16)).build();
        for (i, part) in self.t1.iter().enumerate().take(2) {
            let f = std::fs::File::create(self.parquet_dir().join(format!("part-{i}.parquet")))?;
            let mut w = parquet::arrow::ArrowWriter::try_new(f, wide_schema(), Some(props.clone()))?;
            for b in part {
                w.write(b)?;
            }
            // the third partition goes into the second file so that pq holds all of t1
            if i == 1 {
                for b in &self.t1[2] {
                    w.write(b)?;
                }
            }
            w.close()?;
        }
        let f = std::fs::File::create(self.csv_path())?;
        let mut w = arrow::csv::WriterBuilder::new().with_header(true).build(f);
        for b in self.t2.iter().flatten() {
            w.write(b)?;
        }
        Ok(())
    }
    pub fn table(&self, i: usize) -> &Vec<Vec<RecordBatch>> {
        match i {
            0 => &self.t1,
            1 => &self.t2,
            2 => &self.ts,
            _ => &self.tb,
        }
    }
}

pub const TABLE_NAMES: [&str; 4] = ["t1", "t2", "ts", "tb"];

#[derive(Clone, Debug)]
pub struct EndlessCfg {
    pub spec: EndlessSpec,
    /// declare the table unbounded (otherwise it pretends to be a huge bounded table)
    pub unbounded: bool,
    pub declare_order: bool,
    pub cap: u64,
    pub claim_cooperative: bool,
}

#[derive(Clone, Debug)]
pub struct WorldCfg {
    pub env: EnvCfg,
    pub noise: Noise,
    /// (table index in [`TABLE_NAMES`], fault)
    pub fault: Option<(usize, SourceFault)>,
    pub udf: FailMode,
    pub target_partitions: usize,
    pub batch_size: usize,
    pub settings: Vec<(String, String)>,
    /// register parquet table `pq` and csv table `cs`
    pub files: bool,
    /// register endless table `te` (columns k, id, v)
    pub endless: Option<EndlessCfg>,
    pub wall_guard: Option<Duration>,
}

impl Default for WorldCfg {
    fn default() -> Self {
        WorldCfg {
            env: EnvCfg::default(),
            noise: Noise::none(),
            fault: None,
            udf: FailMode::Never,
            target_partitions: 3,
            batch_size: 8,
            settings: vec![],
            files: false,
            endless: None,
            wall_guard: None,
        }
    }
}

pub struct World {
    pub env: Env,
    pub ctx: SessionContext,
    /// states of t1, t2, ts, tb (and, last, te when configured)
    pub states: Vec<Arc<ChaosState>>,
    pub udf: Arc<FailUdfState>,
}

impl World {
    pub async fn new(ds: &Dataset, cfg: &WorldCfg) -> Result<World> {
        let env = Env::new(&cfg.env)?;
        let mut sc = SessionConfig::new().with_target_partitions(cfg.target_partitions).with_batch_size(cfg.batch_size).with_information_schema(false);
        for (k, v) in &cfg.settings {
            sc = sc.set_str(k, v);
        }
        let ctx = SessionContext::new_with_config_rt(sc, env.runtime.clone());
        let mut states = vec![];
        for (i, name) in TABLE_NAMES.iter().enumerate() {
            let st = ChaosState::new(&cfg.env.tag);
            if let Some(w) = cfg.wall_guard {
                st.set_wall_guard(w);
            }
            let ccfg = ChaosCfg {
                noise: Noise { seed: vcommon::fp_mix(cfg.noise.seed, i as u64), ..cfg.noise },
                fault: cfg.fault.filter(|(t, _)| *t == i).map(|(_, f)| f),
                unbounded: false,
                order: if i == 2 { vec![("k".into(), false, false), ("id".into(), false, false)] } else { vec![] },
                claim_cooperative: false,
            };
            ctx.register_table(*name, Arc::new(ChaosTable::new(wide_schema(), ChaosData::Fixed(Arc::new(ds.table(i).clone())), ccfg, st.clone())))?;
            states.push(st);
        }
        if let Some(e) = &cfg.endless {
            let st = ChaosState::new(&cfg.env.tag);
            st.set_cap(e.cap);
            if let Some(w) = cfg.wall_guard {
                st.set_wall_guard(w);
            }
            let ccfg = ChaosCfg { noise: cfg.noise, fault: None, unbounded: e.unbounded, order: if e.declare_order { EndlessSpec::order_k_id() } else { vec![] }, claim_cooperative: e.claim_cooperative };
            ctx.register_table("te", Arc::new(ChaosTable::new(EndlessSpec::schema(), e.spec.data(), ccfg, st.clone())))?;
            states.push(st);
        }
        if cfg.files {
            ctx.register_parquet("pq", ds.parquet_dir().to_string_lossy().as_ref(), ParquetReadOptions::default()).await?;
            let schema = wide_schema();
            ctx.register_csv("cs", ds.csv_path().to_string_lossy().as_ref(), CsvReadOptions::new().schema(&schema).has_header(true)).await?;
        }
        let (udf, udf_state) = fail_udf("fail_at", cfg.udf, &cfg.env.tag);
        ctx.register_udf(udf);
        Ok(World { env, ctx, states, udf: udf_state })
    }

    pub async fn plan(&self, sql: &str) -> Result<Arc<dyn ExecutionPlan>> {
        self.ctx.sql(sql).await?.create_physical_plan().await
    }

    pub fn execute(&self, plan: Arc<dyn ExecutionPlan>) -> Result<SendableRecordBatchStream> {
        datafusion::physical_plan::execute_stream(plan, self.ctx.task_ctx())
    }

    pub fn observers(&self) -> Observers<'_> {
        Observers { env: &self.env, states: self.states.clone() }
    }

    pub fn any_source_fault_fired(&self) -> bool {
        self.states.iter().any(|s| s.fault_fired())
    }

    pub fn wall_hit(&self) -> bool {
        self.states.iter().any(|s| s.wall_hit())
    }
}

// ------------------------------------------------------------------------------------------
// plan-shape catalog shared by C19 (drop points) and C20 (fault points)

#[derive(Clone, Copy, Debug, PartialEq, Eq)]
pub enum ShapeCmp {
    /// result multiset must equal the fault-free answer
    Multiset,
    /// any `n` rows of the fault-free answer of `of` (LIMIT without a total order)
    SubsetOf { of: &'static str, n: usize },
    /// output is not comparable (EXPLAIN ANALYZE text)
    Opaque,
}

#[derive(Clone, Debug)]
pub struct Shape {
    pub name: &'static str,
    pub sql: &'static str,
    pub settings: &'static [(&'static str, &'static str)],
    pub target_partitions: usize,
    pub files: bool,
    /// memory limit (FairSpillPool bytes) that makes the shape spill
    pub mem_limit: Option<usize>,
    /// `sort_spill_reservation_bytes` = mem_limit / this (set by the calibration)
    pub sort_reservation_div: usize,
    /// the query may legitimately stop reading its inputs early (LIMIT)
    pub early_stop: bool,
    pub cmp: ShapeCmp,
    /// operators that must appear in the physical plan (coverage obligation)
    pub expect_ops: &'static [&'static str],
}

impl Shape {
    pub fn world_cfg(&self) -> WorldCfg {
        let mut w = WorldCfg { target_partitions: self.target_partitions, files: self.files, ..WorldCfg::default() };
        w.settings = self.settings.iter().map(|(k, v)| (k.to_string(), v.to_string())).collect();
        if let Some(m) = self.mem_limit.filter(|m| *m != CALIBRATE) {
            w.env.pool = PoolKind::Fair(m);
            // the merge phase of an external sort needs its own reservation; the 10 MiB default exceeds the limits used here
            w.settings.push(("datafusion.execution.sort_spill_reservation_bytes".into(), (m / self.sort_reservation_div.max(1)).to_string()));
        } else if self.mem_limit.is_some() {
            // peak measurement for the calibration: no limit, and no up-front merge reservation inflating the peak
            w.settings.push(("datafusion.execution.sort_spill_reservation_bytes".into(), "0".into()));
        }
        w
    }
}

/// placeholder for `Shape::mem_limit`: replaced by [`calibrate_spill_limits`]
pub const CALIBRATE: usize = usize::MAX;

pub const fn shape(name: &'static str, sql: &'static str, expect_ops: &'static [&'static str]) -> Shape {
    Shape { name, sql, settings: &[], target_partitions: 3, files: false, mem_limit: None, sort_reservation_div: 4, early_stop: false, cmp: ShapeCmp::Multiset, expect_ops }
}

const SMJ: &[(&str, &str)] = &[("datafusion.optimizer.prefer_hash_join", "false")];
const NO_COLLECT_LEFT: &[(&str, &str)] = &[("datafusion.optimizer.hash_join_single_partition_threshold", "0"), ("datafusion.optimizer.hash_join_single_partition_threshold_rows", "0")];

pub fn shapes() -> Vec<Shape> {
    vec![
        shape("filter-coalesce", "SELECT id, v FROM t1 WHERE v > -200", &["CoalescePartitionsExec", "FilterExec"]),
        shape("agg-partial-final-hash-repart", "SELECT k, count(*) AS c, sum(v) AS sv FROM t1 GROUP BY k", &["AggregateExec", "RepartitionExec"]),
        Shape { target_partitions: 4, ..shape("repart-round-robin", "SELECT id, v + 1 AS w FROM t2 WHERE v > -400", &["RepartitionExec"]) },
        shape("repart-preserve-order", "SELECT k, id FROM ts WHERE v > -450 OR v IS NULL ORDER BY k, id", &["SortPreservingMergeExec"]),
        shape("agg-ordered-input", "SELECT k, count(*) AS c FROM ts GROUP BY k ORDER BY k", &["AggregateExec"]),
        shape("union", "SELECT id, v FROM t1 UNION ALL SELECT id, v FROM t2", &["UnionExec"]),
        shape("interleave", "SELECT k, id, count(*) AS c FROM (SELECT k, id FROM t1 GROUP BY k, id UNION ALL SELECT k, id FROM t2 GROUP BY k, id) GROUP BY k, id", &["InterleaveExec"]),
        shape("sort-preserving-merge", "SELECT k, id, s FROM ts ORDER BY k, id", &["SortPreservingMergeExec"]),
        shape("sort", "SELECT id, s FROM t1 ORDER BY s", &["SortExec"]),
        Shape { mem_limit: Some(CALIBRATE), ..shape("sort-spill", "SELECT id, s FROM tb ORDER BY s", &["SortExec"]) },
        Shape { early_stop: true, ..shape("topk", "SELECT id, s FROM t1 ORDER BY s LIMIT 5", &["SortExec"]) },
        Shape { early_stop: true, cmp: ShapeCmp::SubsetOf { of: "SELECT id FROM t1", n: 7 }, ..shape("limit", "SELECT id FROM t1 LIMIT 7", &["LocalLimitExec"]) },
        Shape { early_stop: true, cmp: ShapeCmp::SubsetOf { of: "SELECT id FROM t1", n: 5 }, ..shape("limit-offset", "SELECT id FROM t1 LIMIT 5 OFFSET 85", &["GlobalLimitExec"]) },
        Shape { settings: NO_COLLECT_LEFT, ..shape("hash-join-partitioned", "SELECT a.id AS a, b.id AS b FROM t1 a JOIN t2 b ON a.k = b.k", &["HashJoinExec", "RepartitionExec"]) },
        shape("hash-join-left-filter", "SELECT a.id AS a, b.id AS b, b.v AS w FROM t2 a LEFT JOIN t1 b ON a.k = b.k AND a.v < b.v", &["HashJoinExec"]),
        Shape { settings: SMJ, ..shape("sort-merge-join", "SELECT a.id AS a, b.id AS b FROM t1 a JOIN t2 b ON a.k = b.k", &["SortMergeJoinExec"]) },
        shape("nested-loop-join", "SELECT a.id AS a, b.id AS b FROM t1 a JOIN t2 b ON a.v < b.v - 300", &["NestedLoopJoinExec"]),
        shape("cross-join", "SELECT a.id AS a, b.k AS bk FROM t2 a CROSS JOIN (SELECT DISTINCT k FROM t2) b", &["CrossJoinExec"]),
        shape("semi-join", "SELECT id FROM t1 WHERE k IN (SELECT k FROM t2 WHERE v > 0)", &["HashJoinExec"]),
        shape("window-bounded", "SELECT id, sum(v) OVER (PARTITION BY k ORDER BY id ROWS BETWEEN 2 PRECEDING AND CURRENT ROW) AS w FROM t1", &["BoundedWindowAggExec"]),
        shape("window-unbounded-following", "SELECT id, count(*) OVER (PARTITION BY k ORDER BY id ROWS BETWEEN CURRENT ROW AND UNBOUNDED FOLLOWING) AS w FROM t1", &["WindowAggExec"]),
        shape("distinct", "SELECT DISTINCT k, v IS NULL AS n FROM t1", &["AggregateExec"]),
        Shape { cmp: ShapeCmp::Opaque, ..shape("analyze", "EXPLAIN ANALYZE SELECT k, count(*) AS c FROM t1 GROUP BY k", &["AnalyzeExec"]) },
        Shape { files: true, ..shape("parquet-scan", "SELECT id, s FROM pq WHERE v > -200", &["DataSourceExec"]) },
        Shape { files: true, ..shape("csv-scan-agg", "SELECT k, count(*) AS c FROM cs GROUP BY k", &["DataSourceExec", "AggregateExec"]) },
        Shape { files: true, ..shape("parquet-join-chaos", "SELECT p.id AS a, b.id AS b FROM pq p JOIN t2 b ON p.k = b.k", &["DataSourceExec", "HashJoinExec"]) },
        shape("recursive", "WITH RECURSIVE r(n, d) AS (SELECT id, 0 FROM t2 WHERE id < 10012 UNION ALL SELECT n + 100000, d + 1 FROM r WHERE d < 4) SELECT n, d FROM r", &["RecursiveQueryExec"]),
        shape("join-agg-sort", "SELECT a.k, count(*) AS c, max(b.s) AS m FROM t1 a JOIN t2 b ON a.k = b.k GROUP BY a.k ORDER BY c DESC, a.k", &["HashJoinExec", "AggregateExec", "SortExec"]),
    ]
}

/// Result of a fault-free run of a shape to completion (VTQ runtime).
pub struct PlainRun {
    pub batches: Vec<RecordBatch>,
    pub error: Option<DataFusionError>,
    pub spills: usize,
    pub peak: u64,
    pub try_grow_calls: u64,
    pub udf_rows: u64,
    pub ops: Vec<String>,
}

pub fn plain_run(ds: &Dataset, shape: &Shape) -> Option<PlainRun> {
    let out = run_vtq(|| async {
        let world = World::new(ds, &shape.world_cfg()).await?;
        let plan = world.plan(shape.sql).await?;
        let ops = plan_operators(&plan);
        let p = drain_protocol(world.execute(plan.clone())?, 0).await;
        Ok::<_, DataFusionError>(PlainRun { batches: p.batches, error: p.error, spills: sum_metric(&plan, "spill_count"), peak: world.env.pool.peak(), try_grow_calls: world.env.pool.try_grow_calls(), udf_rows: world.udf.rows_seen(), ops })
    });
    match out {
        RunOutcome::Done(Ok(r)) => Some(r),
        _ => None,
    }
}

/// For every shape whose `mem_limit` is [`CALIBRATE`]: measure the unlimited peak and pick the largest fraction of it
/// under which the fault-free run still succeeds AND spills. Shapes for which no such limit exists keep
/// `mem_limit = None` and are reported in the second component.
pub fn calibrate_spill_limits(ds: &Dataset, shapes: &mut [Shape]) -> Vec<&'static str> {
    let mut failed = vec![];
    for sh in shapes.iter_mut().filter(|s| s.mem_limit == Some(CALIBRATE)) {
        // the unlimited run uses the same session settings as the limited ones
        let mut probe = sh.clone();
        let peak = plain_run(ds, &probe).filter(|r| r.error.is_none()).map(|r| r.peak).unwrap_or(0);
        sh.mem_limit = None;
        'search: for pct in [80u64, 65, 50, 40, 33, 25, 20, 15, 10, 7, 5, 100, 150] {
            for div in [4usize, 8, 16, 32] {
                probe.mem_limit = Some(((peak * pct / 100) as usize).max(512));
                probe.sort_reservation_div = div;
                if plain_run(ds, &probe).is_some_and(|r| r.error.is_none() && r.spills > 0) {
                    sh.mem_limit = probe.mem_limit;
                    sh.sort_reservation_div = div;
                    break 'search;
                }
            }
        }
        if sh.mem_limit.is_none() {
            failed.push(sh.name);
        }
    }
    failed
}
