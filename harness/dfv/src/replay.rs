//! Replays a recorded SQL witness (tables + layout + SQL) against the engine without the generator.

use crate::engine::*;
use crate::value::{rows_to_json, Row, Ty, Value};
use datafusion::prelude::*;
use vcommon::Json;

pub struct SqlWitness {
    pub sql: String,
    pub db: crate::refint::Db,
    pub layout: Option<DbLayout>,
    pub reference_rows: Option<Vec<Row>>,
    pub raw: Json,
}

pub fn load(path: &std::path::Path) -> Option<SqlWitness> {
    let text = std::fs::read_to_string(path).ok()?;
    let v: Json = serde_json::from_str(&text).ok()?;
    let w = v.get("witness").cloned().unwrap_or(v);
    let sql = w.get("sql")?.as_str()?.to_string();
    let db = db_from_json(w.get("tables")?)?;
    let layout = w.get("layout").and_then(layout_from_json);
    let reference_rows = w.get("reference_rows").and_then(|r| r.as_array()).map(|rows| {
        rows.iter()
            .map(|r| {
                r.as_array()
                    .map(|cells| {
                        cells
                            .iter()
                            .map(|c| match c {
                                Json::Number(n) if n.is_f64() => Value::Float(n.as_f64().unwrap()),
                                other => Value::from_json(other, Ty::Int),
                            })
                            .collect()
                    })
                    .unwrap_or_default()
            })
            .collect()
    });
    Some(SqlWitness { sql, db, layout, reference_rows, raw: w })
}

/// Run the witness' SQL; prints the physical plan and rows; returns the engine rows (or the error text).
pub fn run(w: &SqlWitness, cfg: SessionConfig) -> Result<Vec<Row>, String> {
    let rt = current_thread_rt();
    rt.block_on(async {
        let ctx = SessionContext::new_with_config(cfg);
        match &w.layout {
            Some(l) => register_db_layout(&ctx, &w.db, l).map_err(|e| e.to_string())?,
            None => register_db(&ctx, &w.db, 1, 8192, &mut vcommon::Rng::new(1)).map_err(|e| e.to_string())?,
        }
        if std::env::var("DFV_EXPLAIN").is_ok() {
            let _ = ctx.sql("set datafusion.explain.format = 'indent'").await;
            if let Ok(df) = ctx.sql(&format!("EXPLAIN VERBOSE {}", w.sql)).await {
                if let Ok(b) = df.collect().await {
                    for r in batches_to_rows(&b) {
                        if let (Value::Str(k), Value::Str(v)) = (&r[0], &r[1]) {
                            if v != "SAME TEXT AS ABOVE" && !k.contains("physical_plan") {
                                println!("--- {k}\n{v}");
                            }
                        }
                    }
                }
            }
        }
        let df = ctx.sql(&w.sql).await.map_err(|e| e.to_string())?;
        let plan = df.clone().create_physical_plan().await.map_err(|e| e.to_string())?;
        println!("{}", datafusion::physical_plan::displayable(plan.as_ref()).indent(false));
        let batches = df.collect().await.map_err(|e| e.to_string())?;
        let rows = batches_to_rows(&batches);
        println!("engine rows: {}", rows_to_json(&rows));
        Ok(rows)
    })
}
